#!/usr/bin/env python3
"""confirm_seed.py <worktree> <mutant_dir> -> writes <mutant_dir>/confirm.json
Independently re-verifies a seeded mutant: demo passes on clean HEAD, fails with the patch,
and the pinned suite (stable_pass of BASELINE.json) still passes with the patch alone."""
import json, os, subprocess, sys, xml.etree.ElementTree as ET

wt, md = sys.argv[1], sys.argv[2]
env = dict(os.environ, CARGO_TARGET_DIR=os.path.join(wt, "target"), CARGO_NET_OFFLINE="true")
meta = json.load(open(os.path.join(md, "meta.json")))

def sh(cmd, timeout=3600):
    p = subprocess.run(cmd, shell=True, cwd=wt, env=env, stdout=subprocess.PIPE, stderr=subprocess.STDOUT, text=True, timeout=timeout)
    return p.returncode, p.stdout

def clean():
    sh("git checkout -- . && git clean -fdq -e _out -e target")

def nextest_names():
    j = os.path.join(wt, "target/nextest/pb/junit.xml")
    res = {}
    for tc in ET.parse(j).getroot().iter("testcase"):
        name = f"{tc.get('classname')}::{tc.get('name')}"
        failed = any(ch.tag in ("failure", "error") for ch in tc)
        res[name] = not failed
    return res

out = {"mutant": md}
clean()
rc, o = sh(f"git apply {md}/demo.diff")
out["demo_applies"] = rc == 0
rc, o = sh(meta["demo_cmd"] + " 2>&1 | tail -30")
rc1, _ = sh(meta["demo_cmd"] + " >/dev/null 2>&1")
out["demo_clean_pass"] = rc1 == 0
rc, o = sh(f"git apply {md}/patch.diff")
out["patch_applies"] = rc == 0
rc2, o2 = sh(meta["demo_cmd"] + " 2>&1 | tail -15")
rc2b, _ = sh(meta["demo_cmd"] + " >/dev/null 2>&1")
out["demo_mutant_fail"] = rc2b != 0
out["demo_mutant_tail"] = o2[-800:]
clean()
sh(f"git apply {md}/patch.diff")
rc, o = sh("cargo nextest run --workspace --no-fail-fast --tool-config-file pb:/w/lib/nextest.toml --profile pb --test-threads 6 --offline 2>&1 | tail -5", timeout=5400)
base = json.load(open("/root/.vp/BASELINE.json"))
stable = set(base["stable_pass"])
got = nextest_names()
def norm(n):
    return n
missing = []
for s in stable:
    # baseline names: "crate::bin/x::tests::name" ; junit: classname="crate::bin/x" name="tests::name"
    ok = got.get(s)
    if ok is None:
        missing.append(s)
failed = [s for s in stable if got.get(s) is False]
# flake tolerance: a stable test that failed is re-run alone up to 3 times
still = []
for s in failed:
    crate = s.split("::")[0]
    name = "::".join(s.split("::")[1:]) if "bin/" not in s else "::".join(s.split("::")[2:])
    passed = False
    for _ in range(3):
        rc, _o = sh(f"cargo nextest run -p {crate} --offline -E 'test(={name})' >/dev/null 2>&1")
        if rc == 0:
            passed = True
            break
    if not passed:
        still.append(s)
out["suite_flaky_rerun_passed"] = [s for s in failed if s not in still]
failed = still
out["suite_stable_failed"] = failed
out["suite_stable_missing"] = len(missing)
out["suite_tail"] = o[-400:]
clean()
out["confirmed"] = bool(out["demo_applies"] and out["demo_clean_pass"] and out["patch_applies"] and out["demo_mutant_fail"] and not failed)
json.dump(out, open(os.path.join(md, "confirm.json"), "w"), indent=1)
print(json.dumps({k: out[k] for k in out if k not in ("demo_mutant_tail", "suite_tail")}))
