#!/usr/bin/env python3
"""Regenerate MANIFEST.json from the table below (one entry per claimed property)."""
import json
import os

VERIF = os.path.dirname(os.path.dirname(os.path.abspath(__file__)))
HOOK_COMMITS = os.popen("git -C /repo log --format=%h --grep='^verif hooks' ").read().split()

CHECKS = {
    "C01": dict(
        engine="StoreSeq",
        technique="TLA+ spec StoreSeq model-checked with TLC; TLC-enumerated interleavings replayed on the real store by a gate scheduler; recorded hook-point traces validated by TLC (StoreSeqTrace, LogTrace)",
        text="TLC checks GapFree/AckedOnce/AppendOnly exhaustively on the repaired design (2 writers, 2 threads, 1 session, 1 crash) and reproduces each recorded deviation; every interleaving of two writers' critical-section steps that TLC enumerates is forced on the real ContinuityStore and the real events.jsonl must be gap-free and pass the code's replay_validated; free-running multi-client runs through the real router are validated event by event by TLC.",
        note="Schedules are forced only at the instrumented points (op.start, log.pre, cache.enter, cache.exit, api.return); exhaustive within 2 writers x 1 operation; trusted: TLC, hook placement, harness projection (stream,seq,kind per line).",
        ref="4 C01"),
    "C02": dict(
        engine="Threads",
        technique="TLA+ spec Threads (reference semantics Eff of every capability) checked with TLC; one implementation test per transition of its state graph with byte-level log observation; byte-level traces validated by TLC (LogDeltaTrace)",
        text="TLC proves ReadOnlyQuiet on the reference semantics and enumerates every distinct store state (bounded) with the predicted effect of every operation of the alphabet (every request-parameter class, refused requests, unknown and malformed thread ids); the harness executes each (state, operation) pair on the real store and compares events.jsonl byte for byte before/after: exact prefix, whole newline-terminated frames, nothing when the model predicts nothing. Restart / cache-fault / injected-append-failure histories are validated by TLC as traces.",
        note="Exhaustive within MaxFrames/MaxOps of the configuration; sequential histories; trusted: TLC, the byte comparison in the harness.",
        ref="4 C02"),
    "C03": dict(
        engine="Replicas",
        technique="TLA+ spec Replicas (emitter buffer, subscriber, log, best-effort sidecar with rebuild, snapshot as separately scheduled steps) model-checked with TLC; recorded scenarios and generated histories (random sequences over the alphabet of client operations and unusual payloads) through the real router with a live SSE subscriber per stream validated by TLC per stream (ReplicasTrace: live, late subscriber, raw log, replayed log, sidecar, snapshot as digests of canonical JSON); every frame type and its payload mutants through rip_kernel::Event and EventLog append / replay",
        text="TLC proves LiveIsLog, SidecarIsPrefixOfLog, SnapshotIsLog and NothingExtra for every interleaving of record / publish / append / sidecar append / rebuild / snapshot over three streams, and finds the counterexample when a log append may fail silently; three scenarios (provider runs with unicode text, tool calls that succeed and fail, an HTTP error, a junk event, request dumps; tool and checkpoint commands; tasks incl. cancel and refused requests; every continuity operation incl. branch and handoff) plus generated histories (30 in the quick tier, 500 in the thorough tier: 4-9 steps drawn from 13 provider answers incl. null / empty / malformed call arguments, 15 tool and checkpoint commands linked and unlinked, 10 task requests, 13 continuity operations, with and without a torn sidecar + restart at the end) are run with one subscriber per stream from its first frame and TLC checks for each of the streams that the live frames, a late subscriber, the raw log lines, the code's replay, the sidecar and the snapshot are the same frames in the same order with contiguous seqs; all 38 frame types (33 as emitted, 5 written from their definitions) and about 1 000 payload mutants (unicode, control characters, 100 KB strings, empty collections, nested JSON, u64::MAX, optional fields absent / null) must keep every field and their stream assignment through parse / serialise and through append / replay.",
        note="Three written scenarios (the thread scenario also with five kinds of damaged sidecar + restart and with the sidecar lost mid-run) + random histories over a fixed alphabet, not exhaustive over histories; idle streams in the middle of their life (a task / tool that printed and then sleeps) must have every frame their live subscriber holds in the log file (polled with patience, Replicas!NothingExtra at Quiet); a crash between publish and append is outside the model; PTY-only frame types are covered by the round trip only.",
        ref="4 C03"),
    "C04": dict(
        engine="StoreCache",
        technique="TLA+ spec StoreCache (status algebra of the nine cache files, accept rule of every fast path) model-checked with TLC; TLC-enumerated fault/append/restart paths replayed on the real store with a differential oracle (caches as found vs removed) over every read capability under a watchdog",
        text="TLC proves Transparent for accept = complete, shows the counterexamples of the accept rules as implemented, and enumerates every reachable status vector of the nine cache files (delete / truncate / garbage / empty / rollback on any file, interleaved with appends, restarts and rebuilding reads); the harness replays each path on real threads (short, > 256 frames, > 10^4 frames, > 8 MiB) and evaluates replay, cut points, status, cursor status, selection status, plans, compiled context (tail / middle / first / stride-boundary anchors) and branch/handoff resolution twice; any difference on a vector the as-implemented model calls transparent, and any call that does not return within the watchdog, is a violation.",
        note="Verdict = differential on the implementation itself (best-effort field inflight_job_id excluded); differences on vectors the model declares non-transparent are attributed to the recorded D14 findings by culprit file; exhaustive over status vectors reachable in MaxSteps fault/append steps. Also: a long thread with more than 10^4 non-message frames between two messages and an unreadable messages+runs sidecar (full-sidecar window fallback).",
        ref="4 C04"),
    "C05": dict(
        engine="StoreSeq",
        category="model_checking",
        technique="TLA+ spec StoreSeq with Crash between any two steps (GenCrash) checked with TLC in the as-implemented and repaired variants; crash snapshots taken at every file-system hook point of real operations, restarted in place and compared with the model's prediction per crash class",
        text="TLC explores every crash point of the modelled append / create / lineage steps, restart and a further append, and predicts per crash class whether GapFree and AckedOnce survive; the harness copies data/ and <ws>/.rip at every file-system hook point (log, each sidecar and index incl. between body and newline, thread index) of 16+ real operations, restarts a fresh engine on each copy in place and requires: validated replay, acknowledged appends exactly once, correct numbering and success of further appends, and every read capability answering as with caches removed.",
        note="A crash point is 'between two file-system calls of the process' (snapshot at a hook point); torn single writes / power loss are not modelled; five recorded findings (D1, D14a-d) are attributed only when the measured cache lag at the crash point matches their signature. Also: crash points inside a sidecar rebuild; a refused append after restart is never attributed to the recorded finding D1.",
        ref="4 C05"),
    "C06": dict(
        engine="Subscribe",
        technique="TLA+ spec Subscribe (record/publish vs subscribe/snapshot, seq filter, shared thread channel) model-checked with TLC; every TLC-enumerated interleaving forced on the real router by the gate scheduler; oracle ExactlyOnce on the parsed SSE body",
        text="TLC proves ExactlyOnce and Ordered for record-then-publish (also with frames of a longer foreign stream on the shared channel) and exhibits the loss for publish-then-record; all interleavings of 3 frames x (record, publish) with subscribe/snapshot are forced on real session and task streams, and interleavings with a second, longer thread on real thread streams; a further scenario delays one task frame right after numbering while the other pump runs; the SSE body must contain every frame of the stream exactly once in seq order.",
        note="Gates at emit.recorded / emit.published / emit.numbered, cache.exit / api.return, sse.subscribed / sse.snapshotted; a schedule the code's locks forbid is unrealised (no verdict); missing = not delivered 3 s after the producer finished; lag beyond the 16 384-slot channel out of scope.",
        ref="4 C06"),
    "C07": dict(
        engine="RunLoop",
        technique="TLA+ spec RunLoop (the agent loop folded over a provider script; exact thread frame sequence of a run) checked with TLC; one provider script per distinct predicted run played by a scripted provider against the real router; thread and session streams compared with the prediction; generated histories (random operation sequences) validated in file order by TLC against the life-cycle state machines of LifecycleTrace",
        text="TLC proves Ordered over all provider scripts of the alphabet and prints one script per distinct predicted run (text, tool calls, malformed JSON, schema-invalid events, HTTP 500, connection reset mid-body, end without [DONE], empty body x tool choices x history modes); the scripted provider plays each against the real router and the run's thread frames must be exactly the predicted sequence (selection, compilation, one side-effects frame per executed lock-path tool, cursor iff completed with a response id, run_ended last and once), the session stream must start with its start frame at seq 0, end with exactly one end frame and be gap-free, run_ended must follow the run's session_ended in file order; 13 further scenarios cover envelopes, no provider, dead endpoint, compile failure, parallel runs and failing / succeeding compaction jobs (job ended at most once); generated histories (24 quick / 300 thorough: random sequences of prompts with 13 provider answers, tool and checkpoint envelopes, tasks and every continuity operation) are run for real and the whole log, in file order, is validated by TLC against the message / run / session / job state machines (LifecycleTrace; three corrupted copies of a recorded history must be rejected in every run).",
        note="Provider behaviour alphabet = six response outcomes x 3-4 call items; byte-level variety belongs to C15. Also: operations on the thread after a run has ended (cursor rotate, checkpoints, compaction jobs) must not add frames carrying the ended run's id; provider HTTP errors with 24 000-character bodies of 2- / 3- / 4-byte characters at every alignment and an invalid-UTF-8 body (the run must still end).",
        ref="4 C07"),
    "C08": dict(
        engine="Threads",
        technique="TLA+ spec Threads!Compile (cut point, hierarchical checkpoint selection, bundle) model-checked with TLC (BundleSound); Compile printed for every anchor of every reachable thread and of scripted long threads; the real compile entry point replayed with warm caches, after restart and with caches removed and compared with the prediction",
        text="TLC proves BundleSound on every reachable thread and prints the reference bundle for every anchor message (bounded exploration with messages, run ends from two sessions, checkpoints, side effects; eight scripted threads crossing the 16-message limit, halving over five checkpoints, checkpoints created in non-ascending to_seq order, interleaved replies, 60 x 10 KB messages exceeding the 256 KiB tail window); the real compile entry point must return exactly that cut, decision and bundle (artifact read back: summary refs, messages oldest first, each with the reply of the last run that ended for it) with warm caches, after a restart and with every cache removed before each call; a full scripted-provider run must send exactly the bundle's items.",
        note="Reply texts are written by the harness as session frames for the model's run_ended frames; the concurrent tail/head read race (D13) is not forced by gates. Also: one store / one history / the same compile in five cache states (re-compacted cuts: the last checkpoint frame for a cut wins by id; 16-message windows crossing a seek-stride boundary); compile parked between and after its two reads while another writer appends.",
        ref="4 C08"),
    "C09": dict(
        engine="Threads",
        technique="TLA+ spec Threads (cut points, planner, executor, scheduler as operators over the frame sequence) model-checked with TLC; every (state, compaction request) transition replayed on the real store and compared with the prediction; gate-scheduled concurrent calls",
        text="TLC proves CutPointsAreStrideMessages and AutoIdempotent on every reachable state and generates, per state, the predicted answer and appended frames of every compaction request class; the real store must give the same answer and frames, every created checkpoint must reference a readable summary with matching coverage, a repeated call with an exhausted plan must append nothing, the same history must give the same summary text with caches present / removed / after restart, and interleaved concurrent calls must keep job brackets well-formed.",
        note="Exhaustive within MaxFrames/MaxOps; summary text compared after replacing ids by positions; concurrency sampled by alternation patterns at every append. Also: after everything is checkpointed, unreadable / missing cache files plus a restart must not change cut points, status, or make a repeated auto / schedule append anything.",
        ref="4 C09"),
    "C10": dict(
        engine="Threads",
        technique="TLA+ spec Threads (EffLineage: cut resolution for every selector class) model-checked with TLC (LineageSound); every (state, branch/handoff request) transition replayed on the real store and compared with the prediction",
        text="TLC proves LineageSound (cut within the parent, names the last message at or before it, parent untouched) on every reachable state and generates the predicted outcome of every selector class in every state; the real store must answer the same, add bytes only for the new thread (created@0, lineage@1) and a handoff's summary must be readable afterwards.",
        note="Exhaustive within MaxFrames/MaxOps; artifact readability = blob file exists under .rip/artifacts/blobs. Also: a handoff's summary must be a readable artifact; handoffs while the artifact store cannot be written must fail and record nothing; a blank artifact id names nothing; 208 histories in which the source thread's sidecar or message-and-run view is torn, cut short, overwritten or missing (with and without a restart) must record the same cut, message and child frames as the intact store.",
        ref="4 C10"),
    "C11": dict(
        engine="WorkspaceLock",
        technique="TLA+ specs ExecOrder (observable: executions, side-effects frames, run ends) and WorkspaceLock (mechanism; TLC checks its invariants, liveness and that it refines ExecOrder); every (holder, program counter) state TLC enumerates is forced on the real router by parking the holder at that hook point while 8 other actors run; the recorded hook traces are validated by TLC against ExecOrderTrace and (strict, lock owner inferred) WorkspaceLockTrace",
        text="TLC proves NoOverlap, LockDiscipline, OrderAgrees, SEOnce, SEBeforeRunEnd, ReadOnlyFree and termination of every actor on the mechanism specification (direct tool commands, a 3-call provider loop, checkpoint command, tasks, a task cancelled while queued, read-only tools), proves that it refines the observable specification, and finds the counterexamples of the two excluded designs; each state with one actor inside its critical section is forced on the real router (holder parked at ws.acquired / exec begin / exec end / just before the side-effects append / ws.releasing) while all other actors of the cast are started and run until nothing moves; TLC then checks every recorded trace event by event: no second mutating execution begins while one is open, each owed frame appears exactly once after its tool finished, in the order the executions began, before the run ends, listing the changed file; read-only actors must finish inside the hold window.",
        note="Schedules are forced at hook points and perturbed by seeded delays, not enumerated at instruction level; PTY tasks not exercised; a rejected strict-mechanism trace is reported as conformance drift, only a false ExecOrder guard is a violation. Also: a bash tool call that hits its timeout must not go on changing the workspace.",
        ref="4 C11"),
    "C12": dict(
        engine="Patch",
        technique="TLA+ spec Patch (abstract file system, add/delete/update+move, forward-cursor hunks, undo) checked with TLC; every (initial file system, document) pair TLC enumerates is materialised and applied by the real Workspace::apply_patch and the apply_patch tool; full tree + bytes compared with the prediction",
        text="TLC checks AllOrNothing and StylePreserved on every (file system, document) pair of the alphabet (32 initial file systems x all 1-operation and 2-operation documents incl. hunks with missing / repeated / grown / shrunk / before-the-cursor context, moves onto existing files and onto themselves, nine malformed-document classes) and prints Apply for each; the real library call and the tool must succeed or fail as predicted, leave exactly the predicted bytes (or the untouched tree) and report exactly the named files.",
        note="Three paths (one nested), three-line alphabet, files <= 3 lines; directories left behind by a rolled-back add are allowed; mixed line endings inside one file are outside the alphabet. Also: three- and four-operation documents (a path removed, re-created, then a later operation fails) and context-only hunks (must be found; must move the cursor).",
        ref="4 C12"),
    "C13": dict(
        engine="PathGuard",
        technique="TLA+ spec PathGuard (path shapes x operations, guard Refused, GuardSound) checked with TLC; every (operation, shape) TLC enumerates is executed through the real router inside a sentinel tree with canaries, for two working directories and with/without active ignore files outside the root",
        text="TLC proves GuardSound (a path the guard accepts stays lexically inside the root) over all shapes up to the component bound and prints each (operation, shape) with Refused; each is run for read / write / ls / grep / apply_patch / checkpoint create (+ later rewind) / checkpoint rewind / shell cwd / task cwd through the real router (so the auto-checkpoint hook sees the raw argument), with the full sentinel tree hashed before and after: nothing outside changes, refused requests fail and change neither workspace nor checkpoint store, no canary content reaches frames or the store, ls/grep answers are independent of ignore files outside the root.",
        note="'Nothing outside is read' is observed through canaries and active ignore files, not proved; symlinks already inside the workspace are out of scope; one recorded finding (D17). Also: checkpoint-shaped directories planted inside and outside the root (a rewind id must never be taken for a path).",
        ref="4 C13"),
    "C14": dict(
        engine="Checkpoint",
        technique="TLA+ spec Checkpoint (workspace + checkpoint store; explicit and automatic checkpoints, tool and raw edits, rewinds in any order) model-checked with TLC (RewindExact, FailedRewindNoop, AutoCovers); one operation sequence per distinct state replayed on the real Workspace/ToolRunner and through the real router, workspace compared after every step",
        text="TLC proves RewindExact, FailedRewindNoop and AutoCovers in every reachable state of the bounded model and prints one operation sequence per distinct (workspace, store) state with the predicted workspace after each step; the harness executes every sequence on the real Workspace and ToolRunner (automatic checkpoints) and a sample through the real router and checkpoint hook, with the working directory equal to and different from the root (decoy files there), and requires the observed workspace to equal the prediction after every step, explicit creates / rewinds to succeed or fail as predicted, and every file-editing tool call to be preceded by an automatic checkpoint covering the files it changes.",
        note="Three paths (one nested), contents v1..v3; direct mode uses a 20-line hook adapter, the router sample the real hook; operation sequences up to MaxOps. Also: rewinds that fail half-way (stored copy missing, directory turned into a file) must leave the workspace exactly as it was.",
        ref="4 C14"),
    "C15": dict(
        engine="Sse",
        technique="TLA+ specs SseLines (SseDecoder::push/finish transcribed) and Utf8 (push_bytes carry transcribed) model-checked with TLC over all streams x all partitions; every stream replayed on the real decoder under token-boundary, single-byte and byte-at-a-time partitions and through real runs with controlled TCP chunking",
        text="TLC proves ChunkInvariant for every symbol stream up to length 5 (7 symbols) and every byte-class stream up to length 6 under EVERY partition, and MatchesLossy for the byte stage; each stream is decoded by the real SseDecoder/EventFrameMapper under all token-boundary partitions, every single byte cut and one byte at a time, and must equal the whole-stream decode and the model's reference; byte-class and framing streams (CRLF, multi-line data, comments, event names, invalid JSON, [DONE], missing final blank line, multi-byte text) are sent through real session runs with every cut set and must give the same provider/text frames with contiguous seqs.",
        note="Value fidelity is represented by byte classes (ascii, 2/3/4-byte lead, continuation, never-valid); the TCP chunk boundaries are assumed to reach reqwest as written (verified on this image).",
        ref="4 C15"),
    "C16": dict(
        engine="RunLoop",
        technique="TLA+ spec RunLoop (call collection, output-order drain, tool-choice enforcement, call budget, stateful / stateless follow-ups) model-checked with TLC (ExecutedOnce, BarredNeverRuns, Bounded, Ordered); one provider script per distinct predicted run replayed through the real router; request bodies, tool_started frames and tool side effects compared with Run(cfg, script)",
        text="TLC proves ExecutedOnce, BarredNeverRuns, Bounded and Ordered for every script (2-3 responses x up to 2 call items incl. duplicate call ids via repeated done events, reversed output order, streamed arguments, an unknown tool; 6 response outcomes; 5 tool choices; both history modes) and prints one script per distinct predicted run; the real run must execute exactly the predicted calls in order (the append-only file written by the write tool counts executions), answer exactly the predicted call ids in the very next request, never execute a barred tool, stop at 32 calls, send previous_response_id / an extending input, and never send a request with validation errors.",
        note="The scripted provider records the request bodies actually sent; call alphabet of 3-4 items. Also: the 32-call budget when every call is barred by tool_choice; stateless follow-ups on a thread whose compiled context is more than the prompt; every request body any case sent (about 8 800, 330 distinct) is validated against CreateResponseBody.json of the repository's schema by an independent validator (python jsonschema, tools/validate_requests.py), and 22 runs echo unusual call ids / function names (empty, at and beyond the length limits, outside the name pattern, unicode) back into the follow-up.",
        ref="4 C16"),
    "C17": dict(
        engine="TaskLife",
        technique="TLA+ specs TaskLife (runner, child process, two pumps and a cancel request as separately scheduled steps; WellFormed, Ends) and Capture (capture_stream transcribed as a fold over OS reads, bytes as positions; Faithful for every chunking) model-checked with TLC; every Capture case replayed on the real bash tool with a writer producing exactly those reads; recorded task streams plus on-disk measurements validated by TLC (TaskLifeTrace)",
        text="TLC proves WellFormed (opens with the spawn frame, running at most once, exactly one terminal frame and nothing after it, cancel request before the cancelled status, consecutive ranges covering the stored output, stored = prefix up to the cap) and termination for every interleaving of process writes, pump reads, cancel and exit, and Faithful (preview and artifact are prefixes, artifact exists exactly when needed) for every chunking x preview limit x cap; every (limit, cap, chunking) case is run on the real bash tool in three unit sizes with ASCII / multi-byte / binary payloads and the preview, the artifact bytes, its sha256 name and artifact_fetch pages are compared byte for byte; real tasks over payload class x cap x preview limit x exit code, read-size boundaries, both streams at volume, invalid requests, cancel while queued / at once / mid-output / twice / after exit and a late writer are run through the router and TLC validates each stream with the stored bytes, the terminal summary, the snapshot and /output pages.",
        note="PTY tasks not exercised; OS chunking is steered by 30 ms gaps (the oracle does not depend on it); one recorded finding (binary output cannot be paged losslessly). Also: 16 / 200 random tasks per run (write sizes around the character widths and the 4 / 8 KiB read sizes, random caps, limits, exit codes and cancel moments); one capped foreground case repeated 9 600 / 28 800 times on all cores: the artifact must hold the referenced bytes the moment tool_ended arrives (missing flush, fixed in 6f13b00).",
        ref="4 C17"),
    "C18": dict(
        engine="Authority",
        technique="TLA+ spec Authority (lock.json / meta.json, one action per file-system call of try_acquire, write_meta, Drop, stale and corrupt cleanup, the recovery loop) model-checked with TLC for the atomic-cleanup design and as implemented; complete behaviours TLC enumerates for the as-implemented model are forced on the real acquire_authority_lock_with_recovery with gates at the auth.* hook points and compared step by step (files, results)",
        text="TLC proves AtMostOne, NeverStealLive, HolderOwnsLock, LiveResidentKept and (fair) Usable for 3 contenders from all six leftover states with releases and a deadline that may expire at any retry when a cleanup's rename is atomic with its check, and finds the counterexamples of the code's check-then-rename sequences; every complete behaviour of 2 contenders of the as-implemented model (43 618; stratified sample in the quick tier; random 3-contender behaviours in the thorough tier) is forced on real threads against a real store directory (dead owner = pid of a reaped child, live resident = this process with a reachable endpoint): after each step lock.json and meta.json are read back and compared with the prediction, takeovers of a live owner's file and simultaneous guards are observed directly; after the forced part the remaining contenders finish one at a time with every arrival probed; lone and free-running contenders from every leftover state must end with exactly one authority (Usable observed directly); the real rip binary waits on a scripted live authority (half-written, written, advertised, hand-overs; the player advances when the client has read the file) and must never remove the lock, never start a server, and attach once the endpoint answers.",
        note="Contenders are threads (same pid); crashes in the middle of a cleanup are represented by leftover start states (incl. the doubly crashed one); the CLI's own loop is checked at design level (AuthorityCli.tla), with the real rip binary against scripted live authorities (both tiers) and against every leftover state (thorough tier); five recorded findings (D9a-d, D20b); takeovers are attributed to D9 only when the thief's last check was made on the dead authority's file.",
        ref="4 C18"),
    "C19": dict(
        engine="SecretFlow",
        technique="TLA+ spec SecretFlow (configuration space of the secret supply: three layers, inline / env reference / unresolvable reference, env fall-backs, provider selection; the code's resolution, the documented precedence, the doctor report, the allowed flow) checked with TLC on all 24 000 configurations; configurations TLC enumerates are materialised with canary values and run through the real router against a scripted provider; all persisted bytes, responses and process output searched; doctor report and the key the provider received compared with the model",
        text="TLC proves that the resolution as coded equals the documented precedence for every configuration and prints each with the effective key, the reported source and header names; a stratified sample (every selection mode x source x env key x fall-back x header count; 6 run outcomes incl. an HTTP error echoing the request body, a transport error, invalid SSE, a failing tool; request dumping on and off) is run for real: every file under the data directory, the workspace, the home and config directories except the config files themselves, the doctor answer, the replayed event stream and the process's stderr are searched for every canary (effective or not) in raw, base64, hex, percent-encoded and inner-part form; /config/doctor must report exactly has_api_key / api_key_source / header names of the model and nothing else; the provider must have received exactly the predicted Authorization and secret headers.",
        note="Information flow is observed with canaries, not proved; commands that print their own environment and providers that echo request headers are outside the property.",
        ref="4 C19"),
    "C20": dict(
        engine="Surface",
        technique="TLA+ spec Surface (UI state as a fold over arbitrary frame sequences: bounded window, lookup by seq, tool summaries, bounded output) checked with TLC; every generated sequence folded by the real TuiState/FrameStore and rendered on a TestBackend at all widths; observations compared with the model",
        text="TLC proves WindowBounded, OutputBounded and LookupSound on every frame sequence up to the bound (seqs from {0,1,2,5,u64::MAX} with gaps, repeats and inversions, two streams mixed, orphan terminal frames, unknown ids; capacities 1..3) and prints each with the predicted window, lookups, tool statuses and output length; the real state must agree (window, 'that frame or nothing' for every probed seq and its neighbours, tool fold, exact ASCII output length), be identical on a second run, stay within its bounds with multi-byte payloads at the truncation limits, and render without a panic at widths 1..44 x heights x modes x views x overlays x stalled.",
        note="rip-cli's headless renderers (binary crate) are not reached; payload values are represented by ASCII and one multi-byte pattern.",
        ref="4 C20"),
}

NOT_YET = {}


SUITE_PROPS = ("C01", "C03", "C05", "C06", "C07", "C09", "C10", "C11", "C17")
for _p in SUITE_PROPS:
    CHECKS[_p]["technique"] += "; the repository's own test-suite run with the hooks on and every recorded execution validated by TLC against the monitor half of the composition System.tla (SystemTrace)"
    CHECKS[_p]["text"] += " In addition the whole test-suite of the repository is built from the working tree with the hooks on and run once with the environment recorder; each of the about 125 test processes that writes frames is one execution (about 33 000 frames, sidecar lines and emitter steps in the order the process passed the hook points), and TLC evaluates every guard of System.tla's monitor (numbering, thread / session / run / job / task life cycles, truth before sidecar, recorded before published, no two mutating executions at once, side-effects frame after its tool finished, a snapshot holds every logged frame of its stream, a checkpoint names its cut message by seq and id, a lineage cut lies within the source thread) at every step; the design half of System.tla (two runs, a compaction job and a task on one thread contending for the workspace permit) is model-checked with the same guards, incl. liveness."
    CHECKS[_p]["note"] += " Suite executions: 15 tests that write a stream by hand or drive a layer below the one that writes the opening frame are excused for the one guard they trip (vlib/suite_handmade.json); life-cycle guards are used in their stage-monotone form there (Strict = FALSE)."


ROUND4 = {
    "C03": " Round 4: refused-append histories (every thread append kind with an injected failure of its first / second log append: the sidecar never holds a frame the log lacks, also after a restart); a task whose child keeps the pipes and writes after the shell exited.",
    "C07": " Round 4: runs whose session snapshot cannot be written are closed all the same; a provider that never stops asking for a barred tool: the run ends at the call budget; System.tla's run-ended-before-session deviation refuted.",
    "C09": " Round 4: threads whose messages were answered by runs in the determinism / cache-fault families; the whole cache directory lost and rebuilt from truth.",
    "C16": " Round 4: whatever a follow-up answers is answered under the call id the provider issued (ids beyond the schema's 64 characters).",
    "C01": " Round 4: store-level writers of every append kind at once with every sidecar line delayed until a later one is in the sidecar (sidecar order, then restart + appends); whole-system histories with request dumps judged by System.tla's numbering guard; Apalache proves the inductive invariant of the numbering protocol (spec/apalache/SeqLock.tla: any log length, three writers, crash anywhere) and refutes the narrowed critical section.",
    "C02": " Round 4: damaged-store no-op family (thread index lost / garbage / empty x log clean / torn / seq gap; ensure_default and every read add nothing after a restart); concurrent appenders on one log with frames of 10 B .. 48 KB (only whole lines, one per acknowledged append).",
    "C05": " Round 4: acknowledged means on disk for every writer family: at every log.flushed point of generated whole-system histories the last line of the file is the frame just appended.",
    "C06": " Round 4: for each frame of a tool run on a thread and each frame of a task the producer is parked inside that frame's append while a subscriber joins (join_hold engine).",
    "C08": " Round 4: the same compile with a sidecar line glued onto the next (messages+runs / full sidecar, tail and further back), before and after a restart.",
    "C11": " Round 4: the bash actor also runs under the registry alias `shell`.",
    "C15": " Round 4: bodies that end without the terminal marker in every state of the line decoder after delivered events.",
    "C18": " Round 4: a real `rip serve` with a request in flight gets SIGTERM while a second one starts (the lock names the first as long as it lives); waiting-client scripts with a dead authority's meta file beside a live authority's half-written lock.",
    "C19": " Round 4: the engine starts with the configuration the environment gives (the `rip serve` start-up path); padded environment values; secret headers whose names give nothing away.",
    "C20": " Round 4: every frame type as real runs wrote it and its well-formed payload mutants folded and rendered in every mode (surface_frames engine).",
}
for _p, _t in ROUND4.items():
    CHECKS[_p]["text"] += _t


def main():
    props = [json.loads(l) for l in open(os.path.join(VERIF, "properties.jsonl"))]
    checks = []
    na = []
    for p in props:
        pid = p["id"]
        c = CHECKS.get(pid)
        if not c:
            na.append({"property_id": pid, "reason": NOT_YET.get(pid, "check not built yet in this round (planned, see DESIGN.md section 9); not claimed")})
            continue
        checks.append({
            "property_id": pid,
            "quick_cmd": f"./check {pid} --tier quick",
            "thorough_cmd": f"./check {pid} --tier thorough",
            "evidence_file": f"/verif/evidence/{pid}.json",
            "replay_cmd_template": f"./check {pid} --replay {{path}}",
            "engine": c["engine"],
            "level_claimed": {"category": c.get("category", "model_checking"), "text": c["text"], "design_ref": c["ref"]},
            "level_note": c["note"],
            "technique": c["technique"],
        })
    m = {
        "version": 1,
        "setup_cmd": "cd /verif/harness && cp -n /repo/Cargo.lock Cargo.lock; CARGO_NET_OFFLINE=true cargo build --release --offline",
        "hooks": {
            "guard": "--cfg rip_verif",
            "enable": "harness/.cargo/config.toml sets rustflags = [\"--cfg\",\"rip_verif\"]; /repo crates are path dependencies of /verif/harness, so every check rebuilds them from the working tree with the hooks on",
            "baseline_off_cmd": "cd /repo && cargo nextest run --workspace --no-fail-fast --tool-config-file pb:/w/lib/nextest.toml --profile pb --test-threads 8 --offline",
            "source_commits": HOOK_COMMITS,
            "add_only": True,
        },
        "engines": [
            {"name": "check", "path": "/verif/check", "serves_properties": sorted(CHECKS), "kind_free_text": "python driver: TLC runs (spec/), harness runs, verdict, evidence"},
            {"name": "spec", "path": "/verif/spec", "serves_properties": sorted(CHECKS), "kind_free_text": "TLA+ modules, one .cfg per use (model checking / behaviour generation / trace validation)"},
            {"name": "ripverif", "path": "/verif/harness", "serves_properties": sorted(CHECKS), "kind_free_text": "Rust harness: history executor, gate scheduler, crash snapshotter, trace recorder over the real crates (path deps on /repo)"},
        ],
        "checks": checks,
        "not_applicable": na,
        "notes": "All properties are decided with an explicit TLA+ specification (spec/) checked by TLC and bound to the implementation by behaviour replay and trace validation; see DESIGN.md.",
    }
    with open(os.path.join(VERIF, "MANIFEST.json"), "w") as f:
        json.dump(m, f, indent=1)
    print(f"{len(checks)} checks, {len(na)} not claimed")


if __name__ == "__main__":
    main()
