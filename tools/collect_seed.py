#!/usr/bin/env python3
"""collect_seed.py <prop> <n> <detected_by> [notes]  -> /verif/seeded/<prop>-<n>/"""
import json, os, shutil, sys
prop, n, detected = sys.argv[1], sys.argv[2], sys.argv[3]
notes = sys.argv[4] if len(sys.argv) > 4 else ""
src = f"/tmp/seed/{prop}/_out/{n}"
dst = f"/verif/seeded/{prop}-{n}"
os.makedirs(dst, exist_ok=True)
for f in ("patch.diff", "demo.diff"):
    shutil.copy(os.path.join(src, f), os.path.join(dst, f))
meta = json.load(open(os.path.join(src, "meta.json")))
conf = {}
if os.path.exists(os.path.join(src, "confirm.json")):
    conf = json.load(open(os.path.join(src, "confirm.json")))
out = {
    "property": prop,
    "title": meta.get("title"),
    "breaks": meta.get("what_breaks"),
    "needs_to_manifest": meta.get("needs_to_manifest"),
    "files_changed": meta.get("files_changed"),
    "demo_cmd": meta.get("demo_cmd"),
    "confirmed_in_scratch_worktree": {
        "how": "tools/confirm_seed.py: demo.diff on clean HEAD -> demo passes; + patch.diff -> demo fails; patch.diff alone -> pinned nextest suite, no stable_pass test of BASELINE.json fails (a stable test that failed was re-run alone up to 3 times)",
        "demo_clean_pass": conf.get("demo_clean_pass"), "demo_mutant_fail": conf.get("demo_mutant_fail"),
        "suite_stable_failed": conf.get("suite_stable_failed"), "suite_flaky_rerun_passed": conf.get("suite_flaky_rerun_passed"),
        "note": notes,
    },
    "check_result": {"cmd": f"git -C /repo apply seeded/{prop}-{n}/patch.diff && ./check {prop} --tier quick ; git -C /repo checkout -- .",
                     "detected": detected != "MISSED", "by": detected},
}
json.dump(out, open(os.path.join(dst, "meta.json"), "w"), indent=1)
print(dst, out["check_result"]["detected"])
