#!/usr/bin/env python3
"""seed_setup.py <suffix> <Cxx> [<Cxx> ...]: scratch worktree /tmp/seed/<Cxx><suffix> of /repo HEAD and the
sub-agent's prompt /tmp/seed/<Cxx><suffix>.prompt.txt (property text + titles of earlier seeded changes only)."""
import glob, json, os, subprocess, sys
suffix, ids = sys.argv[1], sys.argv[2:]
props = {json.loads(l)["id"]: json.loads(l) for l in open("/verif/properties.jsonl")}
tmpl = open("/verif/tools/seed_prompt.tmpl").read()
os.makedirs("/tmp/seed", exist_ok=True)
for i in ids:
    wt = f"/tmp/seed/{i}{suffix}"
    if not os.path.exists(wt):
        subprocess.check_call(["git", "-C", "/repo", "worktree", "add", "--detach", wt, "HEAD"], stdout=subprocess.DEVNULL)
    p = props[i]
    a = p["anchors"]
    text = f"{p['id']} - {p['title']}\n\n{p['statement']}\n\nQuantified over: {p['quantifier']['text']}\n\nWhy the existing tests cannot settle it: {p['why_tests_cant']}\n\nRelevant files: {', '.join(a['files'])}\nMechanisms: " + "; ".join(f"{m['name']} ({m['where']})" for m in a.get("mechanism", []))
    avoid = []
    for m in sorted(glob.glob(f"/verif/seeded/{i}-*/meta.json")):
        avoid.append("   - " + (json.load(open(m)).get("title") or ""))
    t = tmpl.replace("__WT__", wt).replace("__ID__", i).replace("__PROP__", text).replace("__AVOID__", "\n".join(avoid) or "   (none)")
    open(f"/tmp/seed/{i}{suffix}.prompt.txt", "w").write(t)
    print(wt, len(t))
