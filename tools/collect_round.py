#!/usr/bin/env python3
"""collect_round.py <worktree name under /tmp/seed> <Cxx> <n1> <n2>: copy the sub-agent's two changes to /verif/seeded/<Cxx>-<n>/"""
import json, os, shutil, sys
wt, prop, a, b = sys.argv[1:5]
for n, m in ((1, a), (2, b)):
    src = f"/tmp/seed/{wt}/_out/{n}"; dst = f"/verif/seeded/{prop}-{m}"
    if not os.path.exists(f"{src}/patch.diff"):
        print("missing", src); continue
    os.makedirs(dst, exist_ok=True)
    for f in ("patch.diff", "demo.diff"):
        shutil.copy(f"{src}/{f}", f"{dst}/{f}")
    meta = json.load(open(f"{src}/meta.json"))
    out = {"property": prop, "title": meta.get("title"), "breaks": meta.get("what_breaks"), "needs_to_manifest": meta.get("needs_to_manifest"),
           "files_changed": meta.get("files_changed"), "demo_cmd": meta.get("demo_cmd"),
           "confirmed_in_scratch_worktree": {"how": "verified by the authoring sub-agent (demo passes on clean HEAD, fails with the patch; pinned suite passes with the patch alone) and re-confirmed with tools/confirm_demo.py (demo on clean HEAD passes, with the patch fails) - fourth round",
                                             "suite_result_mutant": meta.get("suite_result_mutant")},
           "check_result": {"cmd": f"git -C /repo apply seeded/{prop}-{m}/patch.diff && ./check {prop} --tier quick ; git -C /repo checkout -- .", "detected": None, "by": f"./check {prop} --tier quick"}}
    json.dump(out, open(f"{dst}/meta.json", "w"), indent=1)
    print(dst, meta.get("title"))
