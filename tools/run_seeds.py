#!/usr/bin/env python3
"""run_seeds.py [--tier quick] [ids...]

Mutation regression of the checks: for every /verif/seeded/<id>/patch.diff, apply it to a scratch
worktree of /repo (never to /repo itself), run `./check <prop>` against that tree (VERIF_ALT mode:
the harness is copied and re-pointed at the scratch tree; work, evidence and replays stay under the
scratch directory) and record in seeded/<id>/meta.json whether the check reported a violation and
what it said.  Also runs every check once on the unmodified scratch tree first (must exit 0).

The scratch directory ($SEEDRUN, default /tmp/seedrun) is removed at the end."""
import json
import os
import re
import subprocess
import sys
import time

VERIF = os.path.dirname(os.path.dirname(os.path.abspath(__file__)))
ALT = os.environ.get("SEEDRUN", "/tmp/seedrun")
REPO = os.path.join(ALT, "repo")


def sh(cmd, **kw):
    return subprocess.run(cmd, stdout=subprocess.PIPE, stderr=subprocess.STDOUT, text=True, **kw)


def check(prop, tier):
    env = dict(os.environ, VERIF_ALT=ALT)
    t0 = time.time()
    p = sh([os.path.join(VERIF, "check"), prop, "--tier", tier], env=env, cwd=VERIF)
    return p.returncode, p.stdout, time.time() - t0


def main():
    args = sys.argv[1:]
    tier = "quick"
    if "--tier" in args:
        i = args.index("--tier")
        tier = args[i + 1]
        del args[i:i + 2]
    keep = "--keep" in args
    args = [a for a in args if a != "--keep"]
    ids = args or sorted(os.listdir(os.path.join(VERIF, "seeded")))
    os.makedirs(ALT, exist_ok=True)
    if not os.path.exists(REPO):
        p = sh(["git", "-C", "/repo", "worktree", "add", "--detach", REPO, "HEAD"])
        if p.returncode != 0:
            print(p.stdout)
            sys.exit(2)
    sh(["git", "-C", REPO, "checkout", "--detach", sh(["git", "-C", "/repo", "rev-parse", "HEAD"]).stdout.strip()])
    sh(["git", "-C", REPO, "checkout", "--", "."])
    rows = []
    clean_done = set()
    for sid in ids:
        d = os.path.join(VERIF, "seeded", sid)
        prop = sid.split("-")[0]
        if not os.path.exists(os.path.join(d, "patch.diff")):
            continue
        if prop not in clean_done and os.environ.get("SEEDS_SKIP_CLEAN") != "1":
            rc, out, dt = check(prop, tier)
            clean_done.add(prop)
            print(f"{prop} clean tree: exit {rc} ({dt:.0f}s)", flush=True)
            if rc != 0:
                print(out[-3000:])
                rows.append((sid, "CLEAN-TREE-FAILS", rc))
                continue
        p = sh(["git", "-C", REPO, "apply", os.path.join(d, "patch.diff")])
        if p.returncode != 0:
            print(f"{sid}: patch does not apply: {p.stdout[-300:]}", flush=True)
            rows.append((sid, "PATCH-DOES-NOT-APPLY", None))
            continue
        rc, out, dt = check(prop, tier)
        try:
            with open(f"/tmp/seedout.{sid}.log", "w") as f:
                f.write(out)
        except OSError:
            pass
        sh(["git", "-C", REPO, "checkout", "--", "."])
        sh(["git", "-C", REPO, "clean", "-fdq"])
        viol = [l for l in out.splitlines() if l.startswith("VIOLATION ")]
        said = [l.strip() for l in out.splitlines() if l.startswith("  ")][:2]
        # replay file carries the description
        what = ""
        m = re.search(r"replay=(\S+)", viol[0]) if viol else None
        if m and os.path.exists(m.group(1)):
            try:
                what = json.load(open(m.group(1))).get("what", "")[:400]
            except Exception:
                pass
        detected = rc == 1 and bool(viol)
        print(f"{sid}: exit {rc} violations={len(viol)} ({dt:.0f}s) {what[:160]}", flush=True)
        if rc not in (0, 1):
            print(out[-1500:])
        mp = os.path.join(d, "meta.json")
        meta = json.load(open(mp))
        meta["check_result"] = {
            "cmd": f"git -C /repo apply seeded/{sid}/patch.diff && ./check {prop} --tier {tier} ; git -C /repo checkout -- .",
            "detected": detected, "exit": rc, "violation_lines": len(viol), "first_violation": what or (said[0] if said else ""),
            "wall_s": round(dt, 1), "by": f"./check {prop} --tier {tier}",
        }
        json.dump(meta, open(mp, "w"), indent=1)
        rows.append((sid, "DETECTED" if detected else ("TOOL-ERROR" if rc == 2 else "MISSED"), rc))
    print("\n== summary")
    for r in rows:
        print(*r)
    if not keep:
        sh(["git", "-C", "/repo", "worktree", "remove", "--force", REPO])
        sh(["rm", "-rf", ALT])
    sys.exit(0 if all(r[1] == "DETECTED" for r in rows) else 1)


if __name__ == "__main__":
    main()
