#!/usr/bin/env python3-vt
"""validate_requests.py <schemas/openresponses dir> <in.ndjson> -> one JSON line per request: {"k": key, "errors": [...]}

Independent oracle for "a request that fails schema validation is never sent" (C16): the request bodies the scripted
provider received are validated against CreateResponseBody.json of the repository's split OpenResponses schema with the
python jsonschema package (tooling venv).  `tools` and `tool_choice` are validated apart, as the specification's oneOf over
tool variants cannot be evaluated on the whole body (the code does the same); everything else - in particular every input
item the loop echoes back (call ids, function names, outputs) - is validated by the schema itself."""
import json, sys
import jsonschema

PREFIX = "https://openresponses.local/components/schemas/"


_V = None


def validators(sdir):
    global _V
    if _V is None:
        comps = json.load(open(f"{sdir}/split_components.json"))
        store = {PREFIX + name: schema for name, schema in comps.items()}

        def validator(name):
            root = {"$ref": PREFIX + name}
            resolver = jsonschema.RefResolver(base_uri=PREFIX, referrer=root, store=store)
            return jsonschema.Draft7Validator(root, resolver=resolver)
        _V = (validator("CreateResponseBody.json"), validator("ResponsesToolParam.json"), validator("ToolChoiceParam.json"))
    return _V


def check(arg):
    sdir, text = arg
    import warnings
    warnings.simplefilter("ignore")
    body_v, tool_v, choice_v = validators(sdir)
    body = json.loads(text)
    errs = []
    if not isinstance(body, dict):
        errs.append("body is not an object")
    else:
        b = dict(body)
        tools, choice = b.pop("tools", None), b.pop("tool_choice", None)
        errs += [f"{'/'.join(map(str, e.absolute_path))}: {e.message[:160]}" for e in body_v.iter_errors(b)][:4]
        for i, t in enumerate(tools or []):
            errs += [f"tools/{i}: {e.message[:120]}" for e in tool_v.iter_errors(t)][:2]
        if choice is not None:
            errs += [f"tool_choice: {e.message[:120]}" for e in choice_v.iter_errors(choice)][:2]
    return text, errs


def main():
    import multiprocessing
    sdir, inp = sys.argv[1], sys.argv[2]
    recs = [json.loads(line) for line in open(inp)]
    texts = {}
    for rec in recs:
        texts.setdefault(json.dumps(rec["body"], sort_keys=True), []).append(rec["k"])
    with multiprocessing.Pool(12) as pool:
        for text, errs in pool.imap_unordered(check, [(sdir, t) for t in texts], chunksize=8):
            for k in texts[text]:
                print(json.dumps({"k": k, "errors": errs}))
    print(json.dumps({"distinct_bodies": len(texts)}))


if __name__ == "__main__":
    import warnings
    warnings.simplefilter("ignore")
    main()
