#!/bin/sh
# run_suite.sh <worktree>  -> prints stable_pass failures (after flake re-runs); exit 0 if none
wt=$1
cd $wt || exit 2
export CARGO_TARGET_DIR=$wt/target CARGO_NET_OFFLINE=true
cargo nextest run --workspace --no-fail-fast --tool-config-file pb:/w/lib/nextest.toml --profile pb --test-threads 6 --offline > $wt/suite.log 2>&1
python3 - "$wt" <<'PY'
import json,sys,subprocess,os,xml.etree.ElementTree as ET
wt=sys.argv[1]
base=json.load(open('/root/.vp/BASELINE.json'))
got={}
for tc in ET.parse(os.path.join(wt,'target/nextest/pb/junit.xml')).getroot().iter('testcase'):
    got[f"{tc.get('classname')}::{tc.get('name')}"]=not any(ch.tag in('failure','error') for ch in tc)
failed=[s for s in base['stable_pass'] if got.get(s) is not True]
still=[]
env=dict(os.environ)
for s in failed:
    crate=s.split('::')[0]
    name='::'.join(s.split('::')[2:]) if 'bin/' in s else '::'.join(s.split('::')[1:])
    ok=False
    for _ in range(3):
        if subprocess.run(f"cargo nextest run -p {crate} --offline -E 'test(={name})' >/dev/null 2>&1",shell=True,cwd=wt,env=env).returncode==0:
            ok=True;break
    if not ok: still.append(s)
print(json.dumps({"ran":len(got),"passed":sum(got.values()),"stable_failed_first":failed,"stable_failed_after_rerun":still}))
sys.exit(1 if still else 0)
PY
