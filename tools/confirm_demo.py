#!/usr/bin/env python3
"""confirm_demo.py <worktree> <seed dir>: demo.diff on clean HEAD -> demo passes; + patch.diff -> demo fails. Writes confirm.json into the seed dir."""
import json, os, subprocess, sys
wt, sd = sys.argv[1], sys.argv[2]
meta = json.load(open(os.path.join(sd, "meta.json")))
env = dict(os.environ, CARGO_TARGET_DIR=os.path.join(wt, "target"), CARGO_NET_OFFLINE="true")
def sh(c, t=1800):
    p = subprocess.run(c, shell=True, cwd=wt, env=env, stdout=subprocess.PIPE, stderr=subprocess.STDOUT, text=True, timeout=t)
    return p.returncode, p.stdout
def clean():
    sh("git checkout -q -- . && git clean -fdq -e _out -e target")
clean()
out = {}
rc, o = sh(f"git apply {sd}/demo.diff"); out["demo_applies"] = rc == 0
rc, o = sh(meta["demo_cmd"]); out["demo_clean_pass"] = rc == 0; out["clean_tail"] = o[-300:]
rc, o = sh(f"git apply {sd}/patch.diff"); out["patch_applies"] = rc == 0
rc, o = sh(meta["demo_cmd"]); out["demo_mutant_fail"] = rc != 0; out["mutant_tail"] = o[-600:]
clean()
json.dump(out, open(os.path.join(sd, "confirm.json"), "w"), indent=1)
print(sd, {k: v for k, v in out.items() if not k.endswith("tail")})
