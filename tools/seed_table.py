#!/usr/bin/env python3
"""seed_table.py -> seeded/README.md (one row per seeded change, from seeded/*/meta.json) and the
table inside DESIGN.md section 0.4 (between the SEED_TABLE markers)."""
import json, os, re
VERIF = os.path.dirname(os.path.dirname(os.path.abspath(__file__)))
rows = []
for sid in sorted(os.listdir(os.path.join(VERIF, "seeded"))):
    mp = os.path.join(VERIF, "seeded", sid, "meta.json")
    if not os.path.exists(mp):
        continue
    m = json.load(open(mp))
    cr = m.get("check_result", {})
    said = (cr.get("first_violation") or "").replace("|", "/").replace("\n", " ")
    said = re.sub(r"/verif/\S+|/tmp/\S+", "<path>", said)[:170]
    rows.append((sid, (m.get("title") or "").replace("|", "/")[:110], "yes" if cr.get("detected") else "NO", cr.get("by", ""), said))
lines = ["| seeded change | what it does | detected | by | the check says |", "|---|---|---|---|---|"]
for r in rows:
    lines.append("| " + " | ".join(r) + " |")
table = "\n".join(lines)
open(os.path.join(VERIF, "seeded", "README.md"), "w").write(
    "# Seeded changes\n\nWritten by independent sub-agents from the property text only; each compiles, passes the pinned suite and breaks its property under a specific "
    "trigger (see each meta.json).  `tools/run_seeds.py` applies each to a scratch worktree and runs the property's quick check against it.\n\n" + table + "\n")
p = os.path.join(VERIF, "DESIGN.md")
s = open(p).read()
if "SEED_TABLE_PLACEHOLDER" in s:
    s = s.replace("SEED_TABLE_PLACEHOLDER", "<!-- SEED_TABLE_BEGIN -->\n" + table + "\n<!-- SEED_TABLE_END -->")
else:
    s = re.sub(r"<!-- SEED_TABLE_BEGIN -->.*?<!-- SEED_TABLE_END -->", lambda _: "<!-- SEED_TABLE_BEGIN -->\n" + table + "\n<!-- SEED_TABLE_END -->", s, flags=re.S)
open(p, "w").write(s)
print(len(rows), "rows;", sum(1 for r in rows if r[2] == "yes"), "detected")
