"""The repository's own test-suite as a driver of the implementation (direction B of DESIGN 2):

the workspace's tests are built from /repo's working tree with `--cfg rip_verif`, run once with the
environment recorder on (RIP_VERIF_TRACE_DIR: one ndjson file per test process, one line per hook
point, whole frames at `log.frame`), and every recorded execution is validated by TLC against the
monitor half of spec/System.tla (SystemTrace.tla).  The harvest is shared by the checks of several
properties: it is keyed by the state of the tree and taken once per state."""
import fcntl
import hashlib
import json
import os
import shutil
import subprocess
import time

from . import tlc
from .common import REPO, WORK, VERIF, log, die_tool, write_ndjson

SUITE = os.path.join(WORK, "suite")
# tests of the pinned baseline that fail / time out in this sandbox (BASELINE.json always_fail) are not run
SKIP = "not (test(/pty_task/) | test(local_authority_recovers_from_stale_lock_under_concurrency))"

# which guard of System.tla speaks for which property
GUARD_PROP = {
    "SeqIsCountOfStreamFramesBefore": "C01",
    "ThreadOpensWithCreationOnly": "C10", "LineageIsSecondFrame": "C10", "LineageCutWithinSource": "C10", "LineageNamesSourceMessageAtOrBeforeCut": "C10",
    "SessionStartsOnceFirst": "C07", "NothingAfterSessionEnd": "C07", "MessageIdFresh": "C07",
    "OneRunSpawnedPerMessage": "C07", "RunSpawnedOnce": "C07", "SelectionOnceAfterSpawn": "C07",
    "CompiledOnceAfterSelection": "C07", "SideEffectsAfterCompileBeforeCursorAndEnd": "C07",
    "CursorOnceAfterEffectsBeforeEnd": "C07", "RunEndedOnceAfterSpawn": "C07", "RunEndedFollowsItsSessionEnded": "C07",
    "NothingOfARunAfterItsEnd": "C07", "JobSpawnedOnce": "C07", "JobEndedAtMostOnceAfterSpawn": "C07",
    "TaskOpensWithSpawnOnly": "C17", "FrameAfterTerminal": "C17", "RunningAtMostOnce": "C17", "CancelRecordedFirst": "C17", "RangesConsecutive": "C17",
    "CacheNeverAheadOfTruth": "C05", "RecordedBeforePublished": "C06",
    "SnapshotHasEveryLoggedFrame": "C03", "CheckpointNamesItsCutMessage": "C09",
    "NoOverlap": "C11", "SideEffectsAfterTheToolFinished": "C11",
}

# Tests whose process writes frames into a log by hand (EventLog::append / write_snapshot with literal seqs, or a
# fabricated stream) to exercise a reader: their log is test input, not behaviour of the system.  Listed with the
# guard they trip and why; nothing else is excused.  (Triage of the unchanged tree, see DESIGN 0.6.)
HANDMADE = json.load(open(os.path.join(VERIF, "vlib", "suite_handmade.json")))["tests"]


def tree_key():
    head = subprocess.run(["git", "-C", REPO, "rev-parse", "HEAD"], stdout=subprocess.PIPE, text=True).stdout.strip()
    diff = subprocess.run(["git", "-C", REPO, "diff", "HEAD", "--", "crates", "Cargo.toml", "Cargo.lock"], stdout=subprocess.PIPE).stdout
    return head[:12] + "-" + hashlib.sha256(diff).hexdigest()[:12]


def harvest():
    """-> directory with one ndjson per test process; taken once per state of the tree."""
    os.makedirs(SUITE, exist_ok=True)
    lock = open(os.path.join(SUITE, "lock"), "w")
    fcntl.flock(lock, fcntl.LOCK_EX)
    try:
        key = tree_key()
        tr = os.path.join(SUITE, "traces")
        stamp = os.path.join(SUITE, "key")
        if os.path.exists(stamp) and open(stamp).read() == key and os.path.isdir(tr) and os.listdir(tr):
            log(f"[suite] recorded executions of tree {key} reused")
            return tr, json.load(open(os.path.join(SUITE, "summary.json")))
        shutil.rmtree(tr, ignore_errors=True)
        os.makedirs(tr)
        if os.path.exists(stamp):
            os.remove(stamp)
        env = dict(os.environ, CARGO_NET_OFFLINE="true", CARGO_TARGET_DIR=os.path.join(SUITE, "target"),
                   RUSTFLAGS="--cfg rip_verif", RIP_VERIF_TRACE_DIR=tr)
        env.pop("RIPVERIF_SCRATCH", None)
        t0 = time.time()
        cmd = ["cargo", "nextest", "run", "--workspace", "--no-fail-fast", "--tool-config-file", "pb:/w/lib/nextest.toml",
               "--profile", "pb", "--test-threads", "8", "--offline", "-E", SKIP]
        p = subprocess.run(cmd, cwd=REPO, env=env, stdout=subprocess.PIPE, stderr=subprocess.STDOUT, text=True, timeout=2400)
        tail = p.stdout[-3000:]
        if "Summary [" not in p.stdout:
            log(tail)
            die_tool("the repository's test-suite could not be built / run with --cfg rip_verif")
        summ = [ln for ln in p.stdout.splitlines() if "Summary [" in ln][-1].strip()
        summary = {"nextest": summ, "wall_s": round(time.time() - t0, 1), "tree": key}
        json.dump(summary, open(os.path.join(SUITE, "summary.json"), "w"))
        open(stamp, "w").write(key)
        log(f"[suite] {summ} ({summary['wall_s']}s)")
        return tr, summary
    finally:
        fcntl.flock(lock, fcntl.LOCK_UN)
        lock.close()


SHORT = {"continuity_created": "created", "continuity_branched": "branched", "continuity_handoff_created": "handoff",
         "continuity_message_appended": "msg", "continuity_run_spawned": "rs", "continuity_context_selection_decided": "sel",
         "continuity_context_compiled": "comp", "continuity_tool_side_effects": "fx", "continuity_provider_cursor_updated": "cur",
         "continuity_run_ended": "re", "continuity_job_spawned": "js", "continuity_job_ended": "je",
         "continuity_compaction_checkpoint_created": "ckpt", "session_started": "ss", "session_ended": "se",
         "tool_task_spawned": "tspawn", "tool_task_status": "tstatus", "tool_task_cancel_requested": "tcancelreq",
         "tool_task_cancelled": "tcancelled", "tool_task_output_delta": "tout"}


def frame_event(fr):
    sk = fr.get("stream_kind") or "session"
    t = fr.get("type", "")
    short = SHORT.get(t) or ("sf" if sk == "session" else "tother" if sk == "task" else "other")
    if sk == "continuity" and short in ("ss", "se"):
        short = "other"
    m = fr.get("id") if t == "continuity_message_appended" else fr.get("message_id")
    lg = ((fr.get("artifacts") or {}).get("log") or {}) if t == "tool_task_output_delta" and isinstance(fr.get("artifacts"), dict) else {}
    # a cursor frame written by an explicit rotate names no live run (C07-3 is about the ones that do)
    return {"ev": "f", "sk": sk, "s": str(fr.get("stream_id") or fr.get("session_id") or ""), "seq": int(fr.get("seq", -1)),
            "t": short, "r": str(fr.get("run_session_id") or ""), "m": str(m or ""), "j": str(fr.get("job_id") or ""),
            "st": str(fr.get("status") or "") if t == "tool_task_status" else "",
            "tid": str(fr.get("tool_id") or "") if t == "continuity_tool_side_effects" else "",
            "os": str(fr.get("stream") or "") if t == "tool_task_output_delta" else "",
            "off": int(lg["offset_bytes"]) if isinstance(lg.get("offset_bytes"), int) else -1, "nb": int(lg.get("bytes") or 0) if isinstance(lg.get("bytes"), int) else 0,
            "pt": str(fr.get("parent_thread_id") or fr.get("from_thread_id") or "") if short in ("branched", "handoff") else "",
            "ps": (int(fr.get("parent_seq") if fr.get("parent_seq") is not None else fr.get("from_seq") or 0) if short in ("branched", "handoff")
                   else int(fr.get("to_seq") or 0) if short == "ckpt" else 0),
            "pm": (str(fr.get("parent_message_id") or fr.get("from_message_id") or "") if short in ("branched", "handoff")
                   else str(fr.get("to_message_id") or "") if short == "ckpt" else "")}


def project(path):
    """one recorded process -> (test name, SystemTrace events, number of frames)"""
    name, evs, frames = os.path.basename(path), [], 0
    is_test, known = False, set()
    with open(path) as f:
        for line in f:
            try:
                d = json.loads(line)
            except ValueError:
                continue        # a process killed in the middle of a line
            e = d.get("ev")
            if e == "proc":
                a = d.get("args") or []
                exe = os.path.basename(a[0]).rsplit("-", 1)[0] if a else "?"
                is_test = "--exact" in a and a.index("--exact") + 1 < len(a)
                name = exe + "::" + (a[a.index("--exact") + 1] if is_test else " ".join(a[1:2]) + "#" + os.path.basename(path).split(".")[0])
            elif e == "log.frame" and isinstance(d.get("frame"), dict):
                fe = frame_event(d["frame"])
                if not is_test and (fe["sk"], fe["s"]) not in known and fe["seq"] > 0:
                    # a server process started on a store that an earlier process wrote
                    evs.append({"ev": "base", "sk": fe["sk"], "s": fe["s"], "n": fe["seq"]})
                known.add((fe["sk"], fe["s"]))
                evs.append(fe)
                frames += 1
            elif e == "cache.full.flushed" and d.get("stream") is not None and d.get("seq") is not None:
                evs.append({"ev": "c", "s": str(d["stream"]), "q": int(d["seq"])})
            elif e in ("tool.exec.begin", "tool.exec.end") and d.get("tool_id"):
                if d.get("tool") not in ("read", "ls", "grep", "artifact_fetch"):
                    evs.append({"ev": "xb" if e.endswith("begin") else "xe", "id": str(d["tool_id"])})
            elif e in ("task.proc.spawned", "task.proc.exited") and d.get("stream"):
                evs.append({"ev": "xb" if e.endswith("spawned") else "xe", "id": "task:" + str(d["stream"])})
            elif e == "snapshot.written" and d.get("stream") is not None:
                evs.append({"ev": "snap", "s": str(d["stream"]), "n": int(d.get("frames", -1))})
            elif e in ("emit.recorded", "emit.published") and d.get("stream") is not None:
                evs.append({"ev": "rec" if e == "emit.recorded" else "pub", "s": str(d["stream"]), "q": int(d.get("seq", -1))})
    return name, evs, frames


def validate(wd, strict_names=()):
    """-> (flags: list of (test, guard, event), stats).  TLC decides; python only maps line numbers back."""
    tr, summary = harvest()
    events, owner, tests, nframes = [], [], 0, 0
    for fn in sorted(os.listdir(tr)):
        name, evs, frames = project(os.path.join(tr, fn))
        if not evs:
            continue
        tests += 1
        nframes += frames
        events.append({"ev": "reset", "case": name})
        owner.append(name)
        for e in evs:
            events.append(e)
            owner.append(name)
    # non-vacuity: three corrupted copies of a recorded execution must be flagged
    muts = corrupted_copies(events, owner)
    expected = {}
    for mid, want, evs in muts:
        expected[mid] = want
        events.append({"ev": "reset", "case": mid})
        owner.append(mid)
        for e in evs:
            events.append(e)
            owner.append(mid)
    p = os.path.join(wd, "suite.ndjson")
    write_ndjson(p, events)
    r, rej = tlc.validate_trace("SystemTrace", "SystemTrace.cfg", p, timeout=1500, heap="6g")
    if rej or r.errors or r.violated or r.timed_out:
        log(r.out[-3000:])
        die_tool(f"SystemTrace failed: {rej or r.errors or r.violated}")
    bad = []
    for tag, val in r.prints:
        if tag == "BAD":
            bad = val
    flags, seen_mut = [], {}
    for line, guard in bad:
        who = owner[line - 1]
        if who.startswith("mut-"):
            seen_mut.setdefault(who, set()).add(guard)
            continue
        flags.append((who, guard, events[line - 1]))
    for mid, want in expected.items():
        if want not in seen_mut.get(mid, ()):
            die_tool(f"SystemTrace accepted the corrupted execution {mid} (expected {want}): the validation is vacuous")
    stats = {"suite": summary, "test_processes_with_events": tests, "frames": nframes, "events": len(events),
             "corrupted_copies_rejected": len(expected), "tlc": dict(r.summary())}
    return flags, stats, r


def corrupted_copies(events, owner):
    """take one recorded execution with a run and one with a task; break one thing in each copy."""
    out = []
    by = {}
    for e, o in zip(events, owner):
        by.setdefault(o, []).append(e)
    def pick(pred):
        for o, evs in by.items():
            if pred(evs) and len(evs) < 400:
                return [e for e in evs if e["ev"] != "reset"]
        return None
    a = pick(lambda evs: any(e.get("t") == "re" for e in evs) and any(e.get("t") == "rs" for e in evs))
    if a:
        i = next(i for i, e in enumerate(a) if e.get("t") == "re")
        out.append(("mut-two-run-ended", "RunEndedOnceAfterSpawn", a[:i + 1] + [dict(a[i], seq=a[i]["seq"] + 1)] + [dict(e, seq=e["seq"] + 1) if e["ev"] == "f" and e["s"] == a[i]["s"] and e["sk"] == a[i]["sk"] else e for e in a[i + 1:]]))
        j = next(i for i, e in enumerate(a) if e["ev"] == "f" and e["seq"] >= 1)
        out.append(("mut-seq-skipped", "SeqIsCountOfStreamFramesBefore", a[:j] + a[j + 1:]))
    b = pick(lambda evs: any(e.get("t") == "tstatus" and e.get("st") in ("exited", "cancelled", "failed") for e in evs) and any(e.get("t") == "tspawn" for e in evs))
    if b:
        i = next(i for i, e in enumerate(b) if e.get("t") == "tstatus" and e.get("st") in ("exited", "cancelled", "failed"))
        extra = dict(b[i], t="tout", st="", seq=b[i]["seq"] + 1)
        out.append(("mut-frame-after-terminal", "FrameAfterTerminal", b[:i + 1] + [extra] + [e for e in b[i + 1:] if not (e["ev"] == "f" and e["s"] == b[i]["s"])]))
    c = pick(lambda evs: any(e["ev"] == "c" for e in evs))
    if c:
        i = next(i for i, e in enumerate(c) if e["ev"] == "c")
        k = max(k for k, e in enumerate(c[:i]) if e["ev"] == "f" and e["s"] == c[i]["s"] and e["seq"] == c[i]["q"])
        out.append(("mut-cache-before-truth", "CacheNeverAheadOfTruth", c[:k] + [c[i]] + c[k:i] + c[i + 1:]))
    d = pick(lambda evs: any(e["ev"] == "pub" for e in evs))
    if d:
        i = next(i for i, e in enumerate(d) if e["ev"] == "pub")
        k = max(k for k, e in enumerate(d[:i]) if e["ev"] == "rec" and e["s"] == d[i]["s"] and e["q"] == d[i]["q"])
        out.append(("mut-published-before-recorded", "RecordedBeforePublished", d[:k] + [d[i]] + d[k:i] + d[i + 1:]))
    return out


def check(v, wd, props=None):
    """run the validation for Verdict v; only guards that speak for v.prop (or `props`) become violations."""
    props = props or (v.prop,)
    flags, stats, r = validate(wd)
    v.add_tlc(r, f"SystemTrace: {stats['test_processes_with_events']} recorded test processes of the repository's suite ({stats['frames']} frames, {stats['events']} events) against the monitor half of System.tla")
    v.cov["traces_validated_against_impl"] += stats["test_processes_with_events"]
    v.cov["suite_executions"] = stats
    excused = 0
    reported = set()
    for who, guard, ev in flags:
        if GUARD_PROP.get(guard) not in props:
            continue
        if any(h["test"] == who and guard in h["guards"] for h in HANDMADE):
            excused += 1
            continue
        if (who, guard) in reported:
            continue        # the first false step of a guard in an execution is the finding; later ones follow from it
        reported.add((who, guard))
        v.violation(f"execution of the repository's test {who}: {guard} is false at {ev}",
                    {"engine": "suite", "test": who, "guard": guard, "event": ev})
    v.cov["suite_executions"]["handmade_logs_excused"] = excused
    return stats


def replay(prop, path, case):
    """re-record the suite on the current tree and look for the same test / guard again."""
    from .common import workdir
    wd = workdir(prop + "-replay")
    flags, stats, _ = validate(wd)
    hit = [(w, g, e) for w, g, e in flags if w == case["test"] and g == case["guard"]]
    print(json.dumps({"test": case["test"], "guard": case["guard"], "flagged_again": len(hit), "first": hit[:1]}, indent=1))
    if hit:
        print(f"VIOLATION property={prop} replay={path}")
        return 1
    return 0


def histories_flags(wd, results, name="system"):
    """whole-system executions recorded by the harness's `fidelity` engine (the log in file order), every stream, against
    the monitor in its strict form -> (list of (history id, guard, event), TlcResult)"""
    sev, sowner = [], []
    for res in results:
        sev.append({"ev": "reset", "case": res["id"]})
        sowner.append(res["id"])
        for o in res["order"]:
            sev.append(frame_event({"stream_kind": o.get("kind") or "session", "type": o["type"], "stream_id": o["sid"], "seq": o["seq"],
                                    "run_session_id": o.get("r"), "message_id": o.get("m"), "id": o.get("m"), "job_id": o.get("j"), "status": o.get("st"),
                                    "to_seq": o.get("to_seq"), "to_message_id": o.get("to_message_id"), "parent_thread_id": o.get("parent_thread_id"),
                                    "parent_seq": o.get("parent_seq"), "parent_message_id": o.get("parent_message_id"), "tool_id": o.get("tool_id")}))
            sowner.append(res["id"])
    p = os.path.join(wd, name + ".ndjson")
    write_ndjson(p, sev)
    r, rej = tlc.validate_trace("SystemTrace", "SystemTrace_strict.cfg", p, timeout=900, heap="4g")
    if rej or r.errors or r.violated or r.timed_out:
        log(r.out[-3000:])
        die_tool(f"SystemTrace failed: {rej or r.errors or r.violated}")
    flags = []
    for tag, val in r.prints:
        if tag == "BAD":
            for line, guard in val:
                flags.append((sowner[line - 1], guard, sev[line - 1]))
    return flags, r


def design_check(v, deviations):
    """model-check the design half of System.tla (actors through the monitor; safety + liveness) and the named deviations,
    each of which TLC must refute (non-vacuity of the guards / invariants)."""
    r = tlc.run("MCSystem", "System_mc.cfg", workers=6, timeout=900, heap="6g")
    v.add_tlc(r, "System (design half: two runs, a compaction job and a task on one thread, one workspace permit, frames through the monitor): "
                 "MonitorAccepts, NoOverlap, HolderExecutes, FrameOrder, OwedBeforeRunEnd; liveness EveryoneFinishes, RunsEnd")
    if not r.ok:
        log(r.out[-2500:])
        die_tool("System.tla: the design violates its own properties (specification error)")
    for cfg, inv in deviations:
        d = tlc.run("MCSystem", cfg, workers=4, timeout=600)
        v.add_tlc(d, f"System with a named deviation ({cfg}): counterexample to {inv} expected")
        if inv not in d.violated:
            log(d.out[-1500:])
            die_tool(f"{cfg}: expected counterexample to {inv} not found (vacuous guard?)")
    v.cov["system_design"] = {"distinct_states": r.distinct, "depth": r.depth, "deviations_refuted": [c for c, _ in deviations]}


def design_check_deviations_only(v, deviations):
    for cfg, inv in deviations:
        d = tlc.run("MCSystem", cfg, workers=4, timeout=600)
        v.add_tlc(d, f"System with a named deviation ({cfg}): counterexample to {inv} expected")
        if inv not in d.violated:
            log(d.out[-1500:])
            die_tool(f"{cfg}: expected counterexample to {inv} not found (vacuous guard?)")
