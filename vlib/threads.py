"""Binding of spec/Threads.tla to the harness: concretisation of operation descriptors and
comparison of the model's predicted effect Eff(o) with what the real store did."""
import re

from . import tlc
from .common import log

KIND = {
    "created": "continuity_created", "msg": "continuity_message_appended",
    "spawned": "continuity_run_spawned", "ended": "continuity_run_ended",
    "sfx": "continuity_tool_side_effects", "cursor": "continuity_provider_cursor_updated",
    "ckpt": "continuity_compaction_checkpoint_created", "jobsp": "continuity_job_spawned",
    "jobend": "continuity_job_ended", "decision": "continuity_compaction_auto_schedule_decided",
    "branched": "continuity_branched", "handoff": "continuity_handoff_created",
}
UNKNOWN_IDS = [99, 98, 97, 96]     # fake uuid, "../events", "", "a/b"  (harness StoreEnv::thread_id)
READ_ONLY = {"cut_points", "status", "cursor_status", "selection_status", "replay", "compile"}
COMPACTION = {"checkpoint", "cut_points", "status", "auto", "schedule"}
LINEAGE = {"branch", "handoff"}


def generate(cfg, timeout=1200, workers=4):
    g = tlc.run("GenThreads", cfg, workers=workers, timeout=timeout, heap="8g")
    return g


def tnum(o, unknown=99):
    return o["t"] - 1 if o["t"] >= 1 else unknown


def concretise(o, unknown=99):
    """Model op descriptor -> harness op."""
    t = tnum(o, unknown)
    op, x, y, z = o["op"], o["x"], o["y"], o["z"]
    if op == "message":
        return {"op": "message", "t": t}
    if op == "run_ended":
        return {"op": op, "t": t, "m_seq": x, "s": y, "with_text": True}
    if op == "run_spawned":
        return {"op": op, "t": t, "m_seq": x, "s": y}
    if op == "compile":
        return {"op": op, "t": t, "m_seq": x, "s": 9}
    if op == "side_effects":
        return {"op": op, "t": t, "m_seq": x, "s": 1}
    if op == "cursor_update":
        return {"op": op, "t": t, "provider": f"p{x}", "endpoint": "http://e", "model": "m"}
    if op == "checkpoint":
        c = {"op": op, "t": t}
        if z == 1:
            c["no_summary"] = True
        if x == 0:
            c["to_msg_seq"] = y
        elif x == 1:
            c["to_seq"] = y
        elif x == 2:
            c["stride"] = y
        elif x == 4:
            c["to_msg_seq"] = 1
            c["to_seq"] = 1
        return c
    if op == "cut_points":
        return {"op": op, "t": t, "stride": x, "limit": y}
    if op == "status":
        return {"op": op, "t": t, "stride": x}
    if op == "auto":
        return {"op": op, "t": t, "stride": x, "max_new": y, "dry_run": z == 1}
    if op == "schedule":
        return {"op": op, "t": t, "stride": x, "max_new": y, "dry_run": z % 2 == 1,
                "execute": (z // 2) % 2 == 1, "block_on_inflight": (z // 4) % 2 == 1}
    if op in ("cursor_status", "selection_status", "replay"):
        return {"op": op, "t": t}
    if op == "cursor_rotate":
        c = {"op": op, "t": t}
        if x != -1:
            c["provider"] = f"p{x}"
        return c
    if op in LINEAGE:
        c = {"op": op, "t": t}
        if x == 1:
            c["from_seq"] = y
        elif x == 2:
            c["from_msg_seq"] = y
        elif x == 3:
            c["from_seq"] = 0
            c["from_msg_seq"] = 1
        elif x == 4:
            c["from_raw_id"] = "11111111-2222-4333-8444-555555555555"
        if op == "handoff":
            if z in (0, 3):
                c["summary"] = "handoff summary"
            if z == 5:
                c["summary"] = "  \n"
            if z in (1, 3):
                c["artifact"] = "a" * 64
            if z == 6:
                c["artifact"] = "  "
            if z == 4:
                c["artifact_of_latest_checkpoint"] = True
        return c
    raise ValueError(op)


_REF = re.compile(r"^(f|ck|job|dec):([A-Z]\d+)@(\d+)$")


def ref_seq(s):
    """'f:T0@5' -> 5 ; None -> -1"""
    if s is None:
        return -1
    m = _REF.match(s)
    return int(m.group(3)) if m else None


def frame_attrs(f):
    k = f.get("kind")
    if k == "continuity_compaction_checkpoint_created":
        return ("ckpt", f.get("to_seq"), ref_seq(f.get("to_message_id")))
    if k == "continuity_job_ended":
        created = None
        return ("jobend", ref_seq(f.get("job_id")), f.get("status"))
    if k == "continuity_compaction_auto_schedule_decided":
        return ("decision", f.get("decision"), ref_seq(f.get("job_id")))
    if k in ("continuity_run_spawned", "continuity_run_ended", "continuity_tool_side_effects"):
        return (k, ref_seq(f.get("message_id")) if f.get("message_id") else None)
    if k == "continuity_provider_cursor_updated":
        return ("cursor", f.get("provider"), f.get("action"))
    if k == "continuity_branched":
        return ("branched", f.get("parent_seq"), ref_seq(f.get("parent_message_id")))
    if k == "continuity_handoff_created":
        return ("handoff", f.get("from_seq"), ref_seq(f.get("from_message_id")))
    return (k,)


def expected_attrs(m, tlen):
    """Model frame -> the same tuple shape as frame_attrs."""
    k, a, b = m["k"], m["a"], m["b"]
    if k == "ckpt":
        return ("ckpt", a, a)
    if k == "jobend":
        return ("jobend", a, "completed")
    if k == "decision":
        return ("decision", "scheduled" if a == 0 else "skipped_inflight", b)
    if k in ("spawned", "ended", "sfx"):
        return (KIND[k], a if k != "sfx" else None)
    if k == "cursor":
        return ("cursor", f"p{a}", "set" if b == 1 else "rotated")
    if k in ("branched", "handoff"):
        return (k, a, b)
    return (KIND[k],)


def compare(o, e, real, tlen):
    """Returns a list of (category, detail).  Categories:
       log      - the log delta is not an append of whole frames (C02)
       quiet    - frames were appended although the model predicts none (C02)
       frames   - appended frames differ from the predicted ones (owner: C09/C10 by op)
       ok       - success/failure differs from the prediction
       resp     - the answer differs from the prediction in a compared field"""
    out = []
    lg = real["log"]
    if not (lg["prefix_ok"] and lg["nl"] and lg["lines_ok"]):
        out.append(("log", {k: lg[k] for k in ("prefix_ok", "nl", "lines_ok", "len_before", "len_after")}))
        return out
    newf = lg["new_frames"]
    pred_n = len(e["new"]) + len(e["child"])
    if pred_n == 0 and newf:
        out.append(("quiet", {"appended": [f.get("kind") for f in newf]}))
        return out
    if o["t"] == 0:
        return out          # unknown / malformed thread id: only "nothing is written" is required
    if bool(real["ok"]) != bool(e["ok"]):
        out.append(("ok", {"model_ok": e["ok"], "real_ok": real["ok"], "real": real["ret"] if not real["ok"] else "..."}))
        return out
    # frames: parent stream first then child stream
    exp = [expected_attrs(m, tlen) for m in e["new"]] + [expected_attrs(m, tlen) for m in e["child"]]
    got = [frame_attrs(f) for f in newf]
    # side-effects frames carry no message id; compare kinds only for them
    def loose(a):
        return tuple(x for x in a if x is not None)
    if [loose(a) for a in exp] != [loose(a)[:len(loose(b))] for a, b in zip(got, exp)] or len(exp) != len(got):
        out.append(("frames", {"expected": exp, "got": got}))
    if e["ok"] and not out:
        d = compare_resp(o, e["resp"], real["ret"], newf)
        if d:
            out.append(("resp", d))
    return out


def planned_pairs(lst):
    return [[p["target_message_ordinal"], p["to_seq"]] for p in lst]


def compare_resp(o, r, ret, newf):
    op = o["op"]
    if ret is None:
        return None
    if op == "cut_points":
        got = [[c["target_message_ordinal"], c["to_seq"], c["already_checkpointed"], ref_seq(c["latest_checkpoint_id"])]
               for c in ret["cut_points"]]
        exp = [[c["ord"], c["to_seq"], c["ck"], c["latest"]] for c in r["cps"]]
        ids_ok = all(ref_seq(c["to_message_id"]) == c["to_seq"] for c in ret["cut_points"])
        if got != exp or ret["message_count"] != r["count"] or not ids_ok:
            return {"expected": {"count": r["count"], "cps": exp}, "got": {"count": ret["message_count"], "cps": got, "ids_ok": ids_ok}}
    elif op == "status":
        lc = ret.get("latest_checkpoint")
        nx = ret.get("next_cut_point")
        got = {"count": ret["message_count"], "latest_ck": ref_seq(lc["checkpoint_id"]) if lc else -1,
               "next": [nx["target_message_ordinal"], nx["to_seq"]] if nx else [],
               "last_decision": (ret.get("last_schedule_decision") or {}).get("seq", -1),
               "last_job_end": (ret.get("last_job_outcome") or {}).get("seq", -1)}
        exp = {k: r[k] for k in got}
        if got != exp:
            return {"expected": exp, "got": got}
    elif op == "auto":
        got = {"status": ret["status"], "count": ret["message_count"], "planned": planned_pairs(ret["planned"]),
               "created": len(ret["result"])}
        exp = {k: r[k] for k in got}
        if got != exp:
            return {"expected": exp, "got": got}
        # created = planned (ascending), each summary artifact named
        if ret["result"] and sorted(c["to_seq"] for c in ret["result"]) != sorted(p[1] for p in got["planned"]):
            return {"expected": "created = planned", "got": ret["result"]}
    elif op == "schedule":
        got = {"decision": ret["decision"], "count": ret["message_count"], "planned": planned_pairs(ret["planned"]),
               "created": len(ret["result"])}
        exp = {k: r[k] for k in got}
        if got != exp:
            return {"expected": exp, "got": got}
    elif op == "checkpoint":
        if ret["to_seq"] != r["to_seq"] or ref_seq(ret["to_message_id"]) != r["to_seq"]:
            return {"expected": r, "got": ret}
    elif op == "cursor_status":
        act = ret.get("active")
        got = {"active": act["seq"] if act else -1, "cursors": sorted(c["seq"] for c in ret["cursors"])}
        exp = {"active": r["active"], "cursors": sorted(r["cursors"])}
        if got != exp:
            return {"expected": exp, "got": got}
    elif op == "cursor_rotate":
        if ret["rotated"] != r["rotated"] or (r["rotated"] and ret["provider"] != f"p{r['key']}"):
            return {"expected": r, "got": ret}
    elif op == "replay":
        if len(ret) != r["len"] or [f["seq"] for f in ret] != list(range(r["len"])):
            return {"expected": r, "got": [f["seq"] for f in ret]}
    elif op == "compile":
        got = project_compile(ret)
        exp = {"from_seq": r["from_seq"], "refs": r["refs"], "strategy": r["strategy"],
               "items": [x for m, rp in zip(r["msgs"], r["replies"]) for x in ([["m", m]] + ([["r", f"reply-{rp}"]] if rp else []))]}
        if got != exp:
            return {"expected": exp, "got": got}
    elif op in LINEAGE:
        got = {"cut": ret["seq"], "msg": ref_seq(ret["message_id"])}
        if got != {"cut": r["cut"], "msg": r["msg"]}:
            return {"expected": r, "got": got}
    return None


def clamp(x, lo, hi):
    return max(lo, min(hi, x))


def run_transitions(v, wd, cfg, op_filter, post_for=None, timeout=3000, shards=14, inplace=None):
    """Generate states with TLC, run the filtered transitions on the real store.
    Yields (case, gc, k, o, e, real) for every executed transition."""
    from .common import run_harness, die_tool
    g = generate(cfg, timeout=timeout)
    v.add_tlc(g, f"GenThreads ({cfg}): every distinct store state + Eff of every operation of the alphabet; "
                 "invariants CutPointsAreStrideMessages AutoIdempotent ReadOnlyQuiet LineageSound")
    if not g.ok:
        log(g.out[-3000:])
        die_tool("Threads.tla: invariant of the reference semantics violated or TLC error")
    cases = []
    for i, gc in enumerate(g.cases):
        path = [{"op": "ensure_default"}] + [concretise(o) for o in gc["path"]]
        trans, meta = [], []
        for tr in gc["trans"]:
            o, e = tr["o"], tr["e"]
            if o["t"] == 0 or not op_filter(o):
                continue
            mut = bool(e["new"] or e["child"])
            t = {"op": concretise(o), "mut": mut and not (inplace and inplace(o))}
            if mut and post_for:
                post = post_for(o, e, gc)
                if post:
                    t["post"] = post
            trans.append(t)
            meta.append((o, e))
        cases.append({"id": f"s{i}", "path": path, "trans": trans, "_meta": meta, "_gc": gc})
    hcases = [{k: c[k] for k in ("id", "path", "trans")} for c in cases]
    results = run_harness("trans", hcases, wd, "trans", shards=shards, timeout=timeout)
    by_id = {c["id"]: c for c in cases}
    out = []
    for res in results:
        c = by_id[res["id"]]
        for k, (r, (o, e)) in enumerate(zip(res["trans"], c["_meta"])):
            out.append((c, c["_gc"], k, o, e, r))
    return out


def project_compile(ret):
    """compile answer -> {from_seq, refs (to_seqs), strategy, items [[m, seq] | [r, text]]} from the bundle artifact"""
    b = ret.get("bundle") or {}
    items = []
    refs = []
    for it in b.get("items", []):
        if it.get("type") == "summary_ref":
            note = it.get("note") or ""
            m = re.search(r"to_seq=(\d+)", note)
            refs.append(int(m.group(1)) if m else None)
        elif it.get("thread_seq") is not None:
            items.append(["m", it["thread_seq"]])
        else:
            items.append(["r", it.get("content")])
    out = {"from_seq": ret.get("from_seq"), "refs": refs, "strategy": ret.get("compiler_strategy"), "items": items}
    # the logged decision must name the same checkpoints, and the bundle's own source the same cut
    dec = [c["to_seq"] for c in ret.get("compaction_checkpoints", [])]
    if dec != refs or (b.get("source") or {}).get("from_seq") != ret.get("from_seq") or (b.get("compiler") or {}).get("strategy") != ret.get("compiler_strategy"):
        out["inconsistent"] = {"decision": dec, "bundle_source": b.get("source"), "bundle_compiler": b.get("compiler")}
    return out
