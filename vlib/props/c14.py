"""C14 — rewind restores exactly the checkpointed files from any later state.

 Checkpoint.tla: abstract workspace + checkpoint store; explicit checkpoints (relative / absolute
 paths), tools that take an automatic checkpoint first (write, apply_patch add / delete / move),
 edits behind the tools' back (delete, mkdir), rewinds in any order, a rewind of an unknown id.
 TLC checks RewindExact, FailedRewindNoop and AutoCovers in every reachable state and prints, per
 distinct (workspace, store) state, one operation sequence with the predicted workspace after
 every step.  The harness executes each sequence on the real Workspace + ToolRunner (all cases)
 and through the real router with the real checkpoint hook (a sample), with the working directory
 equal to and different from the root (decoy files of the same names in the other directory),
 and compares the workspace after EVERY step; every file-editing tool call must be preceded by
 an automatic checkpoint whose file set covers what it changed."""
import json

from .. import tlc
from ..common import Verdict, workdir, run_harness, log, die_tool

PROP = "C14"



def failing_rewinds():
    """A rewind that fails half-way (FailedRewindNoop): the checkpoint covers two files, the first-listed one has been deleted
    since, and restoring the second one cannot succeed - its directory has become a plain file, or its stored copy is gone.
    The workspace must be exactly as it was before the rewind (the deleted file stays deleted)."""
    out = []
    fs0 = {"f": "v1", "g": "v1", "d/h": "v1"}

    def case(paths, deleted, sabotage, fs_after_sabotage):
        steps = []
        fs = dict(fs0)
        steps.append({"o": {"k": "create", "how": "rel", "paths": paths}, "ok": True, "fs": dict(fs), "ncp": 1})
        fs[deleted] = "absent"
        steps.append({"o": {"k": "raw_delete", "p": deleted}, "ok": True, "fs": dict(fs), "ncp": 1})
        fs.update(fs_after_sabotage)
        steps.append({"o": sabotage, "ok": True, "fs": dict(fs), "ncp": 1})
        steps.append({"o": {"k": "rewind", "i": 1}, "ok": False, "fs": dict(fs), "ncp": 1})
        return {"fs0": dict(fs0), "steps": steps}
    for paths, deleted, other in ((["f", "d/h"], "f", "d/h"), (["g", "d/h"], "g", "d/h"), (["f", "g"], "f", "g"), (["g", "f"], "g", "f"), (["d/h", "f"], "d/h", "f")):
        out.append(case(paths, deleted, {"k": "sabotage_store", "i": 1, "p": other}, {}))
        if other == "d/h":
            out.append(case(paths, deleted, {"k": "raw_dir_to_file", "p": "d"}, {"d/h": "absent"}))
    return out


def run(tier, seed):
    v = Verdict(PROP, tier, seed)
    wd = workdir(PROP)
    thorough = tier == "thorough"
    g = tlc.run("GenCheckpoint", "GenCheckpoint_t.cfg" if thorough else "GenCheckpoint_q.cfg", workers=6, timeout=3000, heap="12g")
    v.add_tlc(g, "GenCheckpoint: every distinct (workspace, store) state with one operation path; invariants RewindExact FailedRewindNoop AutoCovers")
    if not g.ok or not g.cases:
        log(g.out[-2000:])
        die_tool("Checkpoint.tla: invariant violated or TLC error")
    gd = tlc.run("GenCheckpoint", "GenCheckpoint_deep.cfg", workers=6, timeout=3000, heap="12g")
    v.add_tlc(gd, "GenCheckpoint (one path, sequences of 5 operations incl. repeated rewinds to one checkpoint around in-place edits)")
    if not gd.ok or not gd.cases:
        log(gd.out[-2000:])
        die_tool("Checkpoint.tla (deep): invariant violated or TLC error")
    # aliasing between the workspace and the store shows when one checkpoint is rewound to more than once
    deep = [c for c in gd.cases if len(c["steps"]) >= 4 and sum(1 for st in c["steps"] if st["o"]["k"] == "rewind" and st["ok"]) >= 2]
    total = 0
    strays_seen = set()
    for cwd in ("root", "elsewhere"):
        for mode in ("direct", "router"):
            sel = g.cases
            if mode == "router":
                step = max(1, len(sel) // (1500 if thorough else 250))
                sel = sel[(seed % step)::step]
            elif cwd == "elsewhere" and not thorough:
                sel = sel[::4]
            if mode == "direct" and cwd == "root":
                sel = sel + deep + failing_rewinds()
            if mode == "direct" and cwd == "elsewhere":
                sel = sel + failing_rewinds()
            cases = [{"id": f"{cwd}-{mode}-{i}", "fs0": c["fs0"], "steps": [{"o": s["o"]} for s in c["steps"]], "cwd": cwd, "mode": mode, "_steps": c["steps"]}
                     for i, c in enumerate(sel)]
            results = run_harness("ckpt", [{k: c[k] for k in c if not k.startswith("_")} for c in cases], wd, f"ck-{cwd}-{mode}", shards=14, timeout=3000)
            by_id = {c["id"]: c for c in cases}
            for res in results:
                c = by_id[res["id"]]
                total += 1
                has_rewind = any(s["o"]["k"] == "rewind" and s["ok"] for s in c["_steps"])
                v.add_eval({"fs0": c["fs0"], "ops": [s["o"] for s in c["_steps"]], "cwd": cwd, "mode": mode}, has_rewind)
                rep = {"engine": "ckpt", "case": {k: c[k] for k in c if not k.startswith("_")}, "predicted": c["_steps"]}
                for k, (pred, ob) in enumerate(zip(c["_steps"], res["obs"])):
                    o = pred["o"]
                    ob = dict(ob, fs={p: ob["fs"].get(p) for p in pred["fs"]})      # the model's paths (the deep family has one)
                    if ob["fs"] != pred["fs"]:
                        what = "rewind did not restore the checkpointed state" if o["k"] == "rewind" and pred["ok"] else \
                               ("failed rewind changed the workspace" if o["k"] == "rewind" else "workspace differs from the reference")
                        v.violation(f"{what} at step {k} ({o}) [cwd={cwd}, {mode}]: expected {pred['fs']}, got {ob['fs']}; ops {[s['o'] for s in c['_steps']]}",
                                    dict(rep, step=k, observed=ob))
                        break
                    if ob.get("outside_changed"):
                        v.violation(f"step {k} ({o}) [cwd={cwd}, {mode}] changed files outside the workspace root: {ob['outside_changed']}; ops {[s['o'] for s in c['_steps']]}",
                                    dict(rep, step=k, observed=ob))
                        break
                    if ob.get("by_changed"):
                        v.violation(f"step {k} ({o}) [cwd={cwd}, {mode}] changed or removed {ob['by_changed']}: files that no operation names and no checkpoint covers "
                                    f"(a rewind cannot bring them back); ops {[s['o'] for s in c['_steps']]}", dict(rep, step=k, observed=ob))
                        break
                    if ob.get("strays"):
                        strays_seen.update(ob["strays"])
                    if o["k"] in ("create", "rewind") and ob["ok"] != pred["ok"]:
                        v.violation(f"{o['k']} {'succeeded' if ob['ok'] else 'failed'} but the reference says ok={pred['ok']} at step {k} ({o}) [cwd={cwd}, {mode}]",
                                    dict(rep, step=k, observed=ob))
                        break
                    if o["k"] in ("write", "patch_add", "patch_upd", "patch_del", "patch_move"):
                        if pred["ok"] and not (ob["auto_before_tool"] and ob["auto"] is True):
                            v.violation(f"file-editing tool ran without a preceding automatic checkpoint at step {k} ({o}): frames {ob['kinds']}", dict(rep, step=k, observed=ob))
                            break
                        if pred["ok"]:
                            need = {o["p"]} | ({o["q"]} if o["k"] == "patch_move" else set())
                            if not need <= set(ob["auto_files"] or []):
                                v.violation(f"automatic checkpoint {ob['auto_files']} does not cover the files the tool changes {sorted(need)} ({o})", dict(rep, step=k, observed=ob))
                                break
                    if ob["ncp"] != pred["ncp"]:
                        v.drift({"case": c["id"], "step": k, "predicted_checkpoints": pred["ncp"], "observed": ob["ncp"]})
                if len(v.cov["samples"]) < 3 and has_rewind and len(c["_steps"]) >= 3 and mode == "router":
                    v.sample({"fs0": c["fs0"], "cwd": cwd, "mode": mode, "steps": [{"op": s["o"], "predicted_fs": s["fs"]} for s in c["_steps"]],
                              "observed_fs": [ob["fs"] for ob in res["obs"]]})
    v.cov["traces_validated_against_impl"] = total
    v.cov["entries_left_beside_the_model_paths"] = sorted(strays_seen)[:20]
    v.assumptions += ["three paths (one nested), contents v1..v3; the 'direct' mode uses a 20-line adapter in place of ripd's WorkspaceCheckpointHook, the 'router' sample uses the real one",
                      "several inputs are posted to one session (checkpoints are per session); see C01 finding D12 for the numbering of such sessions"]
    return v.finish(
        rule="cases = one operation sequence per distinct (workspace, checkpoint store) state of Checkpoint.tla x working directory x (direct | router sample); "
             "non-trivial = the sequence contains a successful rewind; distinct by (initial workspace, sequence, cwd, mode)",
        exhaustive=True)


def replay(path, seed):
    with open(path) as f:
        rep = json.load(f)
    case = rep["case"]
    wd = workdir(PROP + "-replay")
    res = run_harness("ckpt", [case["case"]], wd, "replay")[0]
    bad = False
    for pred, ob in zip(case["predicted"], res["obs"]):
        print(json.dumps({"op": pred["o"], "expected": pred["fs"], "got": ob["fs"], "ok": ob["ok"]}))
        if ob["fs"] != pred["fs"]:
            bad = True
    if bad:
        print(f"VIOLATION property={PROP} replay={path}")
        return 1
    return 0
