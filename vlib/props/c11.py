"""C11 — workspace mutations never overlap and are logged in the order they happened.

 ExecOrder.tla      what a user can observe (executions begin / end, side-effects frames, run ends);
                    its guarded actions are the property.
 WorkspaceLock.tla  the mechanism (one action per step the code takes with the lock); TLC checks its
                    invariants, that every actor finishes, and that it refines ExecOrder; with the
                    switches EarlyRelease / CancelSkipsLock TLC finds the counterexamples.
 Binding: TLC enumerates every state of the mechanism in which one actor is inside its critical
 section and nobody else has started (holder x program counter).  Each is forced on the real
 router: the holder is parked at the hook point of that program counter, then all other actors of
 the cast (direct tool commands, provider-loop tool calls, checkpoint command, shell tasks, a task
 cancelled while queued, read-only tools) are started and left to run until nothing moves.  The
 recorded hook trace of every case (and of seeded-delay runs of the whole cast) is validated by TLC
 against ExecOrderTrace (a false guard = violation) and against WorkspaceLockTrace (strict; a
 rejection = the code no longer follows the mechanism specification = conformance drift)."""
import json
import os

from .. import tlc
from ..common import Verdict, workdir, run_harness, write_ndjson, log, die_tool

PROP = "C11"
RO_TOOLS = {"read", "ls", "grep", "artifact_fetch"}

# concretisation of the cast of spec/MCWorkspaceLock.tla (CastProg); "ops" must match CastProg
CAST = {
    1: {"kind": "tool", "linked": True, "ops": "m", "input": json.dumps({"tool": "write", "args": {"path": "a1.txt", "content": "x"}}),
        "paths": {1: ["a1.txt"]}, "tool": "write"},
    2: {"kind": "tool", "linked": True, "ops": "m", "input": json.dumps({"tool": "bash", "args": {"command": "sleep 0.02"}}),
        "paths": {1: None}, "tool": "bash"},
    3: {"kind": "loop", "linked": True, "ops": "mrm", "input": "@@CALLS write:a3a.txt,ls:.,write:a3b.txt@@END please", "paths": {1: ["a3a.txt"], 2: ["a3b.txt"]},
        "tool": "write"},
    4: {"kind": "task", "linked": False, "ops": "p", "command": "sleep 0.03"},
    5: {"kind": "task", "linked": False, "ops": "p", "command": "sleep 0.03", "cancel": "queued"},
    6: {"kind": "ckpt", "linked": False, "ops": "c", "input": json.dumps({"checkpoint": {"action": "create", "label": "c6", "files": ["seed.txt"]}})},
    7: {"kind": "tool", "linked": True, "ops": "r", "input": json.dumps({"tool": "ls", "args": {"path": "."}})},
    8: {"kind": "tool", "linked": False, "ops": "m", "input": json.dumps({"tool": "write", "args": {"path": "a8.txt", "content": "y"}}), "tool": "write"},
    9: {"kind": "loop", "linked": True, "ops": "rr", "input": "@@CALLS read:seed.txt,grep:seed@@END look"},
}


def actor_json(a, alias=False):
    c = CAST[a]
    out = {"a": a, "kind": c["kind"], "linked": c["linked"]}
    for k in ("input", "command", "cancel"):
        if k in c:
            out[k] = c[k]
    if alias and a == 2:
        # the same shell command under the registry's other name for the tool (rip-tools registers `shell` as an alias of
        # `bash`, and the provider tool list offers it): which executions mutate is a fact about what runs, not about the name
        out["input"] = json.dumps({"tool": "shell", "args": {"command": "sleep 0.02"}})
    return out


def hold_of(gc):
    """program counter of the holder -> hook point(s) at which it is parked."""
    a, at, op = gc["holder"], gc["at"], gc["op"]
    nth = 1 if gc["ip"] == 1 else 2          # actor 3's second mutating call
    tool = CAST[a].get("tool")
    if at == "held":
        return [("held", {"point": "ws.acquired", "filter": {}, "nth": nth})]
    if at == "logged":
        return [("logged", {"point": "ws.releasing", "filter": {}, "nth": nth})]
    if op == "m":
        b, e = ("tool.exec.begin", {"tool": tool}), ("tool.exec.end", {"tool": tool})
    elif op == "c":
        b, e = ("ckpt.exec.begin", {}), ("ckpt.exec.end", {})
    else:
        b, e = ("task.proc.spawned", {}), ("task.proc.exited", {})
    if at == "exec":
        return [("exec", {"point": b[0], "filter": b[1], "nth": nth})]
    out = [("ran", {"point": e[0], "filter": e[1], "nth": nth})]
    if gc["owes"]:
        # still "ran": the tool runner returned, its frames are being emitted, the side-effects frame comes next
        # (parking inside an append would hold the log's writer mutex / the store's sequence mutex and stall every request)
        out.append(("ran_se", {"point": "emit.recorded", "filter": {"kind": "tool_ended"}, "nth": 1 if gc["ip"] == 1 else 3}))
    return out


def events_of(res):
    """hook trace -> events of the trace specifications (deterministic joins on logged ids only)."""
    sm = {k: int(v) for k, v in res["streams"].items()}
    frames = {f["id"]: f for f in res["thread_frames"]}
    nbeg = {}
    ordinal = {}       # (actor, tool_id) -> k
    openk = {}
    evs = []
    unknown = 0
    for e in res["trace"]:
        ev = e["ev"]
        if ev == "ws.acquired":
            evs.append({"ev": "Acquire", "i": e["i"]})
        elif ev == "ws.releasing":
            evs.append({"ev": "Release", "i": e["i"]})
        elif ev in ("tool.exec.begin", "ckpt.exec.begin", "task.proc.spawned"):
            a = sm.get(e.get("stream"))
            if a is None:
                unknown += 1
                continue
            if ev == "tool.exec.begin" and e.get("tool") in RO_TOOLS:
                evs.append({"ev": "RoBegin", "a": a, "i": e["i"]})
                continue
            k = nbeg.get(a, 0) + 1
            nbeg[a] = k
            if e.get("tool_id"):
                ordinal[(a, e["tool_id"])] = k
            owes = bool(CAST[a]["linked"] and ev == "tool.exec.begin")
            evs.append({"ev": "Begin", "a": a, "k": k, "owes": owes, "i": e["i"]})
        elif ev in ("tool.exec.end", "ckpt.exec.end", "task.proc.exited"):
            a = sm.get(e.get("stream"))
            if a is None:
                unknown += 1
                continue
            if ev == "tool.exec.end" and e.get("tool") in RO_TOOLS:
                evs.append({"ev": "RoEnd", "a": a, "i": e["i"]})
            else:
                evs.append({"ev": "End", "a": a, "i": e["i"]})
        elif ev == "log.flushed":
            a = sm.get(e.get("run"))
            if a is None:
                unknown += 1
                continue
            if e["kind"] == "continuity_tool_side_effects":
                f = frames.get(e["id"], {})
                k = ordinal.get((a, f.get("tool_id")), 0)
                want = CAST[a].get("paths", {}).get(k)
                got = f.get("affected_paths")
                evs.append({"ev": "Frame", "a": a, "k": k, "paths_ok": (want is None) or (got == want), "i": e["i"]})
            elif e["kind"] == "continuity_run_ended":
                evs.append({"ev": "RunEnd", "a": a, "i": e["i"]})
        elif ev == "harness" and e.get("what") == "cancel_sent":
            evs.append({"ev": "Cancel", "a": e["a"], "i": e["i"]})
    return evs, unknown


EO_EVENTS = {"reset", "Begin", "End", "Frame", "RunEnd"}


def validate(v, wd, runs, name):
    """runs = [(case id, events)] -> (bad list from ExecOrderTrace, drift list from WorkspaceLockTrace)."""
    all_ev = []
    for cid, evs in runs:
        all_ev.append({"ev": "reset", "case": cid})
        all_ev += [{k: x[k] for k in x if k != "i"} for x in evs]
    eo = [e for e in all_ev if e["ev"] in EO_EVENTS]
    p = os.path.join(wd, f"{name}.eo.ndjson")
    write_ndjson(p, eo)
    r, rej = tlc.validate_trace("ExecOrderTrace", "ExecOrderTrace.cfg", p, timeout=900, heap="4g")
    r.prints and None
    v.add_tlc(r, f"ExecOrderTrace: {len(runs)} implementation traces ({len(eo)} events) against the observable specification")
    if rej or r.errors or r.violated or r.timed_out:
        log(r.out[-3000:])
        die_tool(f"ExecOrderTrace did not consume the whole trace: {rej or r.errors or r.violated}")
    bad = []
    for tag, val in r.prints:
        if tag == "BAD":
            bad = val
    # ---- strict mechanism conformance, continuing past a rejected case
    drift = []
    remaining = list(runs)
    strict_states = 0
    for _ in range(6):
        evs = []
        index = []           # trace position -> case id
        for cid, ce in remaining:
            evs.append({"ev": "reset", "case": cid})
            index.append(cid)
            for x in ce:
                evs.append({k: x[k] for k in x if k != "i"})
                index.append(cid)
        p2 = os.path.join(wd, f"{name}.wl.ndjson")
        write_ndjson(p2, evs)
        r2, rej2 = tlc.validate_trace("WorkspaceLockTrace", "WorkspaceLockTrace.cfg", p2, timeout=900, heap="4g")
        strict_states += r2.distinct
        if r2.errors or r2.timed_out:
            log(r2.out[-3000:])
            die_tool(f"WorkspaceLockTrace failed: {r2.errors}")
        if r2.violated:
            # an invariant of the mechanism failed on an implementation trace
            drift.append({"case": "?", "note": f"mechanism invariant violated on an implementation trace: {r2.violated}"})
            break
        if not rej2:
            break
        at = rej2[0][1]["at"]
        cid = index[min(at, len(index)) - 1]
        drift.append({"case": cid, "note": f"strict mechanism specification rejects event {rej2[0][1].get('ev')}"})
        remaining = [(c, e) for c, e in remaining if c != cid]
    v.cov["states"] += strict_states
    v.cov["tlc_runs"].append({"cmd": "tlc WorkspaceLockTrace (strict mechanism conformance)", "distinct": strict_states, "cases": len(runs),
                              "what": "WorkspaceLockTrace: same traces against the mechanism specification; actor of lock events inferred by TLC"})
    return bad, drift


def run(tier, seed):
    v = Verdict(PROP, tier, seed)
    wd = workdir(PROP)
    thorough = tier == "thorough"
    # ---- the design
    for cfg, what, expect in [
        ("WorkspaceLock_fixed.cfg", "WorkspaceLock (5 actors incl. a 3-call loop, a cancellable task): Safe, HoldBlocks, refines ExecOrder", None),
        ("WorkspaceLock_live.cfg", "WorkspaceLock (3 actors) under fairness: every actor ends", None),
        ("WorkspaceLock_early.cfg", "guard dropped before the frame is logged: counterexample expected (non-vacuity)", "OrderAgreesWeak"),
        ("WorkspaceLock_early_ref.cfg", "same, refinement of ExecOrder fails (non-vacuity)", "ANY"),
        ("WorkspaceLock_cancel.cfg", "cancelled queued task skips the lock: counterexample expected (non-vacuity)", "NoOverlap"),
    ]:
        r = tlc.run("MCWorkspaceLock", cfg, workers=6, timeout=900)
        v.add_tlc(r, what)
        if expect is None and not r.ok:
            log(r.out[-3000:])
            die_tool(f"{cfg}: the mechanism specification violates its own properties")
        if expect is not None:
            hit = bool(r.violated) if expect == "ANY" else expect in r.violated
            v.cov[f"counterexample_{cfg[:-4]}"] = hit
            if not hit:
                die_tool(f"{cfg}: expected counterexample not found (vacuous property?)")
    r = tlc.run("ExecOrder", "ExecOrder_mc.cfg", workers=6, timeout=600)
    v.add_tlc(r, "ExecOrder (2 actors, 4 executions): the guarded actions keep Property")
    if not r.ok:
        die_tool("ExecOrder violates Property")
    g = tlc.run("MCWorkspaceLock", "GenWorkspaceLock.cfg", workers=1, timeout=300)
    v.add_tlc(g, "GenWorkspaceLock: every state with one actor inside its critical section (cast of 9)")
    if g.errors or not g.cases:
        log(g.out[-2000:])
        die_tool("GenWorkspaceLock failed")
    # ---- forced hold states
    cases = []
    seen = set()
    for gc in g.cases:
        key = (gc["holder"], gc["at"], gc["ip"])
        if key in seen:
            continue
        seen.add(key)
        for label, hold in hold_of(gc):
            cid = f"h{gc['holder']}.{gc['ip']}.{label}"
            alias = gc["holder"] != 2 and len(cases) % 2 == 1
            cases.append({"id": cid + (".alias" if alias else ""), "mode": "hold", "holder": gc["holder"], "hold": hold, "quiesce_ms": 300,
                          "actors": [actor_json(a, alias) for a in sorted(CAST)], "_model": gc, "_label": label})
    nj = 40 if thorough else 8
    for k in range(nj):
        s = seed * 1000 + k
        subset = sorted(CAST) if k % 2 == 0 else [a for a in sorted(CAST) if (s >> a) & 1 or a in (1, 3)]
        cases.append({"id": f"j{k}", "mode": "jitter", "seed": s + 1, "jitter_us": 2000 + 1500 * (k % 3),
                      "actors": [actor_json(a, k % 4 >= 2) for a in subset]})
    # ---- a bash tool call that hits its timeout: its execution is over when the tool returns, nothing may happen afterwards
    late_cmd = {"tool": "bash", "args": {"command": "sleep 0.7; echo late >> @@WS@@/late.txt"}, "timeout_ms": 150}
    cases.append({"id": "timeout", "mode": "jitter", "seed": 1, "jitter_us": 0, "linger_ms": 1200,
                  "actors": [{"a": 2, "kind": "tool", "linked": True, "input": json.dumps(late_cmd)}, actor_json(1)]})
    results = run_harness("wslock", [{k: c[k] for k in c if not k.startswith("_")} for c in cases], wd, "wsl",
                          shards=8, timeout=2400)
    by_id = {c["id"]: c for c in cases}
    runs = []
    unreal = 0
    for res in results:
        c = by_id[res["id"]]
        evs, unknown = events_of(res)
        if res["timed_out"]:
            v.violation(f"case {res['id']}: not every actor finished within the time limit (lock never released?)",
                        {"engine": "wslock", "case": {k: c[k] for k in c if not k.startswith("_")}}, key=None)
        if c["mode"] == "hold" and not res["held"]:
            unreal += 1
            v.drift({"case": res["id"], "note": "holder never reached the hold point"})
            continue
        if res["id"] == "timeout" and "late.txt" in res["ws_files"]:
            v.violation("a bash tool call that timed out kept running: it changed the workspace after its execution had ended and the workspace lock was released",
                        {"engine": "wslock", "case": {k: c[k] for k in c if not k.startswith("_")}, "guard": "ExecutionContinuedAfterEnd"})
        runs.append((res["id"], evs))
        nontrivial = len([e for e in evs if e["ev"] == "Begin"]) >= 2
        v.add_eval({"case": res["id"]}, nontrivial)
        if c["mode"] == "hold":
            # enabledness conformance in the hold window: read-only actors are free
            w0, w1 = res["window"]
            inwin = [e for e in evs if w0 <= e["i"] < w1]
            gc = c["_model"]
            stuck = [a for a in gc["free"] if not any(e["ev"] == "RoEnd" and e.get("a") == a for e in inwin)]
            if stuck:
                # "nothing moved for 300 ms" can also be a slow machine: confirm with a window five times as long before reporting
                again = dict({k: c[k] for k in c if not k.startswith("_")}, quiesce_ms=1500, id=res["id"] + ".confirm")
                r2 = run_harness("wslock", [again], wd, "confirm-" + res["id"], shards=1, timeout=600)[0]
                ev2, _ = events_of(r2)
                w20, w21 = r2["window"]
                in2 = [e for e in ev2 if w20 <= e["i"] < w21]
                stuck = [a for a in stuck if r2["held"] and not any(e["ev"] == "RoEnd" and e.get("a") == a for e in in2)]
            for a in stuck:
                if True:
                    v.violation(f"case {res['id']}: read-only actor {a} made no progress while actor {gc['holder']} was parked at "
                                f"{c['hold']['point']} (read-only tools must not wait for the workspace lock)",
                                {"engine": "wslock", "case": {k: c[k] for k in c if not k.startswith("_")}})
            moved = sorted({e["a"] for e in inwin if e["ev"] == "Begin" and e["a"] != gc["holder"]})
            if moved:
                v.cov.setdefault("blocked_actors_that_moved", []).append({"case": res["id"], "actors": moved})
        if len(v.cov["samples"]) < 2 and c["mode"] == "hold" and c["_label"] == "ran_se":
            v.sample({"case": res["id"], "hold": c["hold"], "events": [[e["ev"], e.get("a")] for e in evs][:60]})
    bad, drift = validate(v, wd, runs, "all")
    for b in bad:
        cid, pos, what = b[0], b[1], b[2]
        c = by_id.get(cid, {})
        v.violation(f"case {cid}: {what} at trace event {pos} ({'holder parked at ' + c['hold']['point'] if c.get('mode') == 'hold' else 'seeded delays'})",
                    {"engine": "wslock", "case": {k: c[k] for k in c if not k.startswith("_")}, "guard": what})
    for d in drift:
        v.drift(d)
    v.cov["unrealised_schedules"] = unreal
    v.cov["traces_validated_against_impl"] = len(runs)
    v.assumptions += ["PTY tasks are not exercised (no pty in this sandbox); pipes tasks only",
                      "an actor counts as blocked when no hook event was recorded for 300 ms",
                      "files changed by bash cannot be known to the authority: its frame is checked for order and presence, not for paths"]
    # the repository's own tests as drivers: every recorded execution against the monitor half of System.tla
    from .. import suite
    suite.check(v, wd)
    suite.design_check(v, [("System_dev_release.cfg", "FrameOrder"), ("System_dev_unlocked.cfg", "NoOverlap")])
    return v.finish(
        rule="cases = (holder, program counter) states of WorkspaceLock enumerated by TLC, each forced by parking the holder at the hook point "
             "while the 8 other actors of the cast run, plus seeded-delay runs; non-trivial = at least two mutating executions in the trace; "
             "distinct by case id",
        exhaustive=False)


def replay(path, seed):
    with open(path) as f:
        rep = json.load(f)
    if rep["case"].get("engine") == "suite":
        from .. import suite
        return suite.replay(PROP, path, rep["case"])
    wd = workdir(PROP + "-replay")
    case = rep["case"]["case"]
    res = run_harness("wslock", [case], wd, "replay")[0]
    evs, _ = events_of(res)
    v = Verdict(PROP, "replay", seed)
    bad, drift = validate(v, wd, [(res["id"], evs)], "replay")
    print(json.dumps({"bad": bad, "drift": drift, "events": [[e["ev"], e.get("a")] for e in evs]}))
    if bad:
        print(f"VIOLATION property={PROP} replay={path}")
        return 1
    return 0
