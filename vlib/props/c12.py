"""C12 — patch application is all-or-nothing and exact when it succeeds.

 Patch.tla is the reference semantics (abstract file system, add / delete / update(+move) with
 forward-cursor hunks, first-seen undo): Apply(fs, doc) = the operations in order + the named
 paths, or the untouched file system.  TLC checks AllOrNothing / StylePreserved on every
 (initial file system, document) pair of the alphabet and prints each with the predicted result;
 the harness materialises the tree (absent / LF / CRLF / no final newline / repeated lines / empty
 / non-UTF-8 / directory; a nested path), renders the document to patch text (incl. nine
 malformed-document classes), calls the real Workspace::apply_patch and the apply_patch tool and
 compares the complete recursive listing + bytes and the reported changed files."""
import json

from .. import tlc
from ..common import Verdict, workdir, run_harness, log, die_tool

PROP = "C12"
BIN = "fffe0080"


def content_hex(c):
    if c["t"] == "text":
        if not c["lines"]:
            return ""
        eol = "\r\n" if c["eol"] == "crlf" else "\n"
        s = eol.join(c["lines"]) + (eol if c["nl"] else "")
        return s.encode().hex()
    if c["t"] == "bin":
        return BIN
    return None


def expected_listing(fs):
    out = {}
    for p, c in fs.items():
        if c["t"] == "dir":
            out[p] = "<dir>"
        elif c["t"] != "absent":
            out[p] = content_hex(c)
    return out


def files_only(listing, keep_dirs=()):
    return {k: v for k, v in listing.items() if v != "<dir>" or k in keep_dirs}


def run(tier, seed):
    v = Verdict(PROP, tier, seed)
    wd = workdir(PROP)
    thorough = tier == "thorough"
    cases = []
    for cfg in (["GenPatch_1.cfg", "GenPatch_2.cfg"] if thorough else ["GenPatch_1.cfg", "GenPatch_2s.cfg"]):
        g = tlc.run("MCPatch", cfg, workers=6, timeout=3000, heap="12g")
        v.add_tlc(g, f"{cfg}: every (initial file system, document) pair with Apply; invariants AllOrNothing, StylePreserved")
        if not g.ok:
            log(g.out[-2000:])
            die_tool("Patch.tla: invariant violated or TLC error")
        for c in g.cases:
            cases.append({"id": f"p{len(cases)}", "fs0": c["fs0"], "doc": c["doc"], "tool": len(cases) % 4 == 0, "_res": c["res"]})
    # ---- beyond the two-operation alphabet (predictions follow directly from Patch.tla's rules):
    #  (a) three operations: a path is removed, re-created by a later operation, and a still later operation fails
    #      -> AllOrNothing: the original file is back, nothing else changed
    #  (b) a hunk that only carries context still moves the forward cursor (and must be found)
    def T(lines, nl=True):
        return {"lines": lines, "t": "text", "eol": "lf", "nl": nl}
    ABS = {"lines": [], "t": "absent", "eol": "lf", "nl": False}
    fail_hunk = {"p": "d/h", "k": "upd", "mv": "none", "hs": [{"b": ["c", "c"], "a": ["a"]}]}
    for fs0 in ({"f": T(["a", "b"]), "g": dict(ABS), "d/h": T(["a"])}, {"f": T(["a", "b"], nl=False), "g": T(["b"]), "d/h": T(["a", "b"])}):
        docs = [
            [{"p": "f", "k": "del"}, {"p": "f", "k": "add", "lines": ["c"]}, fail_hunk],
            [{"p": "f", "k": "del"}, {"p": "f", "k": "add", "lines": ["c"]}, {"p": "f", "k": "upd", "mv": "none", "hs": [{"b": ["c"], "a": ["b"]}]}, fail_hunk],
            [{"p": "f", "k": "del"}, {"p": "f", "k": "add", "lines": ["c"]}, {"p": "nope", "k": "del"}],
        ]
        if fs0["g"]["t"] == "absent":
            docs.append([{"p": "f", "k": "upd", "mv": "g", "hs": [{"b": ["a"], "a": ["c"]}]}, {"p": "f", "k": "add", "lines": ["b"]}, fail_hunk])
        else:
            docs.append([{"p": "f", "k": "del"}, {"p": "g", "k": "upd", "mv": "f", "hs": [{"b": ["b"], "a": ["c"]}]}, fail_hunk])
        for doc in docs:
            cases.append({"id": f"p{len(cases)}", "fs0": fs0, "doc": doc, "tool": len(cases) % 2 == 0, "_res": {"ok": False, "fs": fs0, "changed": []}})
    #  (c) a failing document that first changed existing files and then created a path that is gone again when the failure
    #      comes (added then deleted, added then moved away, twice over): undoing "created" for a path that no longer exists must
    #      not stop the roll-back of what was changed before it
    nope = {"p": "nope", "k": "del"}
    updf = {"p": "f", "k": "upd", "mv": "none", "hs": [{"b": ["a"], "a": ["c"]}]}
    addg = {"p": "g", "k": "add", "lines": ["a"]}
    delg = {"p": "g", "k": "del"}
    fsA = {"f": T(["a", "b"]), "g": dict(ABS), "d/h": T(["a"])}
    fsB = {"f": T(["a", "b"]), "g": dict(ABS), "d/h": dict(ABS)}
    gone = [
        (fsA, [updf, addg, delg, fail_hunk]), (fsA, [updf, addg, delg, nope]), (fsA, [{"p": "f", "k": "del"}, addg, delg, fail_hunk]),
        (fsA, [{"p": "d/h", "k": "upd", "mv": "none", "hs": [{"b": ["a"], "a": ["c"]}]}, updf, addg, delg, addg, delg, nope]),
        (fsB, [updf, addg, {"p": "g", "k": "upd", "mv": "d/h", "hs": [{"b": ["a"], "a": ["c"]}]}, nope]),
        (fsB, [{"p": "f", "k": "del"}, addg, {"p": "g", "k": "upd", "mv": "d/h", "hs": [{"b": ["a"], "a": ["c"]}]}, {"p": "d/h", "k": "del"}, nope]),
        (fsB, [updf, {"p": "d/h", "k": "add", "lines": ["a"]}, {"p": "d/h", "k": "del"}, addg, nope]),
    ]
    for fs0, doc in gone:
        for tool in (False, True):
            cases.append({"id": f"p{len(cases)}", "fs0": fs0, "doc": doc, "tool": tool, "_res": {"ok": False, "fs": fs0, "changed": []}})
    ctx = [
        # anchor 'b' (context only), then 'a' -> 'c' must hit the 'a' AFTER the anchor
        ({"f": T(["a", "b", "a"]), "g": dict(ABS), "d/h": dict(ABS)}, [{"p": "f", "k": "upd", "mv": "none", "hs": [{"b": ["b"], "a": ["b"]}, {"b": ["a"], "a": ["c"]}]}],
         {"ok": True, "fs": {"f": T(["a", "b", "c"]), "g": dict(ABS), "d/h": dict(ABS)}, "changed": ["f"]}),
        # a context-only hunk whose context is not in the file: the patch fails
        ({"f": T(["a", "b"]), "g": dict(ABS), "d/h": dict(ABS)}, [{"p": "f", "k": "upd", "mv": "none", "hs": [{"b": ["c"], "a": ["c"]}]}],
         {"ok": False, "fs": {"f": T(["a", "b"]), "g": dict(ABS), "d/h": dict(ABS)}, "changed": []}),
        ({"f": T(["a", "b"]), "g": dict(ABS), "d/h": dict(ABS)}, [{"p": "f", "k": "upd", "mv": "none", "hs": [{"b": ["c"], "a": ["c"]}, {"b": ["a"], "a": ["c"]}]}],
         {"ok": False, "fs": {"f": T(["a", "b"]), "g": dict(ABS), "d/h": dict(ABS)}, "changed": []}),
    ]
    for fs0, doc, res_ in ctx:
        cases.append({"id": f"p{len(cases)}", "fs0": fs0, "doc": doc, "tool": False, "_res": res_})
        cases.append({"id": f"p{len(cases)}", "fs0": fs0, "doc": doc, "tool": True, "_res": res_})
    results = run_harness("patch", [{k: c[k] for k in c if not k.startswith("_")} for c in cases], wd, "patch", shards=14, timeout=3000)
    by_id = {c["id"]: c for c in cases}
    for res in results:
        c = by_id[res["id"]]
        exp = c["_res"]
        dirs = [p for p, cc in c["fs0"].items() if cc["t"] == "dir"]
        nontrivial = any(o["k"] == "upd" for o in c["doc"]) or len(c["doc"]) > 1
        v.add_eval({"fs0": c["fs0"], "doc": c["doc"]}, nontrivial)
        rep = {"engine": "patch", "case": {k: c[k] for k in c if not k.startswith("_")}, "predicted": exp, "patch_text": res["patch_text"]}
        if res["err"] == "PANIC":
            v.violation(f"apply_patch panicked on {res['patch_text']!r}", rep)
            continue
        want = expected_listing(exp["fs"])
        got = files_only(res["after"], dirs)
        if res["ok"] != exp["ok"]:
            v.violation(f"apply_patch {'succeeded' if res['ok'] else 'failed (' + str(res['err']) + ')'} but the reference says ok={exp['ok']}; doc {c['doc']}", dict(rep, got=got))
            continue
        if not res["ok"]:
            before = files_only(res["before"], dirs)
            if got != before:
                v.violation(f"failed patch changed the workspace: before {before}, after {got}; doc {c['doc']}", dict(rep, before=before, after=got))
        else:
            if got != want:
                v.violation(f"workspace after a successful patch differs from the reference: want {want}, got {got}; doc {c['doc']}", dict(rep, want=want, got=got))
            if sorted(res["changed"]) != sorted(exp["changed"]):
                v.violation(f"reported changed files {res['changed']} differ from the files named {exp['changed']}", dict(rep, got=res["changed"]))
        t = res.get("tool")
        if t:
            tgot = files_only(t["after"], dirs)
            if (t["exit_code"] == 0) != res["ok"] or tgot != got or (res["ok"] and sorted(t["changed"] or []) != sorted(res["changed"])):
                v.violation(f"the apply_patch tool disagrees with Workspace::apply_patch: exit {t['exit_code']}, tree {tgot} vs {got}", dict(rep, tool=t))
        if len(v.cov["samples"]) < 3 and nontrivial and exp["ok"] and len(c["doc"]) == 2:
            v.sample({"fs0": {p: cc for p, cc in c["fs0"].items() if cc["t"] != "absent"}, "patch_text": res["patch_text"],
                      "predicted": {"ok": exp["ok"], "changed": exp["changed"], "files": want}, "observed_files": got})
    v.cov["traces_validated_against_impl"] = len(results)
    v.assumptions += ["three paths (one nested), a three-line alphabet, files of <= 3 lines; directories left behind by a rolled-back add are allowed",
                      "mixed line endings inside one file are outside the alphabet"]
    return v.finish(
        rule="cases = (initial file system, patch document) pairs: all 1-operation documents and all 2-operation documents over the operation alphabet "
             "(reduced alphabet for 2 operations in the quick tier) x 32 initial file systems; non-trivial = contains an update or more than one operation; "
             "distinct by (file system, document)",
        exhaustive=True)


def replay(path, seed):
    with open(path) as f:
        rep = json.load(f)
    case = rep["case"]
    wd = workdir(PROP + "-replay")
    res = run_harness("patch", [case["case"]], wd, "replay")[0]
    exp = case["predicted"]
    dirs = [p for p, cc in case["case"]["fs0"].items() if cc["t"] == "dir"]
    got = files_only(res["after"], dirs)
    want = expected_listing(exp["fs"]) if exp["ok"] else files_only(res["before"], dirs)
    print(json.dumps({"patch": res["patch_text"], "ok": res["ok"], "err": res["err"], "after": got, "want": want}, indent=1))
    if res["ok"] != exp["ok"] or got != want:
        print(f"VIOLATION property={PROP} replay={path}")
        return 1
    return 0
