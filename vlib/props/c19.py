"""C19 — secrets never reach frames, artifacts, caches, logs or diagnostics.

 SecretFlow.tla: the space of ways to supply a provider key / secret header (three config layers,
 inline or {env: NAME}, set / unset / empty references, environment fall-backs, how the provider is
 selected) with the code's resolution, an independent statement of the precedence rules, what
 /config/doctor must report and the only place a secret may flow to (the provider).  TLC checks the
 resolution against the rules on all 24 000 configurations and prints each.
 Binding: configurations (stratified sample; every run outcome and dump setting) are materialised -
 config files with canary values, environment variables - and one message is run through the real
 router against the scripted provider.  Every file under the data directory, the workspace, the home
 and config directories (except the config files themselves), the doctor answer, the replayed event
 stream and the process's stderr are searched for every canary in raw / base64 / hex /
 percent-encoded / inner-part form; the doctor answer must equal the model's report and the
 provider must have received exactly the predicted key and headers (so the search is not vacuous)."""
import json
import random

from .. import tlc
from ..common import Verdict, workdir, run_harness, log, die_tool

PROP = "C19"
LAYER = {1: "global", 2: "custom", 3: "project"}
# header names: one that says what it is, two whose names give nothing away (a secret header is secret because the
# configuration put it there, not because of its name)
HDRNAME = {1: "x-secret-1", 2: "x-gateway-signature", 3: "x-upstream-passphrase"}
OUTCOMES = ["ok", "http_echo", "transport", "invalid_sse", "tool_fail", "http_500_text"]


def canary(tag):
    import hashlib
    return "sk-cnry-" + tag + "-" + hashlib.sha256(("verif" + tag).encode()).hexdigest()[:28]


def sse(obj):
    return "data: " + json.dumps(obj) + "\n\n"


def script_for(outcome):
    if outcome == "ok":
        return [{"status": 200, "chunks": [sse({"type": "response.created", "response": {"id": "resp_1"}}) + sse({"type": "response.output_text.delta", "delta": "hi"}) + "data: [DONE]\n\n"]}]
    if outcome == "http_echo":
        return [{"status": 401, "content_type": "application/json", "echo_request": True}]
    if outcome == "http_500_text":
        return [{"status": 500, "content_type": "text/plain", "chunks": ["upstream exploded"]}]
    if outcome == "invalid_sse":
        return [{"status": 200, "chunks": ["data: {not json}\n\n" + sse({"type": "response.bogus", "x": 1}) + sse({"type": "response.output_text.delta"}) + "data: [DONE]\n\n"]}]
    if outcome == "tool_fail":
        item = {"type": "function_call", "id": "item_1", "call_id": "call_1", "name": "read", "arguments": json.dumps({"path": "no/such/file.txt"}), "status": "completed"}
        return [{"status": 200, "chunks": [sse({"type": "response.created", "response": {"id": "resp_1"}}) + sse({"type": "response.output_item.done", "output_index": 0, "item": item}) + "data: [DONE]\n\n"]},
                {"status": 200, "chunks": [sse({"type": "response.output_text.delta", "delta": "done"}) + "data: [DONE]\n\n"]}]
    return []


def concretise(m, idx, outcome, dump):
    """one configuration of SecretFlow -> files, environment, request, canaries."""
    secrets = {}
    env = {}
    ep = "@@DEAD@@" if outcome == "transport" else "@@ENDPOINT@@"
    if m["openai"]:
        ep += "?via=openai.com"
        secrets["openai_env"] = canary(f"OAI{idx}")
        env["OPENAI_API_KEY"] = secrets["openai_env"] + ("\n" if idx % 3 == 2 else "")
    layers = {}
    for i in (1, 2, 3):
        prov = {"endpoint": ep}
        kind = m["key"][i - 1]
        if kind == "inline":
            secrets[f"key_{LAYER[i]}"] = canary(f"K{i}x{idx}")
            prov["api_key"] = secrets[f"key_{LAYER[i]}"]
        elif kind in ("env_set", "env_unset", "env_empty"):
            prov["api_key"] = {"env": f"CANARY_ENV_{i}"}
            if kind == "env_set":
                secrets[f"envref_{LAYER[i]}"] = canary(f"E{i}x{idx}")
                env[f"CANARY_ENV_{i}"] = secrets[f"envref_{LAYER[i]}"] + ("\n" if idx % 5 == 3 else "")
            elif kind == "env_empty":
                env[f"CANARY_ENV_{i}"] = ""
        if m["hdr"][i - 1]:
            secrets[f"hdr_{LAYER[i]}"] = canary(f"H{i}x{idx}")
            prov["headers"] = {HDRNAME[i]: secrets[f"hdr_{LAYER[i]}"]}
        cfg = {"provider": {"prov": prov}}
        if m["select"] == "route" and i == 1:
            cfg["roles"] = {"primary": "prov/model-x"}
        text = json.dumps(cfg, indent=1)
        if m["bad"][0] == i:
            secrets[f"malformed_{LAYER[i]}"] = canary(f"M{i}x{idx}")
            mc = secrets[f"malformed_{LAYER[i]}"]
            if m["bad"][1] == "badjson":
                text = '{"provider": {"prov": {"api_key": "%s" "endpoint": "%s"}}}' % (mc, ep)
            elif m["bad"][1] == "misplaced":
                bad_cfg = dict(cfg, provider={"api_key": mc, "endpoint": ep})
                text = json.dumps(bad_cfg, indent=1)
            else:
                bad_cfg = dict(cfg, provider={"prov": dict(prov, headers="Bearer " + mc)})
                text = json.dumps(bad_cfg, indent=1)
        if i == 2:
            text = "// custom layer\n" + text       # jsonc
        layers[LAYER[i]] = text
    case = {"id": f"c{idx}", "layers": layers, "script": script_for(outcome), "input": "hello there"}
    if m["select"] == "env_endpoint":
        env["RIP_OPENRESPONSES_ENDPOINT"] = ep
    elif m["select"] == "override":
        case["override_endpoint"] = ep
    elif m["select"] == "nomatch":
        env["RIP_OPENRESPONSES_ENDPOINT"] = ep + ("&" if "?" in ep else "?") + "nomatch=1"
    if m["envkey"] == "set":
        secrets["rip_env"] = canary(f"R{idx}")
        # every third configuration: the value as `$(cat keyfile)` / a CRLF .env file would give it
        pad = [("", ""), (" ", "\n"), ("", "\r\n"), ("\t", " ")][idx % 4 if idx % 3 == 1 else 0]
        env["RIP_OPENRESPONSES_API_KEY"] = pad[0] + secrets["rip_env"] + pad[1]
    elif m["envkey"] == "empty":
        env["RIP_OPENRESPONSES_API_KEY"] = "  "
    if dump:
        env["RIP_OPENRESPONSES_DUMP_REQUEST"] = "1"
    case["env"] = env
    case["secrets"] = secrets
    # ---- predictions
    eff = m["eff"]
    if eff[0] == "layer":
        i, kind = eff[1], eff[2]
        want_key = secrets[f"key_{LAYER[i]}"] if kind == "inline" else secrets[f"envref_{LAYER[i]}"]
        want_source = "inline" if kind == "inline" else f"env:CANARY_ENV_{i}"
    elif eff[0] == "env":
        want_key = secrets["rip_env"] if eff[1] == "RIP_OPENRESPONSES_API_KEY" else secrets["openai_env"]
        want_source = "env:" + eff[1]
    else:
        want_key, want_source = None, None
    case["_want"] = {"key": want_key, "source": want_source, "has": bool(m["has"]),
                     "headers": sorted(HDRNAME[i] for i in m["headers"]),
                     "header_values": {HDRNAME[i]: secrets[f"hdr_{LAYER[i]}"] for i in m["headers"]}}
    case["_m"] = m
    case["_outcome"] = outcome
    case["_dump"] = dump
    return case


def run(tier, seed):
    v = Verdict(PROP, tier, seed)
    wd = workdir(PROP)
    thorough = tier == "thorough"
    r = tlc.run("SecretFlow", "SecretFlow.cfg", workers=4, timeout=600)
    v.add_tlc(r, "SecretFlow: the code's resolution equals the documented precedence on all 24 000 configurations; a secret flows to the provider only")
    if not r.ok:
        log(r.out[-2000:])
        die_tool("SecretFlow: resolution and rules disagree (specification error)")
    g = tlc.run("GenSecretFlow", "GenSecretFlow.cfg", workers=1, timeout=600, heap="6g")
    v.add_tlc(g, "GenSecretFlow: every configuration with the predicted doctor report and effective key")
    if g.errors or len(g.cases) < 1000:
        die_tool("GenSecretFlow failed")
    rnd = random.Random(seed)
    groups = {}
    for m in g.cases:
        groups.setdefault((m["select"], m["source"], m["envkey"], m["openai"], len(m["headers"]), m["bad"][1], m["bad"][0] if m["bad"][1] != "none" else 0), []).append(m)
    keys = sorted(groups, key=str)
    for k in keys:
        rnd.shuffle(groups[k])
    n = 3000 if thorough else 420
    sel = []
    i = 0
    while len(sel) < n and any(groups[k] for k in keys):
        k = keys[i % len(keys)]
        if groups[k]:
            sel.append(groups[k].pop())
        i += 1
    cases = []
    for idx, m in enumerate(sel):
        outcome = OUTCOMES[idx % len(OUTCOMES)]
        dump = (idx // len(OUTCOMES)) % 2 == 0
        cases.append(concretise(m, idx, outcome, dump))
    results = run_harness("secrets", [{k: c[k] for k in c if not k.startswith("_")} for c in cases], wd, "sec", shards=14, timeout=3000)
    by_id = {c["id"]: c for c in cases}
    sent_key = 0
    for res in results:
        c = by_id[res["id"]]
        pub = {k: c[k] for k in c if not k.startswith("_")}
        w = c["_want"]
        m = c["_m"]
        v.add_eval({"m": {k: m[k] for k in ("key", "hdr", "select", "envkey", "openai")}, "outcome": c["_outcome"], "dump": c["_dump"]}, len(c["secrets"]) >= 1)
        for h in res["hits"]:
            v.violation(f"case {c['id']} ({c['_outcome']}, dump {'on' if c['_dump'] else 'off'}, select {m['select']}): secret {h['secret']} found in {h['sink']} "
                        f"({h['form']} form) near: {h['context'][:160]!r}", {"engine": "secrets", "case": pub, "sink": h["sink"], "secret": h["secret"]})
        d = (res["doctor"] or {}).get("openresponses") or {}
        if res["doctor"] is None:
            v.violation(f"case {c['id']}: /config/doctor gave no JSON", {"engine": "secrets", "case": pub, "sink": "doctor"})
        else:
            got = {"has": bool(d.get("has_api_key")), "source": d.get("api_key_source"), "headers": sorted(d.get("headers") or [])}
            dr = m["doctor"]
            want = {"has": bool(dr["has_api_key"]), "source": (None if dr["api_key_source"] == "none" else w["source"]),
                    "headers": sorted(HDRNAME[i] for i in dr["headers"])}
            if got != want:
                v.violation(f"case {c['id']} (select {m['select']}, keys {m['key']}, env {m['envkey']}, openai {m['openai']}): doctor reports {got}, the configuration gives {want}",
                            {"engine": "secrets", "case": pub, "sink": "doctor_report"})
            extra = set(d.keys()) - {"provider_id", "route", "endpoint", "model", "has_api_key", "api_key_source", "headers", "stateless_history", "parallel_tool_calls", "followup_user_message"}
            if extra:
                v.violation(f"case {c['id']}: doctor reports unexpected fields {sorted(extra)}", {"engine": "secrets", "case": pub, "sink": "doctor_fields"})
        # ---- the predicted key and headers really went to the provider (the search is not vacuous)
        if c["_outcome"] != "transport" and m["endpoint_known"]:
            if not res["requests"]:
                v.drift({"case": c["id"], "note": "the provider received no request"})
            else:
                rq = res["requests"][0]
                auth = rq.get("authorization")
                want_auth = ("Bearer " + w["key"]) if w["key"] else None
                if auth != want_auth:
                    v.drift({"case": c["id"], "note": f"provider received a different key than the model's EffectiveKey (select {m['select']}, keys {m['key']}, env {m['envkey']})"})
                else:
                    sent_key += 1 if w["key"] else 0
                for hn, hv in w["header_values"].items():
                    if rq.get(hn) != hv:
                        v.drift({"case": c["id"], "note": f"provider did not receive header {hn} as configured"})
        if c["_dump"] and c["_outcome"] != "transport" and res["dump_frames"] == 0 and res["requests"]:
            v.drift({"case": c["id"], "note": "request dumping was on but no openresponses_request frame was written"})
        if len(v.cov["samples"]) < 2 and w["key"] and c["_outcome"] == "http_echo":
            v.sample({"case": c["id"], "model": {k: m[k] for k in ("key", "hdr", "select", "envkey", "openai", "source")}, "outcome": c["_outcome"], "dump": c["_dump"],
                      "files_searched": res["files_searched"], "bytes_searched": res["bytes_searched"], "frame_kinds": res["frame_kinds"][:12], "hits": len(res["hits"])})
    v.cov["configurations_in_model"] = len(g.cases)
    v.cov["runs_in_which_the_key_reached_the_provider"] = sent_key
    v.cov["bytes_searched"] = sum(r["bytes_searched"] for r in results)
    v.cov["traces_validated_against_impl"] = len(results)
    v.assumptions += ["a tool command that prints its own environment is outside the property",
                      "the provider echoes the request body, not the request headers",
                      "OPENROUTER_API_KEY follows the same code path as OPENAI_API_KEY and is not varied separately",
                      "searched forms: raw, base64, hex, percent-encoded, and the value without its first and last four characters"]
    return v.finish(
        rule="cases = configurations of SecretFlow stratified by (selection mode, reported source, env key, openai fall-back, number of secret headers), each with one of six "
             "run outcomes and dumping on/off; non-trivial = at least one canary in the configuration; distinct by (configuration, outcome, dump)",
        exhaustive=False)


def replay(path, seed):
    with open(path) as f:
        rep = json.load(f)
    wd = workdir(PROP + "-replay")
    case = rep["case"]["case"]
    res = run_harness("secrets", [case], wd, "replay")[0]
    print(json.dumps({"hits": res["hits"], "doctor": res["doctor"]}))
    sink = rep["case"].get("sink", "")
    if sink.startswith("doctor_"):
        print("doctor report: re-run ./check C19 for the comparison with the model")
        return 1 if res["doctor"] else 0
    if any(h["sink"] == sink for h in res["hits"]):
        print(f"VIOLATION property={PROP} replay={path}")
        return 1
    return 0
