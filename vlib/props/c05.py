"""C05 — a crash at any write boundary leaves a store that restarts gap-free.

 1. TLC explores StoreSeq with Crash enabled between any two steps (GenCrash): for every crash
    class (the writer's pc when the process died) it prints whether the store stays gap-free and
    every acknowledged append is present exactly once after a restart and one more append - with
    the deviations as implemented and repaired.  The classes on which the two differ are the
    signature of finding D1 (next seq recovered from a sidecar that is behind the truth log).
 2. The crash snapshotter copies data/ and <ws>/.rip at EVERY file-system hook point of an
    operation (log, each sidecar/index, thread index, between body and newline of large frames);
    every copy is reopened by a fresh engine ("restart at crash point k") and must: replay
    (validated), keep all acknowledged appends exactly once, continue the numbering correctly on
    further appends, and answer every read capability as with caches removed (C04 on the
    recovered store).  Each real crash point is mapped to its model class and the observed verdict
    is compared with TLC's prediction."""
import json

from .. import tlc
from ..common import Verdict, workdir, run_harness, log, die_tool

PROP = "C05"

CLASS_OF_POINT = {
    "log.enter": "pre", "log.body": "pre",
    "log.flushed": "flushed", "cache.enter": "flushed", "cache.full.body": "flushed",
    "after.return": "idle",
}


def point_class(point, fields, new_thread_names):
    base = CLASS_OF_POINT.get(point)
    if base is None:
        base = "cached" if point.startswith(("cache.", "index.")) else "other"
    return base


def gapfree(frames):
    cnt = {}
    for f in frames:
        if f[1] != cnt.get(f[0], 0):
            return False, f
        cnt[f[0]] = f[1] + 1
    return True, None


def run(tier, seed):
    v = Verdict(PROP, tier, seed)
    wd = workdir(PROP)
    thorough = tier == "thorough"

    # ---- 1. design level: crash classes
    pred = {}
    for name in ("impl", "fixed"):
        g = tlc.run("GenCrash", f"GenCrash_{name}.cfg", workers=1, timeout=600)
        v.add_tlc(g, f"GenCrash ({name}): StoreSeq with Crash between any two steps, restart, one more append")
        if g.errors or g.timed_out or not g.cases:
            log(g.out[-2000:])
            die_tool("GenCrash failed")
        d = {}
        for c in g.cases:
            k = c["crashpc"].replace("cr_", "").replace("lin_", "")
            d[k] = d.get(k, True) and c["gapfree"] and c["ackedonce"]
        pred[name] = d
    if not all(pred["fixed"].values()):
        die_tool(f"repaired design not crash-safe in the model: {pred['fixed']}")
    v.cov["model_crash_classes"] = pred
    d1_classes = {k for k in pred["impl"] if not pred["impl"][k] and pred["fixed"].get(k, True)}

    # ---- 2. crash points of real operations
    setup = [{"op": "ensure_default"}, {"op": "message", "t": 0}, {"op": "message", "t": 0}]
    ops = [
        ("msg_small", {"op": "message", "t": 0}),
        ("msg_9k", {"op": "message", "t": 0, "pad": 9000}),
        ("msg_40k", {"op": "message", "t": 0, "pad": 40000}),
        ("checkpoint", {"op": "checkpoint", "t": 0, "to_msg": 1, "summary": "s " * 5000}),
        ("run_spawned", {"op": "run_spawned", "t": 0, "m": 0, "s": 0}),
        ("run_ended", {"op": "run_ended", "t": 0, "m": 0, "s": 0}),
        ("side_effects", {"op": "side_effects", "t": 0, "m": 0, "s": 0}),
        ("cursor_update", {"op": "cursor_update", "t": 0}),
        ("auto", {"op": "auto", "t": 0, "stride": 1, "max_new": 2}),
        ("schedule", {"op": "schedule", "t": 0, "stride": 1, "max_new": 1, "execute": True}),
        ("branch", {"op": "branch", "t": 0}),
        ("handoff", {"op": "handoff", "t": 0, "summary": "handoff text"}),
        ("compile", {"op": "compile", "t": 0, "m": 1, "s": 0, "record": True}),
        ("rotate", {"op": "cursor_rotate", "t": 0}),
    ]
    cases = []
    post = [{"op": "message", "t": "last"}, {"op": "message", "t": 0, "must_ok": True}, {"op": "message", "t": 0, "pad": 9000, "must_ok": True},
            {"op": "checkpoint", "t": 0, "to_msg": 0, "must_ok": True}, {"op": "replay_all", "must_ok": True}]
    for name, op in ops:
        su = list(setup)
        if name == "rotate":
            su = su + [{"op": "cursor_update", "t": 0}]
        cases.append({"id": name, "setup": su, "op": op, "post": post})
    cases.append({"id": "ensure_default_fresh", "setup": [], "op": {"op": "ensure_default"},
                  "post": [{"op": "ensure_default", "must_ok": True}, {"op": "message", "t": "last", "must_ok": True},
                           {"op": "replay_all", "must_ok": True}]})
    # crash while a cache is being rebuilt
    for f in (["full", "mr", "comp"] if thorough else ["full"]):
        cases.append({"id": f"rebuild_{f}", "setup": setup + [{"op": "checkpoint", "t": 0, "to_msg": 0},
                                                              {"op": "fault", "t": 0, "file": f, "kind": "delete"}, {"op": "restart"}],
                      "op": ({"op": "replay", "t": 0} if f == "full" else {"op": "cut_points", "t": 0, "stride": 1, "limit": 4}), "post": post})
    if thorough:
        # longer prefixes and second-generation threads
        su2 = setup + [{"op": "branch", "t": 0}, {"op": "message", "t": 1}, {"op": "auto", "t": 0, "stride": 1, "max_new": 2}]
        for name, op in ops:
            op2 = dict(op)
            if op2.get("t") == 0 and name in ("msg_small", "msg_9k", "branch", "handoff"):
                op2["t"] = 1
            cases.append({"id": name + "_gen2", "setup": su2, "op": op2, "post": post})
    results = run_harness("crash", cases, wd, "crash", shards=min(12, len(cases)), timeout=1800)
    by_id = {c["id"]: c for c in cases}
    npoints = 0
    points_seen = set()
    for res in results:
        c = by_id[res["id"]]
        for pt in res["points"]:
            npoints += 1
            points_seen.add(pt["point"])
            cls = point_class(pt["point"], pt["fields"], None)
            chk = pt["check"]
            if any((row.get("full") or 0) >= 1 for row in chk.get("cache_lag", [])):
                cls = "flushed"      # the truth log is ahead of the full sidecar: StoreSeq pc = flushed, whatever the point is called
            b, a = chk["before"], chk["after"]
            nontrivial = cls in ("pre", "flushed", "cached")
            v.add_eval({"op": res["id"], "k": pt["k"], "point": pt["point"]}, nontrivial)
            rep = {"engine": "crash", "case": c, "crash_point": {"k": pt["k"], "point": pt["point"], "fields": pt["fields"]}}
            problems = []
            if not b["replay_validated"] or b["bad_lines"] or not b["nl"]:
                problems.append(("recovered store does not replay: "
                                 f"replay_validated={b['replay_validated']} unparsable_lines={b['bad_lines']} ends_with_newline={b['nl']}", "torn"))
            if not chk["acked_ok"]:
                problems.append((f"acknowledged append not present exactly once: {chk['acked_detail']}", "acked"))
            for pop, pres in zip(c["post"], chk["post"]):
                if pop.get("must_ok") and not pres["ok"]:
                    problems.append((f"the restarted store is not usable: {pop['op']} fails with {str(pres['ret'])[:160]}", "unusable"))
                    break
            ok_after, bad = gapfree(a["frames"])
            if not ok_after or not a["replay_validated"]:
                problems.append((f"numbering wrong after further appends: offending frame {bad}, replay_validated={a['replay_validated']}", "seq"))
            lag = {"full": 0, "mr": 0, "comp": 0, "compidx": 0, "ord": 0}
            for row in chk.get("cache_lag", []):
                for kk in lag:
                    if row.get(kk) is not None:
                        lag[kk] = max(lag[kk], row[kk])
            for what, kind in problems:
                key = None
                if kind == "seq" and lag["full"] >= 1 and cls in d1_classes and b["replay_validated"] and not b["bad_lines"]:
                    # the truth log is ahead of the full sidecar at the crash point, and the as-implemented model
                    # (not the repaired one) predicts exactly this crash class to fail
                    key = "D1-nextseq-from-stale-sidecar"
                if kind == "acked" and lag["full"] >= 1 and cls in d1_classes and "does not exist" not in what:
                    key = "D1-nextseq-from-stale-sidecar"
                if kind == "unusable" and lag["full"] >= 1 and cls in d1_classes and ("replay_all fails" in what or "sequence mismatch" in what):
                    # consequence of the duplicate seq of D1: validated replay of the whole store fails; an APPEND that is refused is something else
                    key = "D1-nextseq-from-stale-sidecar"
                v.violation(f"crash at {pt['point']} (#{pt['k']}, class {cls}) of {res['id']}: {what}", rep, key=key)
            for phase in ("cache_diffs", "cache_diffs_after_post"):
                for d in chk.get(phase, []):
                    q = d["query"]["op"]
                    key = None
                    if lag["full"] >= 1:
                        key = "D14a-stale-full-sidecar-accepted"
                    elif lag["mr"] >= 1 and q in ("cut_points", "status", "auto"):
                        key = "D14b-stale-messages-runs-cache-accepted"
                    elif (lag["comp"] >= 1 or lag["compidx"] >= 1) and q in ("cut_points", "status", "auto"):
                        key = "D14c-stale-checkpoint-cache-accepted"
                    elif lag["ord"] >= 1 and q in ("cut_points", "status", "auto"):
                        key = "D14d-ordinal-index-short-accepted"
                    v.violation(f"crash at {pt['point']} (#{pt['k']}, class {cls}) of {res['id']}: {q} answers differently with the recovered caches "
                                f"than with caches removed ({phase}; cache lag at crash {lag}): {json.dumps(d)[:300]}", dict(rep, diff=d, lag=lag), key=key)
            if not problems and cls in d1_classes and pt["point"] != "log.flushed":
                pass
            if len(v.cov["samples"]) < 3 and pt["point"] in ("cache.enter", "log.body", "index.tmp"):
                v.sample({"op": c["op"], "crash_point": pt["point"], "k": pt["k"], "class": cls,
                          "recovered_replay_ok": b["replay_validated"], "frames_after_post": [[f[0], f[1], f[2]] for f in a["frames"]][-6:],
                          "acked_ok": chk["acked_ok"], "cache_diffs": len(chk["cache_diffs"])})
    v.cov["crash_points"] = npoints
    v.cov["distinct_point_names"] = sorted(points_seen)
    v.cov["traces_validated_against_impl"] = len(results)
    v.assumptions += ["a crash point is 'between two file-system calls of the process' (a snapshot taken at a hook point); a single write(2) torn by the kernel or power loss is not modelled",
                      "buffered bytes are not on disk: the snapshot is a copy of the files at the hook point"]
    # ---- 3. acknowledged means on disk, for every writer family: generated histories (provider runs with text
    # deltas, tool and checkpoint commands, tasks, continuity operations) through the real router; at every
    # log.flushed point - the writer mutex is still held, the append is about to return Ok - the last line of
    # events.jsonl must be the frame just appended (StoreSeq: `acked` is a subset of the frames on disk).  A process
    # killed right after that point loses nothing it acknowledged.
    ack_family(v, wd, 100 if thorough else 14, seed)
    # the repository's own tests as drivers: every recorded execution against the monitor half of System.tla
    from .. import suite
    suite.check(v, wd)
    return v.finish(
        rule="cases = (operation, k-th file-system hook point during it) pairs, each reopened by a fresh engine and followed by appends + queries; "
             "non-trivial = the crash falls inside the append path (class pre / flushed / cached); distinct by (operation id, k, point name)",
        exhaustive=False)


def ack_family(v, wd, n, seed, replay_case=None):
    from . import c03
    sc = [replay_case] if replay_case else c03.generated_scenarios(n, seed + 500)
    for c in sc:
        c["id"] = c["id"].replace("gen-", "ack-")
    results = run_harness("fidelity", [{k: x for k, x in c.items() if not k.startswith("_")} for c in sc], wd, "ack", shards=min(len(sc), 14), timeout=1800)
    by_id = {c["id"]: c for c in sc}
    checked = 0
    kinds = set()
    for res in results:
        checked += res.get("ack_checked", 0)
        for o in res.get("order", []):
            kinds.add(o["type"])
        v.add_eval({"ack_history": res["id"]}, res.get("ack_checked", 0) > 0)
        miss = res.get("ack_not_on_disk") or []
        if miss:
            c = by_id[res["id"]]
            m = miss[0]
            v.violation(f"history {res['id']} (steps {c.get('_names')}): the append of {m.get('kind')} seq {m.get('seq')} of {m.get('sk')} stream was about to be acknowledged "
                        f"(log.flushed) but its line is not the last line of events.jsonl (file length {m.get('file_len')}, line {m.get('bytes')} bytes); "
                        f"{len(miss)} such appends in this history - a crash here loses an acknowledged frame",
                        {"engine": "ack", "case": {k: x for k, x in c.items() if not k.startswith("_")}})
    v.cov["ack_on_disk"] = {"histories": len(results), "appends_checked": checked, "frame_types": len(kinds)}
    if not replay_case and checked < 100:
        die_tool(f"ack family: only {checked} appends observed")
    return results


def replay(path, seed):
    with open(path) as f:
        rep = json.load(f)
    case = rep["case"]
    if case.get("engine") == "suite":
        from .. import suite
        return suite.replay(PROP, path, case)
    wd = workdir(PROP + "-replay")
    if case.get("engine") == "ack":
        v = Verdict(PROP, "replay", seed)
        ack_family(v, wd, 1, seed, replay_case=dict(case["case"]))
        if v.violations:
            print(v.violations[0][0][:600])
            print(f"VIOLATION property={PROP} replay={path}")
            return 1
        return 0
    res = run_harness("crash", [case["case"]], wd, "replay")[0]
    k = case["crash_point"]["k"]
    pt = [p for p in res["points"] if p["k"] == k]
    if not pt:
        print("crash point not reached")
        return 2
    chk = pt[0]["check"]
    ok_after, bad = gapfree(chk["after"]["frames"])
    out = {"point": pt[0]["point"], "before": {k2: chk["before"][k2] for k2 in ("replay_validated", "bad_lines", "nl")},
           "acked_ok": chk["acked_ok"], "gapfree_after": ok_after, "bad": bad, "cache_diffs": chk["cache_diffs"][:1]}
    print(json.dumps(out, indent=1)[:2000])
    if not (chk["before"]["replay_validated"] and chk["acked_ok"] and ok_after and chk["after"]["replay_validated"] and not chk["cache_diffs"]):
        print(f"VIOLATION property={PROP} replay={path}")
        return 1
    return 0
