"""C08 — the compiled context is a pure function of thread truth up to the cut point.

 Threads.tla!Compile is the reference: cut point (last frame before the next message after the
 anchor, or the head), hierarchical checkpoint selection (newest cumulative checkpoint at or
 before the cut, then halving), the newest <= 16 messages after the newest selected summary and
 at or before the cut, oldest first, each followed by the reply of the LAST run that ended for it
 at or before the cut.  TLC proves BundleSound on every reachable thread and prints Compile for
 every anchor of every thread (bounded exploration + scripted long threads: > 16 messages,
 halving over five checkpoints, checkpoints created in non-ascending to_seq order, interleaved
 replies, 60 x 10 KB messages so that the messages+runs sidecar exceeds the 256 KiB tail window).
 The real compile entry point must return exactly that bundle (artifact read back), cut and
 logged decision - with warm caches, after a restart, and with every cache removed; a full run
 through the scripted provider must send exactly the bundle's items."""
import json

from .. import tlc, threads, runloop
from ..common import Verdict, workdir, run_harness, log, die_tool

PROP = "C08"


def cases_from(gcases, prefix, pad=None, variant="warm"):
    cases = []
    for i, gc in enumerate(gcases):
        path = [{"op": "ensure_default"}]
        for o in gc["path"]:
            c = threads.concretise(o)
            if pad and c["op"] == "message":
                c["pad"] = pad
            path.append(c)
        if variant == "restart":
            path.append({"op": "restart"})
        elif variant == "nocache":
            path += [{"op": "drop_caches"}, {"op": "restart"}]
        trans, meta = [], []
        for tr in gc["trans"]:
            o, e = tr["o"], tr["e"]
            if o["op"] != "compile" or o["t"] != 1:
                continue
            if pad and o["x"] not in (0, 1, 2, 25, 39, 40, 41, 58, 59, 60):
                continue
            trans.append({"op": threads.concretise(o), "mut": False})
            meta.append((o, e))
            if variant == "nocache":
                trans.append({"op": {"op": "drop_caches"}, "mut": False})
                meta.append(None)
        cases.append({"id": f"{prefix}{i}", "path": path, "trans": trans, "_meta": meta, "_gc": gc, "_variant": variant})
    return cases


def run(tier, seed):
    v = Verdict(PROP, tier, seed)
    wd = workdir(PROP)
    thorough = tier == "thorough"
    g = threads.generate("GenThreads_c08t.cfg" if thorough else "GenThreads_c08q.cfg", timeout=3000)
    v.add_tlc(g, "GenThreads (compile): every reachable thread (messages, run ends with two sessions, checkpoints, side effects) with Compile for every anchor; invariant BundleSound")
    g2 = tlc.run("ScriptThreads", "ScriptThreads_c08.cfg", workers=4, timeout=900, heap="8g")
    v.add_tlc(g2, "ScriptThreads: eight scripted long threads with Compile for every anchor; invariant BundleSound")
    if not g.ok or not g2.ok or not g.cases or not g2.cases:
        log((g.out + g2.out)[-2000:])
        die_tool("Threads.tla: BundleSound violated or TLC error")
    cases = []
    for variant in ("warm", "restart", "nocache"):
        sel = g.cases if (thorough or variant == "warm") else g.cases[::3]
        cases += cases_from(sel, f"s-{variant}-", variant=variant)
        cases += cases_from(g2.cases, f"l-{variant}-", variant=variant)
        cases += cases_from([c for c in g2.cases if c["sid"] in (7, 8)], f"p-{variant}-", pad=10000, variant=variant)
    results = run_harness("trans", [{k: c[k] for k in c if not k.startswith("_")} for c in cases], wd, "trans", shards=14, timeout=3000)
    by_id = {c["id"]: c for c in cases}
    for res in results:
        c = by_id[res["id"]]
        gc = c["_gc"]
        for k, (r, me) in enumerate(zip(res["trans"], c["_meta"])):
            if me is None:
                continue
            o, e = me
            T = gc["lens"][0]
            v.add_eval({"path": gc["path"], "anchor": o["x"], "variant": c["_variant"], "pad": c["id"].startswith("p-")}, e["ok"] and (o["x"] < T - 2 or len(e["resp"]["refs"]) > 0))
            rep = {"engine": "trans", "case": {"id": c["id"], "path": c["path"], "trans": [c["trans"][k]]}, "model_op": o, "predicted": e}
            if bool(r["ok"]) != bool(e["ok"]):
                v.violation(f"compile for anchor seq {o['x']} {'succeeded' if r['ok'] else 'failed: ' + str(r['ret'])[:120]} but the reference says ok={e['ok']} [{c['id']}]", rep)
                continue
            if not e["ok"]:
                continue
            d = threads.compare_resp(o, e["resp"], r["ret"], [])
            if d:
                v.violation(f"compiled context for anchor seq {o['x']} ({c['_variant']} caches, thread of {T} frames) differs from the reference: {json.dumps(d)[:500]}",
                            dict(rep, detail=d))
            elif "inconsistent" in threads.project_compile(r["ret"]):
                v.violation(f"bundle, logged decision and answer disagree: {threads.project_compile(r['ret'])['inconsistent']}", rep)
            if r["log"]["added"]:
                v.violation("compile (record=false) appended frames", rep)
            if len(v.cov["samples"]) < 3 and len(e["resp"]["refs"]) >= 2:
                v.sample({"thread_frames": T, "anchor_seq": o["x"], "variant": c["_variant"], "predicted": e["resp"], "observed": threads.project_compile(r["ret"])})

    # ---- one store, one history, the same compile asked in different cache states (as built, caches removed, messages+runs
    #      sidecar unreadable, after a restart): the answers - cut, selected checkpoints BY ID, items - must be identical.
    #      Histories: a cut that is compacted twice (the later frame for one to_seq wins on every read path) and threads longer
    #      than the seek-index stride whose 16-message window crosses a stride boundary.
    def turn(i, extra=5):
        return [{"op": "message", "t": 0}, {"op": "run_spawned", "t": 0, "m": i, "s": i % 8}, {"op": "run_ended", "t": 0, "m": i, "s": i % 8}] + \
               [{"op": "cursor_update", "t": 0, "provider": f"p{i % 3}"}] * extra
    recompact = [{"op": "ensure_default"}, {"op": "message", "t": 0}, {"op": "message", "t": 0},
                 {"op": "checkpoint", "t": 0, "to_msg": 0, "summary": "first pass"}, {"op": "checkpoint", "t": 0, "to_msg": 0, "summary": "second pass"},
                 {"op": "message", "t": 0}, {"op": "checkpoint", "t": 0, "to_msg": 1, "summary": "level two, first"},
                 {"op": "checkpoint", "t": 0, "to_msg": 1, "summary": "level two, corrected"}, {"op": "message", "t": 0}, {"op": "message", "t": 0}]
    long_a = [{"op": "ensure_default"}] + [o for i in range(44) for o in turn(i)]
    long_b = [{"op": "ensure_default"}] + [o for i in range(70) for o in turn(i, extra=3)]
    dh = []
    for name, hist_ops, anchors in (("recompact", recompact, [2, 3, 4]), ("long352", long_a, [20, 31, 32, 33, 36, 40, 43]), ("long420", long_b, [30, 42, 43, 51, 52, 60, 69])):
        for a in anchors:
            q = {"op": "compile", "t": 0, "m": a, "s": 0, "record": False}
            dh.append({"id": f"diff-{name}-{a}", "ops": hist_ops + [q, {"op": "drop_caches"}, q, {"op": "fault", "t": 0, "file": "mr", "kind": "garbage"}, q,
                                                                  {"op": "restart"}, q, {"op": "fault", "t": 0, "file": "mr", "kind": "truncate"},
                                                                  {"op": "fault", "t": 0, "file": "mrseek", "kind": "delete"}, q]})
    names5 = ["as built", "caches removed", "messages+runs sidecar unreadable", "after restart", "sidecar torn, its seek index deleted"]
    case_names = {h["id"]: names5 for h in dh}
    # a sidecar line whose newline was lost in a crash and onto which the next append was glued (one unparsable line that
    # holds two frames), in the part of the file the tail scan reads and further back; then a restart
    for name, hist_ops, anchors in (("recompact", recompact, [2, 4]), ("long352", long_a, [36, 40, 43]), ("long420", long_b, [60, 69])):
        for a in anchors:
            for fl in ("mr", "full"):
                for pm in (990, 900, 500):
                    q = {"op": "compile", "t": 0, "m": a, "s": 0, "record": False}
                    h = {"id": f"glue-{name}-{a}-{fl}-{pm}", "ops": hist_ops + [q, {"op": "fault", "t": 0, "file": fl, "kind": "unline", "at_pm": pm}, q, {"op": "restart"}, q]}
                    dh.append(h)
                    case_names[h["id"]] = ["as built", f"a line of the {fl} sidecar glued onto the next (at {pm} per mille)", "after that and a restart"]
    for r in run_harness("hist", dh, wd, "cdiff", shards=12, timeout=900):
        answers = [x for x, o in zip(r["results"], [h for h in dh if h["id"] == r["id"]][0]["ops"]) if o["op"] == "compile"]
        names = case_names[r["id"]]

        def proj(x):
            ret = x.get("ret") or {}
            if not x.get("ok") or not isinstance(ret, dict):
                return ("failed", str(ret)[:120])
            b = ret.get("bundle") or {}
            return (ret.get("from_seq"), ret.get("compiler_strategy"), [c.get("checkpoint_id") for c in ret.get("compaction_checkpoints", [])],
                    json.dumps(b.get("items"), sort_keys=True))
        v.add_eval({"cache_state_differential": r["id"]}, True)
        # "the latest frame (by stream order) for one to_seq wins": the selected checkpoint for a to_seq is the last one appended
        latest = {}
        for x in r["results"]:
            for fr in (x.get("log") or {}).get("new_frames", []):
                if fr.get("kind") == "continuity_compaction_checkpoint_created":
                    latest[fr.get("to_seq")] = fr.get("checkpoint_id")
        stale = None
        for nm, x in zip(names, answers):
            for cp in ((x.get("ret") or {}).get("compaction_checkpoints") or []) if isinstance(x.get("ret"), dict) else []:
                if latest.get(cp.get("to_seq")) not in (None, cp.get("checkpoint_id")):
                    stale = (nm, cp.get("to_seq"), cp.get("checkpoint_id"), latest[cp["to_seq"]])
        if stale:
            v.violation(f"compile for {r['id']} ({stale[0]}) selects checkpoint {stale[2]} for to_seq {stale[1]} although a later checkpoint frame for that cut exists ({stale[3]}): "
                        f"the superseded summary is used", {"engine": "hist", "case": [h for h in dh if h["id"] == r["id"]][0]})
        ref = proj(answers[0])
        for nm, x in zip(names[1:], answers[1:]):
            if proj(x) != ref:
                a_, b_ = ref, proj(x)
                what = "cut" if a_[0] != b_[0] else "selected checkpoints" if a_[2] != b_[2] else "items" if a_[3] != b_[3] else "strategy"
                v.violation(f"compile for {r['id']} answers differently {nm} than as built: {what} differ ({str(b_[:3])[:200]} vs {str(a_[:3])[:200]}; "
                            f"{len(json.loads(b_[3]) or []) if b_[0] != 'failed' else 0} vs {len(json.loads(a_[3]) or [])} items)",
                            {"engine": "hist", "case": [h for h in dh if h["id"] == r["id"]][0]})
                break

    # ---- compile racing with an append: the compile is parked between its tail scan and its head read while another
    #      writer appends; the cut it reports must be the cut of the truth before or after that append, nothing else
    setup = [{"op": "ensure_default"}, {"op": "message", "t": 0}, {"op": "message", "t": 0}]
    others = [("message", {"op": "message", "t": 0}), ("checkpoint", {"op": "checkpoint", "t": 0, "to_msg": 0, "summary": "s"}),
              ("run_spawned", {"op": "run_spawned", "t": 0, "m": 1, "s": 1}), ("two_messages", None)]
    scases = []
    for name, op in others:
        w2 = [op] if op else [{"op": "message", "t": 0}, {"op": "message", "t": 0}]
        for anchor in (0, 1):
            for park in ("compile.head.read", "compile.tail.scanned"):
                pre = [{"a": "w1", "p": "compile.head.read"}] + ([{"a": "w1", "p": "compile.tail.scanned"}] if park == "compile.tail.scanned" else [])
                scases.append({"id": f"race-{name}-{anchor}-{park.split('.')[1]}", "setup": setup,
                               "actors": [{"name": "w1", "ops": [{"op": "compile", "t": 0, "m": anchor, "s": 0, "record": False}]}, {"name": "w2", "ops": w2}],
                               "schedule": pre + [{"a": "w2", "p": "*"}] * (14 * len(w2)) + [{"a": "w1", "p": "*"}] * 8,
                               "_anchor": anchor, "_other": name, "_npre": len(pre)})
    sres = run_harness("sched", [{k: c[k] for k in c if not k.startswith("_")} for c in scases], wd, "race", shards=4, timeout=600)
    sby = {c["id"]: c for c in scases}
    for res in sres:
        c = sby[res["id"]]
        parked = len(res["steps"]) >= c["_npre"] and all(st[2] == "ok" for st in res["steps"][:c["_npre"]])
        v.add_eval({"race": c["id"]}, bool(parked))
        frames = [f for f in res["summary"]["frames"] if f[3] == "continuity"]
        msgs = [f[1] for f in frames if f[2] == "continuity_message_appended"]
        # truth before the other writer: created@0, m@1, m@2 (head 2); after: whatever it appended
        a_seq = msgs[c["_anchor"]]

        def cut(upto):
            later = [q for q in msgs if q > a_seq and q <= upto]
            return (later[0] - 1) if later else upto
        allowed = {cut(2), cut(frames[-1][1])}
        ret = res["rets"][0][0] if res["rets"] and res["rets"][0] else {}
        got = (ret.get("ret") or {}).get("from_seq") if ret.get("ok") else None
        if not parked:
            v.drift({"case": c["id"], "note": "compile did not reach the point after its tail scan"})
        elif got not in allowed:
            v.violation(f"compile for the message at seq {a_seq} raced with {c['_other']}: it reports the cut from_seq={got}; the truth before the append gives {cut(2)}, "
                        f"after it {cut(frames[-1][1])} (thread {[(f[1], f[2].replace('continuity_', '')) for f in frames]})",
                        {"engine": "sched", "case": {k: c[k] for k in c if not k.startswith("_")}, "allowed": sorted(allowed), "got": got})

    # ---- a full run: the first request's input must be exactly the compiled bundle's items
    script = [{"status": 200, "chunks": ["data: " + json.dumps({"type": "response.output_text.delta", "delta": "answer"}) + "\n\ndata: [DONE]\n\n"]}] * 4
    rc = {"id": "fullrun", "script": script, "linked": True, "inputs": ["first question", "second question", "third question"], "timeout_ms": 20000}
    res = run_harness("runs", [rc], wd, "fullrun", shards=1, timeout=600)[0]
    v.add_eval({"fullrun": True}, True)
    reqs = res["requests"]
    want = [["first question"], ["first question", "answer", "second question"], ["first question", "answer", "second question", "answer", "third question"]]
    got = []
    for rq in reqs:
        inp = rq["body"].get("input") if isinstance(rq["body"], dict) else None
        texts = []
        for it in inp if isinstance(inp, list) else []:
            cnt = it.get("content")
            if isinstance(cnt, list):
                texts.append("".join(p.get("text", "") for p in cnt if isinstance(p, dict)))
            else:
                texts.append(cnt)
        got.append(texts)
    if got != want:
        v.violation(f"requests of three consecutive runs carried {got}, expected the compiled bundles {want}", {"engine": "runs", "case": rc})
    v.cov["traces_validated_against_impl"] = len(results) + 1
    v.assumptions += ["reply texts are written as session frames (start, one delta, end) by the harness for every run_ended frame of the model",
                      "the concurrent tail/head read race of compilation (D13) is not forced by gates in this check"]
    return v.finish(
        rule="cases = (thread, anchor message, cache variant warm|restart|removed) triples: every reachable thread of the bounded model + eight scripted long threads "
             "(two of them also with 10 KB messages); non-trivial = the anchor is not at the tail or a summary is selected; distinct by (path, anchor, variant, padding)",
        exhaustive=True)


def replay(path, seed):
    with open(path) as f:
        rep = json.load(f)
    case = rep["case"]
    wd = workdir(PROP + "-replay")
    res = run_harness("trans", [case["case"]], wd, "replay")[0]
    r = res["trans"][0]
    d = threads.compare_resp(case["model_op"], case["predicted"]["resp"], r["ret"], []) if r["ok"] and case["predicted"]["ok"] else None
    print(json.dumps({"observed": threads.project_compile(r["ret"]) if r["ok"] else r["ret"], "reference": case["predicted"], "diff": d}, indent=1)[:3000])
    if d or bool(r["ok"]) != bool(case["predicted"]["ok"]):
        print(f"VIOLATION property={PROP} replay={path}")
        return 1
    return 0
