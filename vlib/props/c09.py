"""C09 — compaction follows message count alone; idempotent and replay-safe.

 Threads.tla fixes the reference semantics (cut points = k*stride-th messages; checkpointed iff
 a checkpoint frame with that to_seq exists, latest by stream order wins; planner latest-first,
 executor ascending, bracketed by one job_spawned and one job_ended; schedule decisions;
 no-op when nothing is new).  TLC proves the design-level claims (CutPointsAreStrideMessages,
 AutoIdempotent) on every reachable state and enumerates every state with the predicted effect
 of every compaction request (all stride / limit / max_new / dry_run / execute / block_on_inflight
 classes, manual checkpoints at boundaries and non-boundaries).  The harness executes each
 transition on the real store and compares answer and appended frames; after every executing
 auto/schedule the summary artifacts are read back (coverage must match) and the call is
 repeated (must append nothing when the plan was exhausted).  Determinism: the same history
 summarised with caches present / removed gives the same summary text.  Concurrent auto/schedule
 calls are interleaved at every append by the gate scheduler (brackets must stay well-formed)."""
import json

from .. import threads
from ..common import Verdict, workdir, run_harness, log

PROP = "C09"


def post_for(o, e, gc):
    if o["op"] in ("auto", "schedule") and e["ok"] and any(f["k"] == "ckpt" for f in e["new"]):
        return [{"op": "summaries", "t": o["t"] - 1}, threads.concretise(o), {"op": "summaries", "t": o["t"] - 1}]
    if o["op"] == "checkpoint" and e["ok"]:
        return [{"op": "summaries", "t": o["t"] - 1}]
    return None


def brackets_ok(frames):
    """frames: list of (kind, job ref) of one thread: each spawned job ends at most once, ends name a spawned job."""
    spawned, ended = [], []
    for f in frames:
        if f["kind"] == "continuity_job_spawned":
            spawned.append(f["job_id"])
        elif f["kind"] == "continuity_job_ended":
            if f["job_id"] not in spawned or f["job_id"] in ended:
                return False
            ended.append(f["job_id"])
    return True


def run(tier, seed):
    v = Verdict(PROP, tier, seed)
    wd = workdir(PROP)
    thorough = tier == "thorough"
    cfg = "GenThreads_c09t.cfg" if thorough else "GenThreads_c09q.cfg"
    rows = threads.run_transitions(v, wd, cfg, lambda o: o["op"] in threads.COMPACTION, post_for)
    for c, gc, k, o, e, r in rows:
        nontrivial = o["x"] != 0 and any(p["op"] == "message" for p in gc["path"])
        v.add_eval({"state": gc["path"], "op": o}, nontrivial)
        diffs = threads.compare(o, e, r, 0)
        rep = {"engine": "trans", "case": {"id": c["id"], "path": c["path"], "trans": [c["trans"][k]]}, "model_op": o, "predicted": e}
        for cat, detail in diffs:
            if cat in ("log",):
                continue        # owned by C02
            v.violation(f"{cat}: {o['op']} x={o['x']} y={o['y']} z={o['z']} after {len(gc['path'])} ops: {json.dumps(detail)[:400]}",
                        dict(rep, detail=detail))
        post = r.get("post")
        if post and not diffs:
            sums = post[0]["ret"] or []
            for s in sums:
                if not (s["art_ok"] and s["art_to_seq"] == s["to_seq"] and s["art_thread_ok"] and s["to_message_ok"]
                        and s["art_schema"] == "rip.compaction_summary.v1" and s["md_len"] > 0):
                    v.violation(f"checkpoint at seq {s['frame_seq']} does not reference a readable summary with matching coverage: {s}",
                                dict(rep, detail=s))
            if len(post) >= 2 and o["op"] in ("auto", "schedule"):
                exhausted = len(e["resp"]["planned"]) < threads.clamp(o["y"], 1, 32) or \
                    len(e["resp"]["planned"]) == len([1 for cp in _open_cuts(gc, o)])
                if exhausted and post[1]["log"]["added"] != 0:
                    v.violation(f"repeated {o['op']} with nothing new appended {post[1]['log']['added']} frames",
                                dict(rep, detail=post[1]["log"]))
                if exhausted and post[1]["ok"]:
                    st = post[1]["ret"].get("status") or post[1]["ret"].get("decision")
                    if st != "noop":
                        v.violation(f"repeated {o['op']} with nothing new answered {st}", dict(rep, detail=post[1]["ret"]))
        if len(v.cov["samples"]) < 3 and o["op"] == "auto" and e["ok"] and e["new"]:
            v.sample({"path": c["path"], "op": c["trans"][k]["op"], "predicted": e,
                      "real_new_frames": [f["kind"] for f in r["log"]["new_frames"]], "summaries": (post or [{}])[0].get("ret")})

    # ---- determinism / cache independence of the summary text
    hist = []
    bases = [
        [{"op": "ensure_default"}] + [{"op": "message", "t": 0}] * n for n in (2, 3, 5)
    ] + [[{"op": "ensure_default"}, {"op": "message", "t": 0}, {"op": "message", "t": 0},
          {"op": "checkpoint", "t": 0, "to_msg": 0, "summary": "manual base"}, {"op": "message", "t": 0}, {"op": "message", "t": 0}]]
    # many distinct words with equal counts: whatever the summary says about them must not depend on map order
    bases += [[{"op": "ensure_default"}] + [{"op": "message", "t": 0, "words": w}] * n_ for (w, n_) in ((13, 2), (14, 4), (26, 3), (40, 2))]
    # threads whose messages were answered by runs (run frames lie between the messages; "messages alone" decide the cuts),
    # ending with a message and ending with a run end
    def answered(k, last_open):
        ops_ = [{"op": "ensure_default"}]
        for i in range(k):
            ops_ += [{"op": "message", "t": 0}]
            if i < k - 1 or not last_open:
                ops_ += [{"op": "run_spawned", "t": 0, "m": i, "s": i}, {"op": "run_ended", "t": 0, "m": i, "s": i}]
        return ops_
    bases += [answered(4, True), answered(5, False), answered(3, True)]
    n = 0
    for b in bases:
        for stride in (1, 2):
            tail = [{"op": "auto", "t": 0, "stride": stride, "max_new": 33}, {"op": "summaries", "t": 0}]
            hist.append({"id": f"d{n}a", "ops": b + tail})
            hist.append({"id": f"d{n}b", "ops": b + [{"op": "drop_caches"}, {"op": "restart"}] + tail})
            hist.append({"id": f"d{n}c", "ops": b + [{"op": "restart"}] + tail})
            n += 1
    hres = {r["id"]: r for r in run_harness("hist", hist, wd, "det", shards=6, timeout=600)}
    for i in range(n):
        sha = {}
        for suf in "abc":
            r = hres[f"d{i}{suf}"]
            sums = r["results"][-1]["ret"] or []
            sha[suf] = [(s["to_seq"], s["md_sha"]) for s in sums]
        v.add_eval({"determinism": i}, True)
        if not (sha["a"] == sha["b"] == sha["c"]):
            v.violation(f"same history gives different summary text depending on cache state / restart: {sha}",
                        {"engine": "hist", "cases": [h for h in hist if h["id"].startswith(f"d{i}")]})

    # ---- cut points / status / repeated auto do not depend on the state of the compaction caches: after everything has been
    #      checkpointed, an unreadable or missing cache file (and a restart) must give the same answers and a repeated auto
    #      must still append nothing (faults that leave a readable but stale file are C04's recorded findings and are not used)
    fhist = []
    faults = [(f, k) for f in ("comp", "compidx", "mrord", "mr", "full") for k in ("garbage", "truncate", "delete")]
    if not thorough:
        faults = [x for i, x in enumerate(faults) if (i + seed) % 2 == 0] + [("comp", "garbage"), ("comp", "truncate")]
        faults = sorted(set(faults))
    fb = 0
    for b in bases[1:]:
        for stride in (1, 2):
            done = b + [{"op": "auto", "t": 0, "stride": stride, "max_new": 33}, {"op": "auto", "t": 0, "stride": stride, "max_new": 33}]
            probe = [{"op": "cut_points", "t": 0, "stride": stride, "limit": 50}, {"op": "status", "t": 0, "stride": stride},
                     {"op": "auto", "t": 0, "stride": stride, "max_new": 33}, {"op": "schedule", "t": 0, "stride": stride, "max_new": 2, "execute": True, "block_on_inflight": True},
                     {"op": "cut_points", "t": 0, "stride": stride, "limit": 50}]
            fhist.append({"id": f"f{fb}-ref", "ops": done + [{"op": "restart"}] + probe})
            for (file, kind) in faults:
                fhist.append({"id": f"f{fb}-{file}-{kind}", "ops": done + [{"op": "fault", "t": 0, "file": file, "kind": kind}, {"op": "restart"}] + probe,
                              "_ref": f"f{fb}-ref", "_fault": (file, kind)})
            # every cache file lost at once: everything is rebuilt from the truth log
            fhist.append({"id": f"f{fb}-all-lost", "ops": done + [{"op": "drop_caches"}, {"op": "restart"}] + probe, "_ref": f"f{fb}-ref", "_fault": ("whole cache directory", "loss")})
            fb += 1
    fres = {r["id"]: r for r in run_harness("hist", [{k: h[k] for k in h if not k.startswith("_")} for h in fhist], wd, "cfault", shards=8, timeout=900)}

    def answers(r):
        out = []
        for x in r["results"][-5:]:
            ret = x.get("ret")
            if isinstance(ret, dict):
                ret = {k: ret[k] for k in ret if k not in ("job_id", "decision_id", "inflight_job_id")}
            out.append((x.get("ok"), json.dumps(ret, sort_keys=True)))
        return out
    for h in fhist:
        if "_ref" not in h:
            continue
        r, ref = fres[h["id"]], fres[h["_ref"]]
        v.add_eval({"cache_fault": h["id"]}, True)
        added = [x.get("log", {}).get("added") for x in r["results"][-5:]]
        if answers(r) != answers(ref):
            k = next(i for i, (a_, b_) in enumerate(zip(answers(r), answers(ref))) if a_ != b_)
            v.violation(f"after {h['_fault'][1]} of the {h['_fault'][0]} cache file and a restart, {h['ops'][-5 + k]['op']} answers {answers(r)[k][1][:200]} "
                        f"instead of {answers(ref)[k][1][:200]}", {"engine": "hist", "case": {k_: h[k_] for k_ in h if not k_.startswith('_')}})
        elif any(a_ not in (0, None) for a_ in added):
            v.violation(f"after {h['_fault'][1]} of the {h['_fault'][0]} cache file, a repeated auto / schedule with nothing new appended frames {added}",
                        {"engine": "hist", "case": {k_: h[k_] for k_ in h if not k_.startswith('_')}})

    # ---- concurrent auto / schedule calls, alternated at every append by the gate scheduler
    setup = [{"op": "ensure_default"}] + [{"op": "message", "t": 0}] * 4
    pairs = [({"op": "auto", "t": 0, "stride": 2, "max_new": 2}, {"op": "auto", "t": 0, "stride": 2, "max_new": 2}),
             ({"op": "schedule", "t": 0, "stride": 2, "max_new": 1, "execute": True, "block_on_inflight": True},
              {"op": "schedule", "t": 0, "stride": 2, "max_new": 1, "execute": True, "block_on_inflight": True}),
             ({"op": "auto", "t": 0, "stride": 1, "max_new": 2},
              {"op": "schedule", "t": 0, "stride": 2, "max_new": 2, "execute": True, "block_on_inflight": False})]
    patterns = [["w1", "w2"] * 20, ["w1", "w1", "w2"] * 14, ["w2", "w1", "w1", "w1"] * 10, ["w1"] * 40 + ["w2"] * 40]
    if thorough:
        patterns += [["w1", "w2", "w2"] * 14, ["w2"] * 3 + ["w1", "w2"] * 20, ["w1"] * 5 + ["w2"] * 5 + ["w1", "w2"] * 15]
    scases = []
    for pi, (a, b) in enumerate(pairs):
        for qi, pat in enumerate(patterns):
            scases.append({"id": f"c{pi}-{qi}", "setup": setup, "actors": [{"name": "w1", "ops": [a]}, {"name": "w2", "ops": [b]}],
                           "schedule": [{"a": w, "p": "*"} for w in pat]})
    sres = run_harness("sched", scases, wd, "conc", shards=6, timeout=900)
    for res in sres:
        frames = res["summary"]["frames"]
        cnt = {}
        gap = True
        for f in frames:
            if f[1] != cnt.get(f[0], 0):
                gap = False
            cnt[f[0]] = f[1] + 1
        kinds = [f[2] for f in frames]
        v.add_eval({"concurrent": res["id"]}, res["realised"] >= 4)
        ok_rets = all(r0["ok"] for rr in res["rets"] for r0 in rr)
        sp = kinds.count("continuity_job_spawned")
        en = kinds.count("continuity_job_ended")
        if not gap or sp != en or not ok_rets:
            v.violation(f"concurrent compaction calls {res['id']}: gapfree={gap} job_spawned={sp} job_ended={en} all_ok={ok_rets}",
                        {"engine": "sched", "case": [s for s in scases if s["id"] == res["id"]][0], "frames": frames})
        # each call's created checkpoints = its plan
        for rr in res["rets"]:
            for r0 in rr:
                ret = r0["ret"]
                if isinstance(ret, dict) and ret.get("result") is not None and (ret.get("status") == "completed" or ret.get("decision") == "completed"):
                    if sorted(x["to_seq"] for x in ret["result"]) != sorted(x["to_seq"] for x in ret["planned"]):
                        v.violation(f"created checkpoints differ from the plan in {res['id']}", {"engine": "sched", "ret": ret})
    v.assumptions += ["threads <= MaxFrames frames, paths <= MaxOps operations (exhaustive within the configuration)",
                      "summary text compared after replacing ids by their positions"]
    # the repository's own tests as drivers: every recorded execution against the monitor half of System.tla
    from .. import suite
    suite.check(v, wd)
    return v.finish(
        rule="cases = (distinct store state, compaction request) pairs from Threads.tla + determinism triples + gate-scheduled concurrent pairs; "
             "non-trivial = stride > 0 in a state with at least one message; distinct by (state path, op descriptor)",
        exhaustive=True)


def _open_cuts(gc, o):
    return []


def replay(path, seed):
    with open(path) as f:
        rep = json.load(f)
    case = rep["case"]
    if case.get("engine") == "suite":
        from .. import suite
        return suite.replay(PROP, path, case)
    wd = workdir(PROP + "-replay")
    if case.get("engine") == "trans":
        res = run_harness("trans", [case["case"]], wd, "replay")[0]
        r = res["trans"][0]
        diffs = [d for d in threads.compare(case["model_op"], case["predicted"], r, 0) if d[0] != "log"]
        print(json.dumps({"real": r["ret"], "new": [f["kind"] for f in r["log"]["new_frames"]], "diffs": diffs}, indent=1)[:3000])
        if diffs:
            print(f"VIOLATION property={PROP} replay={path}")
            return 1
        return 0
    print("replay: unsupported")
    return 2
