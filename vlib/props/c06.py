"""C06 — a stream subscriber sees every frame exactly once, in order.

 Subscribe.tla models the producer's record / publish steps, the subscriber's subscribe / snapshot
 steps, the "seq > last history seq" filter and (for threads) the channel shared with other
 streams.  TLC proves ExactlyOnce / Ordered for record-then-publish (also with foreign frames of
 a much longer stream on the shared channel) and shows the counterexample for publish-then-record.
 Every interleaving TLC enumerates is forced on the real router with gates at emit.recorded /
 emit.published (session, task emitters), cache.exit / api.return (thread appends) and
 sse.subscribed / sse.snapshotted (the three stream handlers); the observation is the parsed SSE
 body, the oracle is ExactlyOnce on it."""
import json
import os

from .. import tlc
from ..common import Verdict, workdir, run_harness, log, die_tool

PROP = "C06"
ORDER = os.environ.get("VERIF_C06_ORDER", "rf")      # order of the emitters' steps in the code: rf = record first


def run(tier, seed):
    v = Verdict(PROP, tier, seed)
    wd = workdir(PROP)
    thorough = tier == "thorough"
    r = tlc.run("Subscribe", "Subscribe_fixed.cfg", workers=4, timeout=300)
    v.add_tlc(r, "Subscribe: record-then-publish, shared channel with a longer foreign stream: ExactlyOnce, Ordered")
    if not r.ok:
        log(r.out[-2000:])
        die_tool("Subscribe (record first) violates ExactlyOnce: specification error")
    r = tlc.run("Subscribe", "Subscribe_impl.cfg", workers=2, timeout=300)
    v.add_tlc(r, "Subscribe: publish-then-record: counterexample expected (non-vacuity; finding D4 of the pinned commit)")
    v.cov["publish_first_counterexample"] = "ExactlyOnce" in r.violated
    cases = []
    g = tlc.run("GenSubscribe", f"GenSubscribe_private_{ORDER}.cfg", workers=1, timeout=300)
    v.add_tlc(g, "GenSubscribe (private channel): all interleavings of 3 frames x (record, publish) with subscribe / snapshot")
    for i, c in enumerate(g.cases):
        for kind in ("session", "task"):
            cases.append({"id": f"{kind}{i}", "kind": kind, "schedule": c["sched"], "_model": c})
    g2 = tlc.run("GenSubscribe", "GenSubscribe_shared.cfg", workers=1, timeout=300)
    v.add_tlc(g2, "GenSubscribe (shared channel): 2 new frames of the subscribed thread, 2 frames of a longer thread, subscribe / snapshot")
    shared = g2.cases
    if not thorough:
        step = max(1, len(shared) // 60)
        shared = shared[(seed % step)::step]
    for i, c in enumerate(shared):
        cases.append({"id": f"thread{i}", "kind": "thread", "schedule": c["sched"], "p_calls": 2, "q_calls": 2, "_model": c})
    if g.errors or g2.errors or not cases:
        die_tool("GenSubscribe failed")
    results = run_harness("sub", [{k: c[k] for k in c if not k.startswith("_")} for c in cases], wd, "sub", shards=12, timeout=2400)
    by_id = {c["id"]: c for c in cases}
    unreal = 0
    for res in results:
        c = by_id[res["id"]]
        total = res["total"]
        delivered = res["delivered"]
        mid = any(st[0] == "S" and st[2] == "ok" for st in res["steps"]) and any(st[0] == "P" and st[2] == "ok" for st in res["steps"])
        v.add_eval({"kind": c["kind"], "sched": c["schedule"]}, mid)
        unreal += 1 if res["unrealised"] else 0
        if total == 0:
            v.drift({"case": res["id"], "note": "stream produced no frame"})
            continue
        if delivered != list(range(total)) or res["foreign"]:
            missing = sorted(set(range(total)) - set(delivered))
            dup = sorted({x for x in delivered if delivered.count(x) > 1})
            v.violation(f"{c['kind']} subscriber got {delivered} of {total} frames (missing {missing}, duplicated {dup}, foreign {res['foreign']}); steps {res['steps']}",
                        {"engine": "sub", "case": {k: c[k] for k in c if not k.startswith("_")}, "steps": res["steps"], "delivered": delivered, "total": total})
        if len(v.cov["samples"]) < 3 and mid:
            v.sample({"kind": c["kind"], "schedule": [f"{s['a']}:{s['p']}" for s in c["schedule"]], "steps": res["steps"],
                      "delivered": delivered, "frames_in_stream": total})
    # ---- two pumps of one task emitting concurrently, one frame at a time delayed right after it was numbered
    #      (the counterexample schedule of an emitter that numbers outside its critical section), subscriber attached
    ocases = [{"id": f"ovt{k}", "scenario": "task_sub", "kinds": ["task"], "wait_ms": 40} for k in range(4 if thorough else 2)]
    for res in run_harness("overtake", ocases, wd, "ovt", shards=len(ocases), timeout=600):
        frames = [f for f in res["summary"]["frames"]]
        total = len([f for f in frames if f[3] == "task"])
        d = res["delivered"]
        v.add_eval({"overtake": res["id"]}, total >= 6)
        if d[:total] != list(range(total)) and d != list(range(len(d))) or (len(d) < total):
            v.violation(f"task subscriber with concurrent pumps got {d} of {total} frames (overtaken={res['overtaken']})",
                        {"engine": "overtake", "case": [c for c in ocases if c["id"] == res["id"]][0], "delivered": d, "total": total})
    v.cov["unrealised_schedules"] = unreal
    v.cov["traces_validated_against_impl"] = len(results)
    v.assumptions += ["a frame is declared missing only after the producer finished and a 3 s grace period elapsed",
                      "a subscriber that lags more than the 16 384-slot broadcast channel is out of scope",
                      "one gated subscriber per run; frames beyond the scheduled prefix flow freely"]
    # ---- a subscriber joins while the producer of ONE particular frame is parked inside its append: every frame kind of a
    # tool run on a thread (message, run spawned, side effects, run ended) at cache.enter (numbered, on disk, not yet in
    # the history a joiner reads) and log.flushed; every frame of a task (running, output, terminal status) at emit.numbered
    jh = []
    for k in range(1, 5):
        jh.append({"id": f"jh-thread-enter-{k}", "kind": "thread", "point": "cache.enter", "seq": k})
        jh.append({"id": f"jh-thread-flushed-{k}", "kind": "thread", "point": "log.flushed", "seq": k})
    for k in (1, 2):
        jh.append({"id": f"jh-task-true-{k}", "kind": "task", "point": "emit.numbered", "seq": k, "command": "true"})
    for k in (1, 2, 3):
        jh.append({"id": f"jh-task-echo-{k}", "kind": "task", "point": "emit.numbered", "seq": k, "command": "echo hi"})
        jh.append({"id": f"jh-task-echo-rec-{k}", "kind": "task", "point": "emit.recorded", "seq": k, "command": "echo hi"})
    for res in run_harness("join_hold", jh, wd, "jh", shards=min(8, len(jh)), timeout=900):
        c = [x for x in jh if x["id"] == res["id"]][0]
        if not res["held"]:
            v.drift({"case": res["id"], "note": "the producer never reached the hold point"})
            continue
        v.add_eval({"join_hold": res["id"]}, True)
        if res["delivered"] != res["log_seqs"]:
            v.violation(f"{c['kind']} subscriber that joined while frame {c['seq']} was inside its append (producer parked at {c['point']}) got seqs {res['delivered']} "
                        f"of {res['log_seqs']}" + (" and the server closed the stream" if res["stream_closed_by_server"] else ""),
                        {"engine": "join_hold", "case": c})
    # the repository's own tests as drivers: every recorded execution against the monitor half of System.tla
    from .. import suite
    suite.check(v, wd)
    return v.finish(
        rule="cases = TLC-enumerated interleavings of producer record/publish steps with subscriber subscribe/snapshot steps x stream kind "
             "(session, task: private channel; thread: channel shared with a longer thread); non-trivial = both a producer step and a subscriber "
             "step were realised at their gate points; distinct by (kind, schedule)",
        exhaustive=False)


def replay(path, seed):
    with open(path) as f:
        rep = json.load(f)
    case = rep["case"]
    if case.get("engine") == "join_hold":
        wd = workdir(PROP + "-replay")
        res = run_harness("join_hold", [case["case"]], wd, "replay")[0]
        print(json.dumps(res))
        if res["held"] and res["delivered"] != res["log_seqs"]:
            print(f"VIOLATION property={PROP} replay={path}")
            return 1
        return 0
    if case.get("engine") == "suite":
        from .. import suite
        return suite.replay(PROP, path, case)
    wd = workdir(PROP + "-replay")
    res = run_harness("sub", [case["case"]], wd, "replay")[0]
    print(json.dumps({"delivered": res["delivered"], "total": res["total"], "steps": res["steps"]}))
    if res["delivered"] != list(range(res["total"])):
        print(f"VIOLATION property={PROP} replay={path}")
        return 1
    return 0
