"""C07 — run lifecycle frames are complete, unique and causally ordered.

 RunLoop.tla gives, for every provider script, the exact sequence of frames a run appends to its
 thread (message, run_spawned, selection_decided, context_compiled, one side_effects frame per
 executed lock-path tool, cursor_updated iff completed with a response id, run_ended); TLC proves
 Ordered on all scripts and prints one script per distinct predicted run.  The scripted provider
 plays each against the real router (text, tool calls, malformed JSON, schema-invalid events,
 HTTP 500, connection reset mid-body, end without [DONE], empty body).  Compared: the thread's
 frame kinds; the session stream (start frame at seq 0, exactly one end frame, last, contiguous
 seqs); run_ended after the run's session_ended in file order.  Further scenarios: tool and
 checkpoint envelopes, no provider, dead endpoint, context compilation failure, two runs in
 parallel on one thread, compaction jobs whose body fails (job_ended at most once).
 Generated histories (random operation sequences over the alphabet of ./check C03) are run for real
 and the whole log, in file order, is validated by TLC against LifecycleTrace.tla (message, run,
 session and job state machines; no prediction needed); corrupted copies must be rejected."""
import json

from .. import tlc, runloop
from ..common import Verdict, workdir, run_harness, log, die_tool

PROP = "C07"
KIND = runloop.KIND


def session_problems(sf):
    out = []
    if not sf:
        return ["session stream is empty"]
    if sf[0]["type"] != "session_started" or sf[0]["seq"] != 0:
        out.append(f"session stream does not start with session_started@0 (first: {sf[0]['type']}@{sf[0]['seq']})")
    ends = [i for i, f in enumerate(sf) if f["type"] == "session_ended"]
    if len(ends) != 1:
        out.append(f"session stream has {len(ends)} session_ended frames")
    elif ends[0] != len(sf) - 1:
        out.append(f"frames follow session_ended: {[f['type'] for f in sf[ends[0] + 1:]]}")
    seqs = [f["seq"] for f in sf]
    if seqs != list(range(len(seqs))):
        out.append(f"session seqs not contiguous: {seqs}")
    return out


def lifecycle_problems(res):
    """Checks that need no model: per message one run_spawned, per run one run_ended after session_ended, order, jobs."""
    out = []
    tf = res["thread_frames"]
    tid = res["thread_id"]
    msgs = [f["id"] for f in tf if f["type"] == "continuity_message_appended"]
    for m in msgs:
        n = sum(1 for f in tf if f["type"] == "continuity_run_spawned" and f["message_id"] == m)
        if n != 1:
            out.append(f"message has {n} run_spawned frames")
    runs = [f["run_session_id"] for f in tf if f["type"] == "continuity_run_spawned"]
    order = res["order"]
    for r in runs:
        ended = [i for i, o in enumerate(order) if o[0] == tid and o[1] == "continuity_run_ended"]
        mine = [f for f in tf if f["type"] == "continuity_run_ended" and f["run_session_id"] == r]
        if len(mine) != 1:
            out.append(f"run has {len(mine)} run_ended frames")
            continue
        pos_run_ended = next(i for i, o in enumerate(order) if o[0] == tid and o[1] == "continuity_run_ended" and o[2] == mine[0]["seq"])
        pos_sess_end = [i for i, o in enumerate(order) if o[0] == r and o[1] == "session_ended"]
        if not pos_sess_end or pos_sess_end[-1] > pos_run_ended:
            out.append("run_ended does not follow the run's session_ended in file order")
        after = [f["type"] for f in tf if f["seq"] > mine[0]["seq"] and f.get("run_session_id") == r]
        if after:
            out.append(f"thread frames of the run after its run_ended: {after}")
        sel = [f["seq"] for f in tf if f["type"] == KIND["selection_decided"] and f["run_session_id"] == r]
        comp = [f["seq"] for f in tf if f["type"] == KIND["context_compiled"] and f["run_session_id"] == r]
        rest = [f["seq"] for f in tf if f["type"] in (KIND["side_effects"], KIND["cursor_updated"]) and f.get("run_session_id") == r]
        if sel and comp and not (sel[0] < comp[0]):
            out.append("context_compiled precedes selection_decided")
        if comp and any(q < comp[0] for q in rest):
            out.append("side effects / cursor frame precedes context_compiled")
    jobs = {}
    for f in tf:
        if f["type"] == "continuity_job_ended":
            jobs[f["job_id"]] = jobs.get(f["job_id"], 0) + 1
    for j, n in jobs.items():
        if n > 1:
            out.append(f"job ended {n} times")
    return out


# ------------------------------------------------------------------ arbitrary histories against the life-cycle state machines
def lifecycle_events(cid, order):
    """the log of one history, in file order, as LifecycleTrace events."""
    ev = [{"ev": "reset", "case": cid}]
    T = {"continuity_run_spawned": "rs", KIND["selection_decided"]: "sel", KIND["context_compiled"]: "comp", KIND["side_effects"]: "fx",
         "continuity_run_ended": "re", "continuity_job_spawned": "js", "continuity_job_ended": "je"}
    for o in order:
        t, k = o["type"], o.get("kind")
        if k == "session" or (k is None and t in ("session_started", "session_ended")):
            ev.append({"ev": {"session_started": "ss", "session_ended": "se"}.get(t, "sf"), "s": o["sid"], "seq": o["seq"]})
        elif t == "continuity_message_appended":
            ev.append({"ev": "msg", "m": o["m"]})
        elif t in T and (T[t] in ("js", "je") or o.get("r")):
            e = {"ev": T[t]}
            if T[t] in ("js", "je"):
                e["j"] = o.get("j") or ""
            else:
                e["r"] = o["r"]
                if T[t] == "rs":
                    e["m"] = o.get("m") or ""
            ev.append(e)
        elif t == KIND["cursor_updated"] and o.get("r"):
            ev.append({"ev": "cur", "r": o["r"]})
        elif k == "continuity" and o.get("r"):
            ev.append({"ev": "lk", "r": o["r"]})
        else:
            ev.append({"ev": "other"})
    ev.append({"ev": "end"})
    return ev


def history_family(v, wd, n, seed, replay_case=None):
    """generated histories (the alphabet of ./check C03) through the real router; the whole log in file order is validated by TLC
    against LifecycleTrace.  Three corrupted copies of a recorded history must be rejected (the validation is not vacuous)."""
    from . import c03
    import os
    from ..common import write_ndjson
    sc = [replay_case] if replay_case else c03.generated_scenarios(n, seed + 1000)
    for c in sc:
        c["id"] = c["id"].replace("gen-", "hist-")
    results = run_harness("fidelity", [{k: x for k, x in c.items() if not k.startswith("_")} for c in sc], wd, "life", shards=min(len(sc), 14), timeout=1800)
    by_id = {c["id"]: c for c in sc}
    events, lines_of = [], {}
    for res in results:
        ev = lifecycle_events(res["id"], res["order"])
        lines_of[res["id"]] = (len(events), ev)
        events += ev
        v.add_eval({"history": res["id"], "frames": len(res["order"])}, True)
    # corrupted copies
    expected_flags = {}
    donor = next((ev for _, ev in lines_of.values() if any(e["ev"] == "re" for e in ev) and any(e["ev"] == "comp" for e in ev)), None)
    if donor and not replay_case:
        i_re = next(i for i, e in enumerate(donor) if e["ev"] == "re")
        i_se = max(i for i, e in enumerate(donor[:i_re]) if e["ev"] == "se" and e["s"] == donor[i_re]["r"])
        i_comp = next(i for i, e in enumerate(donor) if e["ev"] == "comp")
        muts = {"mut-two-run-ended": donor[:i_re + 1] + [donor[i_re]] + donor[i_re + 1:],
                "mut-run-ended-before-session-ended": donor[:i_se] + donor[i_se + 1:i_re + 1] + [donor[i_se]] + donor[i_re + 1:],
                "mut-compiled-before-selection": donor[:i_comp - 1] + [donor[i_comp], donor[i_comp - 1]] + donor[i_comp + 1:] if donor[i_comp - 1]["ev"] == "sel" else None}
        want = {"mut-two-run-ended": "RunEndedOnceAfterSpawn", "mut-run-ended-before-session-ended": "RunEndedFollowsItsSessionEnded", "mut-compiled-before-selection": "CompiledOnceAfterSelection"}
        for mid, ev in muts.items():
            if ev:
                events += [dict(ev[0], case=mid)] + ev[1:]
                expected_flags[mid] = want[mid]
    p = os.path.join(wd, "lifecycle.ndjson")
    write_ndjson(p, events)
    r, rej = tlc.validate_trace("LifecycleTrace", "LifecycleTrace.cfg", p, timeout=900, heap="4g")
    v.add_tlc(r, f"LifecycleTrace: {len(results)} generated histories ({len(events)} log lines in file order) against the message / run / session / job state machines")
    if rej or r.errors or r.violated or r.timed_out:
        log(r.out[-3000:])
        die_tool(f"LifecycleTrace failed: {rej or r.errors or r.violated}")
    bad = []
    for tag, val in r.prints:
        if tag == "BAD":
            bad = val
    flagged = {}
    for cid, line, name in bad:
        flagged.setdefault(cid, []).append((line, name))
    for mid, name in expected_flags.items():
        if name not in [n_ for _, n_ in flagged.get(mid, [])]:
            die_tool(f"LifecycleTrace accepted the corrupted history {mid} (expected {name}): the validation is vacuous")
    v.cov["lifecycle_corrupted_histories_rejected"] = len(expected_flags)
    for cid, fl in flagged.items():
        if cid.startswith("mut-"):
            continue
        start, ev = lines_of[cid]
        for line, name in sorted(fl)[:3]:
            e = ev[line - 1 - start] if 0 <= line - 1 - start < len(ev) else {}
            c = by_id[cid]
            v.violation(f"history {cid} (steps {c.get('_names')}): {name} is false at log line {line - 1 - start} ({e})",
                        {"engine": "history", "guard": name, "case": {k: x for k, x in c.items() if not k.startswith("_")}})
    v.cov["generated_histories"] = len(results)
    # the same histories, every stream of the store (threads, sessions, tasks), against the composition's monitor in
    # its strict form: numbering of every stream, opening frames, lineage position, task life cycle on top of the above
    from .. import suite
    sev, sowner = [], []
    for res in results:
        sev.append({"ev": "reset", "case": res["id"]})
        sowner.append(res["id"])
        for o in res["order"]:
            sev.append(suite.frame_event({"stream_kind": o.get("kind") or "session", "type": o["type"], "stream_id": o["sid"], "seq": o["seq"],
                                          "run_session_id": o.get("r"), "message_id": o.get("m"), "id": o.get("m"), "job_id": o.get("j"), "status": o.get("st"),
                                    "to_seq": o.get("to_seq"), "to_message_id": o.get("to_message_id"), "parent_thread_id": o.get("parent_thread_id"),
                                    "parent_seq": o.get("parent_seq"), "parent_message_id": o.get("parent_message_id"), "tool_id": o.get("tool_id")}))
            sowner.append(res["id"])
    p2 = os.path.join(wd, "system.ndjson")
    write_ndjson(p2, sev)
    r2, rej2 = tlc.validate_trace("SystemTrace", "SystemTrace_strict.cfg", p2, timeout=900, heap="4g")
    v.add_tlc(r2, f"SystemTrace (strict): the {len(results)} generated histories, every stream, against the monitor half of System.tla")
    if rej2 or r2.errors or r2.violated or r2.timed_out:
        log(r2.out[-3000:])
        die_tool(f"SystemTrace failed: {rej2 or r2.errors or r2.violated}")
    for tag, val in r2.prints:
        if tag == "BAD":
            for line, name in val[:20]:
                cid = sowner[line - 1]
                if suite.GUARD_PROP.get(name) != PROP:
                    continue        # numbering, lineage and task guards have their own checks (C01, C10, C17) on their own runs
                c = by_id[cid]
                v.violation(f"history {cid} (steps {c.get('_names')}): {name} is false at {sev[line - 1]}",
                            {"engine": "history", "guard": name, "case": {k: x for k, x in c.items() if not k.startswith("_")}})
            v.cov["system_monitor_flags_other_properties"] = sorted({f"{name}" for line, name in val if suite.GUARD_PROP.get(name) != PROP})
    return len(results)


def run(tier, seed):
    v = Verdict(PROP, tier, seed)
    wd = workdir(PROP)
    thorough = tier == "thorough"
    g = runloop.generate("GenRunLoop_t.cfg" if thorough else "GenRunLoop_q.cfg")
    v.add_tlc(g, "GenRunLoop: one provider script per distinct predicted run; the model's thread frame sequence is the oracle (Ordered proved by RunLoop_mc in ./check C16 thorough)")
    if not g.ok or not g.cases:
        log(g.out[-1500:])
        die_tool("GenRunLoop failed")
    if thorough:
        r = tlc.run("MCRunLoop", "RunLoop_mc.cfg", workers=8, timeout=1800, heap="8g")
        v.add_tlc(r, "RunLoop: Ordered (+ C16 invariants) over all scripts")
        if not r.ok:
            die_tool("RunLoop.tla violates its invariants")
    cases = []
    for i, gc in enumerate(g.cases):
        c = runloop.case_of(gc, i)
        c["_gc"] = gc
        cases.append(c)
    # ---- scenarios outside the provider-script space
    extra = [
        {"id": "tool_envelope", "no_provider": True, "input": json.dumps({"tool": "write", "args": {"path": "e.txt", "content": "x"}}), "_thread": ["message", "run_spawned", "side_effects", "run_ended"]},
        {"id": "tool_envelope_ro", "no_provider": True, "input": json.dumps({"tool": "ls", "args": {"path": "."}}), "_thread": ["message", "run_spawned", "run_ended"]},
        {"id": "tool_envelope_unknown", "no_provider": True, "input": json.dumps({"tool": "nope", "args": {}}), "_thread": ["message", "run_spawned", "side_effects", "run_ended"]},
        {"id": "tool_envelope_timeout", "no_provider": True, "input": json.dumps({"tool": "bash", "args": {"command": "sleep 2"}, "timeout_ms": 50}), "_thread": ["message", "run_spawned", "side_effects", "run_ended"]},
        {"id": "checkpoint_envelope", "no_provider": True, "input": json.dumps({"checkpoint": {"action": "create", "label": "l", "files": ["a.txt"]}}), "ws_files": {"a.txt": "1"}, "_thread": ["message", "run_spawned", "run_ended"]},
        {"id": "rewind_unknown", "no_provider": True, "input": json.dumps({"checkpoint": {"action": "rewind", "id": "nope"}}), "_thread": ["message", "run_spawned", "run_ended"]},
        {"id": "prompt_no_provider", "no_provider": True, "input": "hello", "_thread": ["message", "run_spawned", "run_ended"]},
        {"id": "dead_endpoint", "dead_endpoint": True, "script": [], "input": "hello", "_thread": ["message", "run_spawned", "selection_decided", "context_compiled", "run_ended"]},
        # a provider that ignores tool_choice and asks for a barred tool in every response, more often than the per-run budget
        # of tool calls: the run still ends (one run_ended, after its session ended)
        {"id": "barred_forever_none", "script": [runloop.response_json({"outcome": "done", "rid": True, "calls": [{"cid": f"x{k}", "tool": "write", "idx": 0, "dup": False}]}, k) for k in range(8)],
         "input": "go on", "config": {"tool_choice": runloop.CHOICE["none"], "stateless_history": False}, "timeout_ms": 25000, "_thread": None, "repeat_last": True},
        {"id": "barred_forever_fn", "script": [runloop.response_json({"outcome": "done", "rid": True, "calls": [{"cid": f"y{k}", "tool": "write", "idx": 0, "dup": False}]}, k) for k in range(8)],
         "input": "go on", "config": {"tool_choice": runloop.CHOICE["fn_ls"], "stateless_history": True}, "timeout_ms": 25000, "_thread": None, "repeat_last": True},
        # the snapshot of the run's session cannot be written at the end of the run: the run is closed all the same
        {"id": "snapshot_unwritable_tool", "no_provider": True, "input": json.dumps({"tool": "write", "args": {"path": "s.txt", "content": "x"}}),
         "pre": [{"do": "break_snapshots_dir"}], "_thread": ["message", "run_spawned", "side_effects", "run_ended"]},
        {"id": "snapshot_unwritable_prompt", "script": [{"status": 200, "chunks": ["data: [DONE]\n\n"]}] * 2, "input": "hello",
         "pre": [{"do": "post_message_wait", "content": "first"}, {"do": "break_snapshots_dir"}], "_thread": None},
        {"id": "snapshot_unwritable_dead_endpoint", "dead_endpoint": True, "script": [], "input": "hello", "pre": [{"do": "break_snapshots_dir"}],
         "_thread": ["message", "run_spawned", "selection_decided", "context_compiled", "run_ended"]},
        {"id": "compile_failure", "script": [{"status": 200, "chunks": ["data: [DONE]\n\n"]}] * 3, "input": "third",
         "pre": [{"do": "post_message_wait", "content": "first"}, {"do": "post_message_wait", "content": "second"},
                 {"do": "checkpoint_last_message"}, {"do": "delete_artifacts"}], "_thread": None},
        {"id": "parallel_runs", "no_provider": True, "parallel": True,
         "inputs": [json.dumps({"tool": "write", "args": {"path": "p1.txt", "content": "1"}}), json.dumps({"tool": "bash", "args": {"command": "echo hi"}}),
                    "plain prompt"], "_thread": None},
        {"id": "job_failure_auto", "no_provider": True, "input": "after",
         "pre": [{"do": "post_message_wait", "content": "m1"}, {"do": "post_message_wait", "content": "m2"}, {"do": "break_artifacts_dir"}, {"do": "auto"}], "_thread": None},
        {"id": "job_failure_schedule", "no_provider": True, "input": "after",
         "pre": [{"do": "post_message_wait", "content": "m1"}, {"do": "post_message_wait", "content": "m2"}, {"do": "break_artifacts_dir"}, {"do": "schedule"}], "_thread": None},
        {"id": "job_ok", "no_provider": True, "input": "after",
         "pre": [{"do": "post_message_wait", "content": "m1"}, {"do": "post_message_wait", "content": "m2"}, {"do": "auto"}, {"do": "schedule"}], "_thread": None},
    ]
    # operations on the thread AFTER a run has ended (its cursor carries the run's id) must not add frames to that run
    sse = runloop.sse
    rid_resp = {"status": 200, "chunks": [sse({"type": "response.created", "response": {"id": "resp_a"}}) + sse({"type": "response.output_text.delta", "delta": "ok"}) + "data: [DONE]\n\n"]}
    extra.append({"id": "after_run_ops", "script": [rid_resp, rid_resp, rid_resp], "input": "third",
                  "pre": [{"do": "post_message_wait", "content": "first"}, {"do": "rotate"}, {"do": "post_message_wait", "content": "second"},
                          {"do": "checkpoint_last_message"}, {"do": "rotate"}, {"do": "auto"}, {"do": "schedule"}], "_thread": None})
    # provider HTTP errors whose body is long and made of multi-byte characters at every alignment (whatever the code does with the
    # body - echo, cap, summarise - the run must still end)
    for status in (500, 502):
        for nm, ch in (("2byte", "é"), ("3byte", "漢"), ("4byte", "😀")):
            for pad in range(len(ch.encode())):
                if status == 502 and pad > 0 and not thorough:
                    continue
                extra.append({"id": f"http{status}_body_{nm}_pad{pad}", "script": [{"status": status, "content_type": "text/plain; charset=utf-8", "chunks": ["x" * pad + ch * 24000]}],
                              "input": "hello", "_thread": None})
    extra.append({"id": "http500_body_invalid_utf8", "script": [{"status": 500, "content_type": "application/octet-stream", "chunks": [{"hex": "ff" * 5000 + "c3"}]}], "input": "hello", "_thread": None})
    for e in extra:
        e.setdefault("linked", True)
        e.setdefault("timeout_ms", 20000)
        cases.append(e)
    results = run_harness("runs", [{k: c[k] for k in c if not k.startswith("_")} for c in cases], wd, "runs", shards=12, timeout=3000)
    by_id = {c["id"]: c for c in cases}
    for res in results:
        c = by_id[res["id"]]
        gc = c.get("_gc")
        rep = {"engine": "runs", "case": {k: c[k] for k in c if not k.startswith("_")}}
        v.add_eval({"case": c["id"]} if not gc else {"cfg": gc["cfg"], "script": gc["script"]}, True if not gc else gc["script"][-1]["outcome"] != "done" or any(r["calls"] for r in gc["script"]))
        if res["timed_out"]:
            v.violation(f"run did not end ({c['id']}): thread {[f['type'] for f in res['thread_frames']]}", rep)
            continue
        problems = []
        for sf in res["session_frames"]:
            problems += session_problems(sf)
        problems += lifecycle_problems(res)
        want = None
        if gc:
            want = [KIND[k] for k in gc["run"]["thread"]]
        elif c.get("_thread"):
            want = [KIND[k] for k in c["_thread"]]
        if want is not None:
            got = runloop.thread_kinds(res["thread_frames"], None)
            if got != want:
                problems.append(f"thread frames {[k.replace('continuity_', '') for k in got]} differ from the reference {[k.replace('continuity_', '') for k in want]}")
        if gc:
            sf = res["session_frames"][-1]
            reason = next((f["reason"] for f in sf if f["type"] == "session_ended"), None)
            want_reason = "completed" if gc["run"]["reason"] == "script_exhausted" else gc["run"]["reason"]
            if reason != want_reason:
                problems.append(f"terminal reason {reason}, reference {want_reason}")
        for p in problems:
            v.violation(f"{p} [{c['id']}{'' if not gc else ' cfg=' + json.dumps(gc['cfg']) + ' script=' + json.dumps([(r['outcome'], r['rid'], len(r['calls'])) for r in gc['script']])}]", dict(rep, model=gc))
        if len(v.cov["samples"]) < 3 and gc and len(gc["script"]) >= 2 and gc["script"][-1]["outcome"] in ("drop", "http500"):
            v.sample({"cfg": gc["cfg"], "script": [(r["outcome"], r["rid"], [(x["cid"], x["tool"]) for x in r["calls"]]) for r in gc["script"]],
                      "predicted_thread": gc["run"]["thread"], "observed_thread": [f["type"] for f in res["thread_frames"]][1:],
                      "session_end_reason": next((f["reason"] for f in res["session_frames"][-1] if f["type"] == "session_ended"), None)})
    nh = history_family(v, wd, 300 if thorough else 24, seed)
    v.cov["traces_validated_against_impl"] = len(results) + nh
    v.assumptions += ["provider behaviours are the six response outcomes x call items of the alphabet; byte-level variety is C15's"]
    # the repository's own tests as drivers: every recorded execution against the monitor half of System.tla
    from .. import suite
    suite.check(v, wd)
    suite.design_check_deviations_only(v, [("System_dev_runend.cfg", "MonitorAccepts")])
    return v.finish(
        rule="cases = one provider script per distinct predicted run of RunLoop.tla + 14 scenarios (envelopes, no provider, dead endpoint, compile failure, parallel runs, failing / succeeding compaction jobs, operations after a run) "
             "+ generated histories (random operation sequences; whole log in file order validated against LifecycleTrace); "
             "non-trivial = the script has a tool call or does not end with a clean [DONE]; distinct by (configuration, script) / scenario id",
        exhaustive=True)


def replay(path, seed):
    with open(path) as f:
        rep = json.load(f)
    case = rep["case"]
    if case.get("engine") == "suite":
        from .. import suite
        return suite.replay(PROP, path, case)
    wd = workdir(PROP + "-replay")
    if case.get("engine") == "history":
        v = Verdict(PROP, "replay", seed)
        history_family(v, wd, 1, seed, replay_case=dict(case["case"]))
        for what, _ in v.violations:
            print(what[:400])
        if v.violations:
            print(f"VIOLATION property={PROP} replay={path}")
            return 1
        return 0
    res = run_harness("runs", [case["case"]], wd, "replay")[0]
    problems = []
    for sf in res["session_frames"]:
        problems += session_problems(sf)
    problems += lifecycle_problems(res)
    gc = case.get("model")
    if gc:
        want = [KIND[k] for k in gc["run"]["thread"]]
        got = runloop.thread_kinds(res["thread_frames"], None)
        if got != want:
            problems.append(f"thread {got} vs {want}")
    print(json.dumps({"thread": [f["type"] for f in res["thread_frames"]], "problems": problems}, indent=1))
    if problems:
        print(f"VIOLATION property={PROP} replay={path}")
        return 1
    return 0
