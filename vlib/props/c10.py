"""C10 — branch and handoff record correct lineage and never touch the parent.

 Threads.tla: EffLineage gives, for every selector class (none / from_seq in, at and beyond the
 head / from_message_id of a message, of a non-message frame, unknown / both; handoff summary as
 text, artifact id, neither, both), whether the call succeeds, the recorded cut and message and
 the child's first two frames; TLC proves LineageSound on every reachable state (cut within the
 parent, names the last message at or before it, parent untouched).  The harness executes every
 lineage transition of every state on the real store: answer, the bytes added to events.jsonl
 (all on the child stream: created@0, lineage@1, nothing on the parent) and the handoff summary
 read back."""
import json

from .. import threads
from ..common import Verdict, workdir, run_harness

PROP = "C10"


def post_for(o, e, gc):
    if e["ok"]:
        return [{"op": "lineage_check", "t": "last"}]
    return None


def run(tier, seed):
    v = Verdict(PROP, tier, seed)
    wd = workdir(PROP)
    cfg = "GenThreads_c10t.cfg" if tier == "thorough" else "GenThreads_c10q.cfg"
    rows = threads.run_transitions(v, wd, cfg, lambda o: o["op"] in threads.LINEAGE, post_for,
                                   inplace=lambda o: True)   # lineage never touches the source thread: run in place
    for c, gc, k, o, e, r in rows:
        v.add_eval({"state": gc["path"], "op": o}, len(gc["path"]) >= 1)
        rep = {"engine": "trans", "case": {"id": c["id"], "path": c["path"], "trans": [c["trans"][k]]}, "model_op": o, "predicted": e}
        diffs = threads.compare(o, e, r, 0)
        for cat, detail in diffs:
            if cat == "log":
                continue
            key = None
            v.violation(f"{cat}: {o['op']} selector x={o['x']} y={o['y']} z={o['z']} after {len(gc['path'])} ops: {json.dumps(detail)[:400]}",
                        dict(rep, detail=detail), key=key)
        if e["ok"] and r["ok"] and not diffs:
            newf = r["log"]["new_frames"]
            parent = f"T{o['t'] - 1}"
            if any(f["stream"] == parent for f in newf):
                v.violation(f"{o['op']} appended to the source thread", dict(rep, detail=[f["kind"] for f in newf]))
            if [f["seq"] for f in newf] != [0, 1] or len({f["stream"] for f in newf}) != 1:
                v.violation(f"{o['op']}: new thread does not start with creation@0, lineage@1: {[(f['stream'], f['seq'], f['kind']) for f in newf]}",
                            dict(rep, detail=None))
            post = r.get("post")
            if post and o["op"] == "handoff":
                s = post[0]["ret"]["summary"]
                # the code resolves a handoff's summary through its artifact (the bundle is written when only text is given)
                resolvable = bool(s) and s.get("artifact_readable") is True
                named_unreadable = bool(s) and s.get("artifact_named") and s.get("artifact_readable") is False
                if not resolvable or named_unreadable:
                    key = "D16a-handoff-unknown-artifact" if o["z"] in (1, 3) else None
                    v.violation(f"handoff recorded a summary that cannot be resolved: {s} (selector z={o['z']})", dict(rep, detail=s), key=key)
        if len(v.cov["samples"]) < 3 and e["ok"] and o["x"] == 2:
            v.sample({"path": c["path"], "op": c["trans"][k]["op"], "predicted": e, "real": r["ret"],
                      "new_frames": [(f["stream"], f["seq"], f["kind"]) for f in r["log"]["new_frames"]]})
    # ---- the artifact store cannot be written (its blobs directory is a plain file): a handoff given only text must fail and
    #      record nothing; once the store is mended it works again
    hist = []
    for n, extra in enumerate(([], [{"op": "run_spawned", "t": 0, "m": 0, "s": 0}, {"op": "run_ended", "t": 0, "m": 0, "s": 0}])):
        base = [{"op": "ensure_default"}, {"op": "message", "t": 0}] + extra + [{"op": "message", "t": 0}]
        hist.append({"id": f"fault{n}", "ops": base + [{"op": "break_artifacts"}, {"op": "handoff", "t": 0, "summary": "summary text"},
                                                       {"op": "handoff", "t": 0, "summary": "summary text", "from_msg": 0}, {"op": "handoff_frames"},
                                                       {"op": "mend_artifacts"}, {"op": "handoff", "t": 0, "summary": "summary text"}, {"op": "handoff_frames"}]})
    for r in run_harness("hist", hist, wd, "fault", shards=2, timeout=300):
        res = r["results"]
        v.add_eval({"artifact_fault": r["id"]}, True)
        tail = res[-7:]
        bad1 = tail[3]["ret"] or []
        bad2 = tail[6]["ret"] or []
        rep = {"engine": "hist", "case": [h for h in hist if h["id"] == r["id"]][0]}
        for fr in bad1 + bad2:
            if not (fr.get("artifact_named") and fr.get("artifact_readable")):
                v.violation(f"a handoff lineage frame without a resolvable summary artifact was recorded while the artifact store could not be written: {fr}", rep)
                break
        if tail[1]["ok"] or tail[2]["ok"]:
            if not any(not (fr.get("artifact_named") and fr.get("artifact_readable")) for fr in bad1):
                v.drift({"case": r["id"], "note": "handoff succeeded although the artifact store is a plain file"})
        if not tail[5]["ok"]:
            v.violation(f"handoff still fails after the artifact store was mended: {str(tail[5]['ret'])[:160]}", rep)
    v.assumptions += ["source threads <= MaxFrames frames (exhaustive within the configuration)"]
    return v.finish(
        rule="cases = (distinct store state, branch/handoff request) pairs: every selector class of Threads.tla!OpsFor; "
             "non-trivial = the source thread has at least one frame beyond its creation; distinct by (state path, op descriptor)",
        exhaustive=True)


def replay(path, seed):
    with open(path) as f:
        rep = json.load(f)
    case = rep["case"]
    wd = workdir(PROP + "-replay")
    res = run_harness("trans", [case["case"]], wd, "replay")[0]
    r = res["trans"][0]
    diffs = [d for d in threads.compare(case["model_op"], case["predicted"], r, 0) if d[0] != "log"]
    print(json.dumps({"real": r["ret"], "new": [f["kind"] for f in r["log"]["new_frames"]], "post": r.get("post"), "diffs": diffs}, indent=1)[:3000])
    bad = bool(diffs)
    post = r.get("post")
    if post and case["model_op"]["op"] == "handoff" and r["ok"]:
        s = post[0]["ret"]["summary"]
        if s and s.get("artifact_named") and s.get("artifact_readable") is False:
            bad = True
    if bad:
        print(f"VIOLATION property={PROP} replay={path}")
        return 1
    return 0
