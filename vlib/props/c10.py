"""C10 — branch and handoff record correct lineage and never touch the parent.

 Threads.tla: EffLineage gives, for every selector class (none / from_seq in, at and beyond the
 head / from_message_id of a message, of a non-message frame, unknown / both; handoff summary as
 text, artifact id, neither, both), whether the call succeeds, the recorded cut and message and
 the child's first two frames; TLC proves LineageSound on every reachable state (cut within the
 parent, names the last message at or before it, parent untouched).  The harness executes every
 lineage transition of every state on the real store: answer, the bytes added to events.jsonl
 (all on the child stream: created@0, lineage@1, nothing on the parent) and the handoff summary
 read back."""
import json

from .. import threads
from ..common import Verdict, workdir, run_harness

PROP = "C10"


def post_for(o, e, gc):
    if e["ok"]:
        return [{"op": "lineage_check", "t": "last"}]
    return None


def run(tier, seed):
    v = Verdict(PROP, tier, seed)
    wd = workdir(PROP)
    cfg = "GenThreads_c10t.cfg" if tier == "thorough" else "GenThreads_c10q.cfg"
    rows = threads.run_transitions(v, wd, cfg, lambda o: o["op"] in threads.LINEAGE, post_for,
                                   inplace=lambda o: True)   # lineage never touches the source thread: run in place
    for c, gc, k, o, e, r in rows:
        v.add_eval({"state": gc["path"], "op": o}, len(gc["path"]) >= 1)
        rep = {"engine": "trans", "case": {"id": c["id"], "path": c["path"], "trans": [c["trans"][k]]}, "model_op": o, "predicted": e}
        diffs = threads.compare(o, e, r, 0)
        for cat, detail in diffs:
            if cat == "log":
                continue
            key = None
            v.violation(f"{cat}: {o['op']} selector x={o['x']} y={o['y']} z={o['z']} after {len(gc['path'])} ops: {json.dumps(detail)[:400]}",
                        dict(rep, detail=detail), key=key)
        if e["ok"] and r["ok"] and not diffs:
            newf = r["log"]["new_frames"]
            parent = f"T{o['t'] - 1}"
            if any(f["stream"] == parent for f in newf):
                v.violation(f"{o['op']} appended to the source thread", dict(rep, detail=[f["kind"] for f in newf]))
            if [f["seq"] for f in newf] != [0, 1] or len({f["stream"] for f in newf}) != 1:
                v.violation(f"{o['op']}: new thread does not start with creation@0, lineage@1: {[(f['stream'], f['seq'], f['kind']) for f in newf]}",
                            dict(rep, detail=None))
            post = r.get("post")
            if post and o["op"] == "handoff":
                s = post[0]["ret"]["summary"]
                # the code resolves a handoff's summary through its artifact (the bundle is written when only text is given)
                resolvable = bool(s) and s.get("artifact_readable") is True
                named_unreadable = bool(s) and s.get("artifact_named") and s.get("artifact_readable") is False
                if not resolvable or named_unreadable:
                    key = "D16a-handoff-unknown-artifact" if o["z"] in (1, 3) else None
                    v.violation(f"handoff recorded a summary that cannot be resolved: {s} (selector z={o['z']})", dict(rep, detail=s), key=key)
        if len(v.cov["samples"]) < 3 and e["ok"] and o["x"] == 2:
            v.sample({"path": c["path"], "op": c["trans"][k]["op"], "predicted": e, "real": r["ret"],
                      "new_frames": [(f["stream"], f["seq"], f["kind"]) for f in r["log"]["new_frames"]]})
    # ---- the artifact store cannot be written (its blobs directory is a plain file): a handoff given only text must fail and
    #      record nothing; once the store is mended it works again
    hist = []
    for n, extra in enumerate(([], [{"op": "run_spawned", "t": 0, "m": 0, "s": 0}, {"op": "run_ended", "t": 0, "m": 0, "s": 0}])):
        base = [{"op": "ensure_default"}, {"op": "message", "t": 0}] + extra + [{"op": "message", "t": 0}]
        hist.append({"id": f"fault{n}", "ops": base + [{"op": "break_artifacts"}, {"op": "handoff", "t": 0, "summary": "summary text"},
                                                       {"op": "handoff", "t": 0, "summary": "summary text", "from_msg": 0}, {"op": "handoff_frames"},
                                                       {"op": "mend_artifacts"}, {"op": "handoff", "t": 0, "summary": "summary text"}, {"op": "handoff_frames"}]})
    for r in run_harness("hist", hist, wd, "fault", shards=2, timeout=300):
        res = r["results"]
        v.add_eval({"artifact_fault": r["id"]}, True)
        tail = res[-7:]
        bad1 = tail[3]["ret"] or []
        bad2 = tail[6]["ret"] or []
        rep = {"engine": "hist", "case": [h for h in hist if h["id"] == r["id"]][0]}
        for fr in bad1 + bad2:
            if not (fr.get("artifact_named") and fr.get("artifact_readable")):
                v.violation(f"a handoff lineage frame without a resolvable summary artifact was recorded while the artifact store could not be written: {fr}", rep)
                break
        if tail[1]["ok"] or tail[2]["ok"]:
            if not any(not (fr.get("artifact_named") and fr.get("artifact_readable")) for fr in bad1):
                v.drift({"case": r["id"], "note": "handoff succeeded although the artifact store is a plain file"})
        if not tail[5]["ok"]:
            v.violation(f"handoff still fails after the artifact store was mended: {str(tail[5]['ret'])[:160]}", rep)
    # ---- the cut does not depend on the state of the source thread's cache files: with the per-thread sidecar (or its
    #      message-and-run view) torn in its last line, cut short, overwritten or missing - with and without a restart - the next
    #      branch / handoff must record the same cut and message as on the intact store (Threads.tla: EffLineage is a function
    #      of the thread's frames in the log).  Faults that leave a readable but stale file are C04's findings and are not used.
    run_pair = [{"op": "run_spawned", "t": 0, "m": 0, "s": 0}, {"op": "run_ended", "t": 0, "m": 0, "s": 0}]
    bases = {"ends_with_run_ended": ([{"op": "ensure_default"}, {"op": "message", "t": 0}] + run_pair, 3, 0),
             "ends_with_message": ([{"op": "ensure_default"}, {"op": "message", "t": 0}] + run_pair + [{"op": "message", "t": 0}], 4, 1)}
    fhist = []
    for bname, (base, head, last_msg) in bases.items():
        for kind in ("branch", "handoff"):
            for sel_name, sel in (("none", {}), ("from_seq_head", {"from_seq": head}), ("from_last_message", {"from_msg": last_msg}), ("from_first_message", {"from_msg": 0})):
                op = dict({"op": kind, "t": 0}, **sel)
                if kind == "handoff":
                    op["summary"] = "summary text"
                tail = [op, {"op": "lineage_check", "t": 1}]
                ref = f"cf-{bname}-{kind}-{sel_name}-ref"
                fhist.append({"id": ref, "ops": base + [{"op": "restart"}] + tail})
                for file in ("full", "mr"):
                    for fk in ("tear_last_line", "truncate", "garbage", "delete"):
                        for restart in (True, False):
                            if tier != "thorough" and not restart and fk in ("garbage", "delete"):
                                continue
                            fhist.append({"id": f"cf-{bname}-{kind}-{sel_name}-{file}-{fk}-{'restart' if restart else 'warm'}",
                                          "ops": base + [{"op": "fault", "t": 0, "file": file, "kind": fk}] + ([{"op": "restart"}] if restart else []) + tail,
                                          "_ref": ref, "_what": f"{fk} of the {'sidecar' if file == 'full' else 'message-and-run view'}" + (" and a restart" if restart else "")})
    fres = {r["id"]: r for r in run_harness("hist", [{k: h[k] for k in h if not k.startswith("_")} for h in fhist], wd, "cfault", shards=8, timeout=900)}

    def lineage_answer(r):
        a, b = r["results"][-2], r["results"][-1]
        ret = a.get("ret") if isinstance(a.get("ret"), dict) else {}
        chk = b.get("ret") if isinstance(b.get("ret"), dict) else {}
        return {"ok": a.get("ok"), "cut": ret.get("seq"), "names_a_message": ret.get("message_id") is not None if a.get("ok") else None,
                "error": None if a.get("ok") else str(a.get("ret"))[:80], "child": (chk.get("kinds"), chk.get("seqs")) if a.get("ok") else None}
    for h in fhist:
        if "_ref" not in h:
            continue
        r, ref = fres[h["id"]], fres[h["_ref"]]
        v.add_eval({"cache_fault": h["id"]}, True)
        got, want = lineage_answer(r), lineage_answer(ref)
        if got != want:
            v.violation(f"after {h['_what']}, {h['ops'][-2]} answers {got} instead of {want} (intact store)",
                        {"engine": "hist", "guard": "cache_fault", "case": {k_: h[k_] for k_ in h if not k_.startswith('_')}, "want": want})
    v.cov["cache_fault_histories"] = len(fhist)
    v.assumptions += ["source threads <= MaxFrames frames (exhaustive within the configuration)"]
    # the repository's own tests as drivers: every recorded execution against the monitor half of System.tla
    from .. import suite
    suite.check(v, wd)
    return v.finish(
        rule="cases = (distinct store state, branch/handoff request) pairs: every selector class of Threads.tla!OpsFor; "
             "non-trivial = the source thread has at least one frame beyond its creation; distinct by (state path, op descriptor)",
        exhaustive=True)


def replay(path, seed):
    with open(path) as f:
        rep = json.load(f)
    case = rep["case"]
    if case.get("engine") == "suite":
        from .. import suite
        return suite.replay(PROP, path, case)
    wd = workdir(PROP + "-replay")
    if case.get("engine") == "hist" and case.get("guard") == "cache_fault":
        r = run_harness("hist", [case["case"]], wd, "replay")[0]
        a = r["results"][-2]
        ret = a.get("ret") if isinstance(a.get("ret"), dict) else {}
        got = {"ok": a.get("ok"), "cut": ret.get("seq")}
        print(json.dumps({"got": got, "want": case["want"]}))
        if got["ok"] != case["want"]["ok"] or got["cut"] != case["want"]["cut"]:
            print(f"VIOLATION property={PROP} replay={path}")
            return 1
        return 0
    res = run_harness("trans", [case["case"]], wd, "replay")[0]
    r = res["trans"][0]
    diffs = [d for d in threads.compare(case["model_op"], case["predicted"], r, 0) if d[0] != "log"]
    print(json.dumps({"real": r["ret"], "new": [f["kind"] for f in r["log"]["new_frames"]], "post": r.get("post"), "diffs": diffs}, indent=1)[:3000])
    bad = bool(diffs)
    post = r.get("post")
    if post and case["model_op"]["op"] == "handoff" and r["ok"]:
        s = post[0]["ret"]["summary"]
        if s and s.get("artifact_named") and s.get("artifact_readable") is False:
            bad = True
    if bad:
        print(f"VIOLATION property={PROP} replay={path}")
        return 1
    return 0
