"""C20 — surfaces are total, bounded, deterministic folds over the frame stream.

 Surface.tla models the UI state as a fold over an ARBITRARY frame sequence: bounded window,
 lookup by seq (the specification's Get vs. the positional lookup of the pinned commit), tool
 summaries by id, bounded output text.  TLC proves WindowBounded / OutputBounded / LookupSound on
 every sequence up to the bound (seqs with gaps, repeats, u64::MAX; several streams; orphan
 terminal frames; unknown ids) and prints each sequence with the predicted observations; the
 counterexample of the positional lookup is demanded as non-vacuity.  The harness folds every
 sequence with the real TuiState (twice: determinism; panics caught), compares window, lookups,
 tool statuses and (ASCII payloads) the exact output length, checks the bounds with multi-byte
 payloads at the truncation boundaries, and renders the state on a TestBackend at every width
 1..44 x two heights x both render modes x both views x overlays x stalled / not stalled."""
import json

from .. import tlc
from ..common import Verdict, workdir, run_harness, log, die_tool

PROP = "C20"


def run(tier, seed):
    v = Verdict(PROP, tier, seed)
    wd = workdir(PROP)
    thorough = tier == "thorough"
    r = tlc.run("MCSurface", "Surface_fixed.cfg", workers=4, timeout=900)
    v.add_tlc(r, "Surface (lookup = Get): WindowBounded, LookupSound on all seq sequences up to length 5, capacity 3")
    if not r.ok:
        log(r.out[-1500:])
        die_tool("Surface.tla violates its invariants: specification error")
    r = tlc.run("MCSurface", "Surface_impl.cfg", workers=2, timeout=300)
    v.add_tlc(r, "Surface with the positional lookup of the pinned commit: counterexample expected (D6, non-vacuity)")
    v.cov["positional_lookup_counterexample"] = "LookupSound" in r.violated
    cases = []
    for cfg in ("GenSurface_seq1.cfg", "GenSurface_seq2.cfg", "GenSurface_seq3.cfg", "GenSurface_fold.cfg"):
        g = tlc.run("MCSurface", cfg, workers=4, timeout=900, heap="8g")
        v.add_tlc(g, f"{cfg}: every frame sequence with the predicted observations")
        if not g.ok or not g.cases:
            log(g.out[-1500:])
            die_tool(f"{cfg} failed")
        for c in g.cases:
            fold = cfg.endswith("fold.cfg")
            has_out = any(f["k"] == "tout" for f in c["frames"])
            for mb in ((0, 1, 2, 3, 4) if (fold and has_out) else ((0, 1) if fold else (0,))):
                # rendering is the expensive part: every sequence of the fold family in thorough, a stride in quick
                do_render = fold and (thorough or len(cases) % 23 == 0) or (not fold and len(cases) % 97 == 0)
                cases.append({"id": f"c{len(cases)}", "frames": c["frames"], "cap": c["cap"], "maxout": c["maxout"], "mb": mb,
                              "probes": [0, 1, 2, 5, 9], "render": bool(do_render), "_pred": c, "_fold": fold})
    results = run_harness("surface", [{k: c[k] for k in c if not k.startswith("_")} for c in cases], wd, "surface", shards=14, timeout=3000)
    by_id = {c["id"]: c for c in cases}
    rendered = 0
    for res in results:
        c = by_id[res["id"]]
        pred = c["_pred"]
        ob = res["obs"]
        seqs = [f["q"] for f in c["frames"]]
        nontrivial = (len(set(seqs)) < len(seqs) or seqs != sorted(seqs) or any(b - a > 1 for a, b in zip(seqs, seqs[1:]))) if not c["_fold"] \
            else any(f["k"] in ("tend", "tfail", "tout") for f in c["frames"])
        v.add_eval({"frames": c["frames"], "cap": c["cap"], "mb": c["mb"]}, nontrivial)
        rep = {"engine": "surface", "case": {k: c[k] for k in c if not k.startswith("_")}, "predicted": {k: pred[k] for k in ("window", "get", "tools", "outlen")}}
        if res["update_panic"] is not None:
            v.violation(f"TuiState::update panicked at frame {res['update_panic']} of {c['frames']}", dict(rep, obs=res))
            continue
        if res["render_panics"]:
            rp = res["render_panics"]
            v.violation(f"render panicked at {len(rp)} terminal sizes, e.g. {rp[0]}, for frames {c['frames']}", dict(rep, render_panics=rp[:10]))
        rendered += 1 if c["render"] else 0
        if not res["deterministic"]:
            v.violation(f"the same frames gave two different states: {c['frames']}", dict(rep, obs=ob))
        if ob["window"] != pred["window"]:
            v.violation(f"frame window {ob['window']} differs from the last {c['cap']} frames {pred['window']}", dict(rep, obs=ob))
        wrong = {k: x for k, x in ob["get"].items() if k.startswith("wrong@")}
        for q, want in pred["get"].items():
            got = ob["get"].get(str(q), -1)
            if got not in (-1, int(q)):
                wrong[q] = got
        if wrong:
            v.violation(f"lookup by seq returned a different frame: {wrong}; frames (seqs) {seqs}, capacity {c['cap']}", dict(rep, obs=ob))
        else:
            for q, want in pred["get"].items():
                got = ob["get"].get(str(q), -1)
                if got != want:
                    # "that frame or nothing": nothing is allowed by the property, but differs from the reference lookup
                    v.drift({"case": c["id"], "seq": q, "reference": want, "observed": got})
        if len(ob["window"]) > c["cap"] or ob["outlen"] > c["maxout"] or ob["max_preview"] > 8192 or not ob["selected_ok"]:
            v.violation(f"bound exceeded: window {len(ob['window'])}/{c['cap']}, output {ob['outlen']}/{c['maxout']}, preview {ob['max_preview']}/8192, selected_ok={ob['selected_ok']}",
                        dict(rep, obs=ob))
        if c["_fold"]:
            if ob["tools"] != pred["tools"]:
                v.violation(f"tool summaries {ob['tools']} differ from the fold {pred['tools']} for {[(f['k'], f['id']) for f in c['frames']]}", dict(rep, obs=ob))
            if c["mb"] == 0 and ob["outlen"] != pred["outlen"]:
                v.violation(f"output length {ob['outlen']} differs from the fold {pred['outlen']} for {[(f['k'], f['n']) for f in c['frames']]}", dict(rep, obs=ob))
        if len(v.cov["samples"]) < 3 and nontrivial and len(c["frames"]) >= 3:
            v.sample({"frames": c["frames"], "capacity": c["cap"], "predicted": rep["predicted"], "observed": {k: ob[k] for k in ("window", "get", "tools", "outlen")}})
    # ---- every frame TYPE the system writes (as written by real runs: provider runs, tools, tasks, continuity operations) and its
    # payload mutants (optional fields absent / null, empty collections, unicode, long strings - all still well-formed frames):
    # folded into a fresh state and rendered in every mode and overlay; total means no panic for any of them
    from . import c03
    tmpv = Verdict("C03", "aux", seed)
    cres, _, _, _, _ = c03.judge_scenarios(tmpv, c03.scenarios(), wd, False, tag="corpus")
    # one representative per SHAPE of each type (which optional parts are present / null / empty), the richest first
    corpus = {}
    shapes = {}
    for res in cres:
        for sid_, st in res["streams"].items():
            for fr in st["log_raw"]:
                shape = (fr["type"],) + tuple(sorted((k, x is None, x in ([], {}, "")) for k, x in fr.items()))
                if shape not in shapes:
                    shapes[shape] = fr
    for shape, fr in shapes.items():
        corpus.setdefault(fr["type"], []).append(fr)
    fcases, nfr = [], 0
    for kind, frames in sorted(corpus.items()):
        batch = []
        rich = sorted(frames, key=lambda x: -len(json.dumps(x)))[:(10 if thorough else 4)]      # frames with most of their optional parts present first
        for fi, fr in enumerate(rich):
            batch += [fr] + [m for _, m in c03.mutants(fr)]
        nfr += len(batch)
        for k in range(0, len(batch), 40):
            fcases.append({"id": f"fr-{kind}-{k}", "frames": batch[k:k + 40]})
    parsed = 0
    for res in run_harness("surface_frames", fcases, wd, "frames", shards=14, timeout=1800):
        parsed += res["parsed"]
        v.add_eval({"frames_case": res["id"]}, res["parsed"] > 0)
        for pr in res["problems"][:2]:
            c = [x for x in fcases if x["id"] == res["id"]][0]
            fr = c["frames"][pr["frame"]]
            v.violation(f"a well-formed {fr.get('type')} frame makes the surface panic ({pr['what']}{' at ' + json.dumps(pr.get('at')) if pr.get('at') else ''}): {json.dumps(fr)[:600]}",
                        {"engine": "surface_frames", "frames": [fr]})
    v.cov["frame_corpus"] = {"types": len(corpus), "frames_and_mutants": nfr, "accepted_by_the_frame_parser": parsed}
    if parsed < 200:
        die_tool(f"frame corpus too small ({parsed})")
    v.cov["sequences_rendered_at_all_widths"] = rendered
    v.cov["traces_validated_against_impl"] = len(results)
    v.assumptions += ["rip-cli's headless renderers live in a binary crate and are not reached by this check",
                      "payload values are represented by ASCII and a multi-byte pattern (é ⏸ ⚠) sized around the truncation limits"]
    return v.finish(
        rule="cases = frame sequences of Surface.tla (seq family: seqs from {0,1,2,5,u64::MAX} x capacities 1..3; fold family: 11 frame symbols incl. orphan / unknown-id frames) "
             "x payload class; non-trivial = the seq sequence has a gap, repeat or inversion (seq family) or a tool result frame (fold family); distinct by (frames, capacity, payload class)",
        exhaustive=True)


def replay(path, seed):
    with open(path) as f:
        rep = json.load(f)
    case = rep["case"]
    wd = workdir(PROP + "-replay")
    if case.get("engine") == "surface_frames":
        res = run_harness("surface_frames", [{"id": "r", "frames": case["frames"]}], wd, "replay")[0]
        print(json.dumps(res))
        if res["problems"]:
            print(f"VIOLATION property={PROP} replay={path}")
            return 1
        return 0
    c = dict(case["case"])
    c["render"] = True
    res = run_harness("surface", [c], wd, "replay")[0]
    print(json.dumps({"obs": {k: res["obs"][k] for k in ("window", "get", "tools", "outlen")}, "render_panics": res["render_panics"][:5],
                      "update_panic": res["update_panic"], "predicted": case.get("predicted")}, indent=1))
    bad = res["update_panic"] is not None or res["render_panics"] or not res["deterministic"] or \
        any(k.startswith("wrong@") for k in res["obs"]["get"]) or \
        any(g not in (-1, int(q)) for q, g in res["obs"]["get"].items() if not q.startswith("wrong@"))
    if bad:
        print(f"VIOLATION property={PROP} replay={path}")
        return 1
    return 0
