"""C03 — replay fidelity: live frames, log, sidecar and snapshot are the same frames.

 Replicas.tla: emitter buffer, subscriber, log, best-effort sidecar (append / rebuild) and snapshot
 as separately scheduled steps; TLC proves LiveIsLog, SidecarIsPrefixOfLog, SnapshotIsLog and
 NothingExtra, and finds the counterexample when an append to the log may fail silently.
 Binding B (trace validation): scenarios covering every reachable frame type (provider runs with
 text / tool calls / errors / request dumps, tool and checkpoint commands, tasks incl. cancel and
 failure, every continuity operation) are run through the real router with one SSE subscriber per
 stream attached from its first frame; afterwards each stream is read back from the raw log, through
 the code's replay, from the per-continuity sidecar, from the snapshot and by a late subscriber.
 Generated histories (random sequences over the same alphabet with unusual but legal payloads, with or
 without a torn sidecar and a restart at the end) go through the same oracle.
 TLC validates, per stream, the digests of the canonical JSON of each copy (ReplicasTrace).
 Round trip: every frame of the corpus and its payload mutants (unicode, control characters, 100 KB
 strings, empty collections, nested JSON, u64::MAX, optional fields absent / null) goes through
 rip_kernel::Event and EventLog append / replay: parse(serialize(x)) must keep every field and the
 stream assignment."""
import copy
import hashlib
import json
import os

from .. import tlc
from ..common import Verdict, workdir, run_harness, write_ndjson, log, die_tool

PROP = "C03"
ALL_KINDS = ["session_started", "output_text_delta", "session_ended", "continuity_created", "continuity_message_appended", "continuity_run_spawned",
             "continuity_context_selection_decided", "continuity_context_compiled", "continuity_provider_cursor_updated",
             "continuity_compaction_checkpoint_created", "continuity_compaction_auto_schedule_decided", "continuity_job_spawned", "continuity_job_ended",
             "continuity_run_ended", "continuity_tool_side_effects", "continuity_branched", "continuity_handoff_created", "tool_started", "tool_stdout",
             "tool_stderr", "tool_ended", "tool_failed", "openresponses_request", "openresponses_request_started", "openresponses_response_headers",
             "openresponses_response_first_byte", "provider_event", "checkpoint_created", "checkpoint_rewound", "checkpoint_failed", "tool_task_spawned",
             "tool_task_status", "tool_task_cancel_requested", "tool_task_cancelled", "tool_task_output_delta", "tool_task_stdin_written",
             "tool_task_resized", "tool_task_signalled"]
PTY_ONLY = {"tool_task_stdin_written", "tool_task_resized", "tool_task_signalled"}
UNI = "é漢😀 \u0007\t\"\\   end"


def sse(obj):
    return "data: " + json.dumps(obj) + "\n\n"


def call(k, name, args, cid=None):
    item = {"type": "function_call", "id": f"item_{k}", "call_id": cid or f"call_{k}", "name": name, "arguments": json.dumps(args), "status": "completed"}
    return sse({"type": "response.output_item.done", "output_index": k, "item": item})


def scenarios():
    done = "data: [DONE]\n\n"
    created = lambda n: sse({"type": "response.created", "response": {"id": f"resp_{n}"}})
    text = lambda t: sse({"type": "response.output_text.delta", "delta": t})
    s = []
    # 1: provider runs (text with unicode, tool calls that succeed / fail, stderr), commands, checkpoints
    s.append({"id": "runs", "config": {"stateless_history": False}, "script": [
        {"status": 200, "chunks": [created(1) + text("Héllo ") + text(UNI) + call(0, "write", {"path": "a.txt", "content": "x" + UNI}) + call(1, "read", {"path": "missing.txt"})
                                   + call(2, "bash", {"command": "echo out; echo err >&2; exit 3"}) + done]},
        {"status": 200, "chunks": [created(2) + text("done") + done]},
        {"status": 500, "content_type": "application/json", "chunks": ['{"error":{"message":"boom ' + "ü" + '"}}']},
        {"status": 200, "chunks": ["data: {not json}\n\n" + text("after junk") + done]},
    ], "steps": [
        {"do": "message", "content": "first " + UNI},
        {"do": "message", "content": "second (provider fails)"},
        {"do": "message", "content": "third (junk event)"},
        {"do": "command", "input": {"tool": "write", "args": {"path": "b.txt", "content": "v1"}}},
        {"do": "command", "input": {"checkpoint": {"action": "create", "label": "cp " + UNI, "files": ["b.txt"]}}},
        {"do": "command", "input": {"tool": "write", "args": {"path": "b.txt", "content": "v2"}}},
        {"do": "command", "input": {"checkpoint": {"action": "rewind", "id": "@ckpt"}}},
        {"do": "command", "input": {"checkpoint": {"action": "rewind", "id": "nope"}}},
        {"do": "command", "input": {"tool": "nope", "args": {}}},
        {"do": "unlinked", "input": {"tool": "ls", "args": {"path": "."}}},
        {"do": "unlinked", "input": {"tool": "bash", "args": {"command": "printf 'no newline'"}}},
        # output, then silence: what the live subscriber holds must be in the log while the tool is still running
        {"do": "unlinked", "input": {"tool": "bash", "args": {"command": "echo early; echo err >&2; sleep 3"}}, "quiet_after_ms": 700, "patience_ms": 1800},
    ]})
    # 2: tasks
    s.append({"id": "tasks", "script": [], "steps": [
        # the shell exits at once, a child keeps both pipes and writes later than any grace period a pump join might have: whatever
        # it writes belongs to the stream before its terminal frame and to the snapshot (the next steps give it seconds to show up)
        {"do": "task", "payload": {"tool": "bash", "args": {"command": "echo early; (sleep 2.6; echo late; echo late-err >&2) & exit 0"}}},
        {"do": "task", "payload": {"tool": "bash", "args": {"command": "echo one; echo two >&2; printf 'é漢'; exit 2"}}},
        {"do": "task", "payload": {"tool": "bash", "title": "t " + UNI, "args": {"command": "echo start; sleep 5"}}, "cancel_after_ms": 300, "patience_ms": 3000},
        {"do": "task", "payload": {"tool": "bash", "args": {"command": 12}}},
        {"do": "task", "payload": {"tool": "bash", "args": {"command": "echo x", "cwd": "no/such"}}},
    ]})
    # 3: continuity operations
    s.append({"id": "threads", "torn_sidecar": True, "config": {"stateless_history": True}, "script": [
        {"status": 200, "chunks": [created(1) + text("one") + done]}, {"status": 200, "chunks": [created(2) + text("two") + done]},
        {"status": 200, "chunks": [created(3) + text("three") + done]}, {"status": 200, "chunks": [created(4) + text("four") + done]}],
        "steps": [
        {"do": "message", "content": "m1"}, {"do": "message", "content": "m2 " + UNI},
        {"do": "thread_op", "path": "compaction-checkpoint", "body": {"summary_markdown": "# s " + UNI, "to_message_id": "@last"}},
        {"do": "thread_op", "path": "compaction-auto", "body": {"stride_messages": 1, "max_new_checkpoints": 2, "actor_id": "user", "origin": "verif"}, "settle_ms": 400},
        {"do": "thread_op", "path": "compaction-auto-schedule", "body": {"stride_messages": 1, "max_new_checkpoints": 1, "actor_id": "user", "origin": "verif"}, "settle_ms": 400},
        {"do": "thread_op", "path": "provider-cursor-rotate", "body": {"reason": "r " + UNI, "actor_id": "user", "origin": "verif"}},
        {"do": "message", "content": "m3"},
        {"do": "thread_op", "path": "branch", "body": {"title": "child " + UNI, "from_message_id": "@last", "actor_id": "user", "origin": "verif"}},
        {"do": "thread_op", "path": "handoff", "body": {"title": "handoff", "summary_markdown": "sum " + UNI, "actor_id": "user", "origin": "verif"}, "switch": True},
        {"do": "message", "content": "m4 on the handoff thread"},
    ]})
    threads_sc = s[-1]
    for fk in ("drop_head", "drop_middle", "dup_tail", "keep_tail"):
        c = copy.deepcopy(threads_sc)
        c.update(id="threads-" + fk, sidecar_fault=fk)
        del c["torn_sidecar"]
        s.append(c)
    # the sidecar is lost while the store keeps running; later appends re-create it
    for at, name in ((2, "early"), (7, "late")):
        c = copy.deepcopy(threads_sc)
        c.update(id="threads-sidecar-lost-" + name)
        c["steps"].insert(at, {"do": "drop_sidecar"})
        del c["torn_sidecar"]
        s.append(c)
    return s


def raw_call(k, name, arguments, cid=None):
    """a function call whose `arguments` string is given verbatim ("null", "{bad", ...)."""
    item = {"type": "function_call", "id": f"item_{k}", "call_id": cid or f"call_{k}", "name": name, "arguments": arguments, "status": "completed"}
    return sse({"type": "response.output_item.done", "output_index": k, "item": item})


def generated_scenarios(n, seed):
    """Histories drawn from the alphabet of everything a client can do (prompts whose provider answers are drawn from a pool, tool /
    checkpoint commands linked and unlinked, tasks, every continuity operation, with unusual but legal payloads: absent / null / empty
    arguments, unicode, CR LF, long and binary output), with or without the torn-sidecar restart at the end.  The oracle is the same:
    the five copies of every stream, validated by ReplicasTrace."""
    import random
    rnd = random.Random(seed * 7919 + 17)
    done = "data: [DONE]\n\n"
    created = lambda n_: sse({"type": "response.created", "response": {"id": f"resp_{n_}"}})
    text = lambda t: sse({"type": "response.output_text.delta", "delta": t})
    ok = lambda body: {"status": 200, "chunks": [created(rnd.randrange(10**6)) + body + done]}
    follow = ok(text("ok"))
    prompts = [
        ("text", lambda: [ok(text("plain answer"))]),
        ("text_unicode_crlf", lambda: [ok(text("a\r\nb") + text("") + text(UNI) + text(" x"))]),
        ("text_long", lambda: [ok(text("L" * 30000) + text("é" * 5000))]),
        ("call_null_args", lambda: [ok(raw_call(0, "ls", "null")), follow]),
        ("call_empty_args", lambda: [ok(raw_call(0, "bash", "{}")), follow]),
        ("call_bad_json_args", lambda: [ok(raw_call(0, "read", "{bad")), follow]),
        ("call_unknown_tool", lambda: [ok(call(0, "no_such_tool", {"x": None})), follow]),
        ("call_write_read", lambda: [ok(call(0, "write", {"path": "g.txt", "content": "v" + UNI}) + call(1, "read", {"path": "g.txt"})), follow]),
        ("call_bash_binary", lambda: [ok(call(0, "bash", {"command": "printf '\\377\\376\\000z'; printf 'e\\303' >&2"})), follow]),
        ("call_bash_empty_output", lambda: [ok(call(0, "bash", {"command": "true"})), follow]),
        ("provider_500", lambda: [{"status": 500, "content_type": "application/json", "chunks": ['{"error":{"message":"boom ü"}}']}]),
        ("provider_502_long_multibyte", lambda: [{"status": 502, "content_type": "text/plain; charset=utf-8", "chunks": ["x" * rnd.randrange(4) + rnd.choice("é漢😀") * 9000]}]),
        ("text_long_multibyte", lambda: [ok(text("x" * rnd.randrange(4) + "漢" * 12000) + text("😀" * 3000))]),
        ("call_long_multibyte_args", lambda: [ok(call(0, "write", {"path": "m.txt", "content": "x" * rnd.randrange(4) + "é" * 40000})), follow]),
        ("call_bash_long_multibyte_output", lambda: [ok(call(0, "bash", {"command": "python3 -c \"print('x'*%d+'漢'*70000)\"; python3 -c \"import sys; sys.stderr.write('é'*50000)\"" % rnd.randrange(4)})), follow]),
        ("provider_junk", lambda: [{"status": 200, "chunks": ["data: {not json}\n\n" + ": comment\n\n" + text("after junk") + done]}]),
        ("provider_empty_body", lambda: [{"status": 200, "chunks": [done]}]),
    ]
    commands = [
        {"tool": "ls"}, {"tool": "ls", "args": None}, {"tool": "ls", "args": {}}, {"tool": "read", "args": {"path": "seed.txt"}},
        {"tool": "write", "args": {"path": "c.txt", "content": ""}}, {"tool": "write", "args": {"path": "d/" + "é.txt", "content": UNI}},
        {"tool": "bash", "args": {"command": "echo o; echo e >&2; exit 3"}}, {"tool": "bash", "args": {"command": "printf '\\377\\376'"}},
        {"tool": "bash", "args": {"command": "true"}}, {"tool": "nope"}, {"tool": "grep", "args": {"pattern": "seed", "path": "."}},
        {"checkpoint": {"action": "create", "label": "", "files": ["seed.txt"]}}, {"checkpoint": {"action": "create", "label": "cp " + UNI, "files": []}},
        {"checkpoint": {"action": "rewind", "id": "@ckpt"}}, {"checkpoint": {"action": "rewind", "id": "nope"}},
    ]
    slow = {"do": "unlinked", "input": {"tool": "bash", "args": {"command": "echo early; echo err >&2; sleep 2"}}, "quiet_after_ms": 500, "patience_ms": 1200}
    tasks = [
        {"payload": {"tool": "bash", "args": {"command": "echo one; echo two >&2; printf 'é漢'; exit 2"}}},
        {"payload": {"tool": "bash", "title": "t " + UNI, "args": {"command": "echo start; sleep 5"}}, "cancel_after_ms": 300, "patience_ms": 3000},
        {"payload": {"tool": "bash", "args": {"command": 12}}}, {"payload": {"tool": "bash", "args": None}}, {"payload": {"tool": "bash"}},
        {"payload": {"tool": "bash", "args": {"command": "true"}}},
        {"payload": {"tool": "bash", "args": {"command": "head -c 150000 /dev/zero | tr '\\000' x"}}},
        {"payload": {"tool": "bash", "args": {"command": "printf '\\377\\376\\303'; printf '\\351' >&2"}}},
        {"payload": {"tool": "bash", "args": {"command": "echo x", "cwd": "no/such"}}},
        {"payload": {"tool": "ls", "args": {"path": "."}}},
        {"payload": {"tool": "bash", "title": "x" + "漢" * 3000, "args": {"command": "python3 -c \"print('xy'+'é'*90000)\""}}},
    ]
    who = {"actor_id": "user", "origin": "verif"}
    thread_ops = [
        {"path": "compaction-checkpoint", "body": dict(who, summary_markdown="# s " + UNI, to_message_id="@last")},
        {"path": "compaction-checkpoint", "body": dict(who, summary_markdown="", to_message_id="@last")},
        {"path": "compaction-checkpoint", "body": dict(who, summary_markdown="x", to_message_id="no-such-message")},
        {"path": "compaction-auto", "body": dict(who, stride_messages=1, max_new_checkpoints=2), "settle_ms": 400},
        {"path": "compaction-auto-schedule", "body": dict(who, stride_messages=1, max_new_checkpoints=1), "settle_ms": 400},
        {"path": "compaction-auto-schedule", "body": dict(who, stride_messages=2, max_new_checkpoints=3, dry_run=True), "settle_ms": 200},
        {"path": "provider-cursor-rotate", "body": dict(who, reason="r " + UNI)},
        {"path": "provider-cursor-rotate", "body": dict(who)},
        {"path": "branch", "body": dict(who, title="child " + UNI, from_message_id="@last")},
        {"path": "branch", "body": dict(who, title="")},
        {"path": "branch", "body": dict(who, title="sw", from_message_id="@last"), "switch": True},
        {"path": "handoff", "body": dict(who, title="handoff", summary_markdown="sum " + UNI), "switch": True},
        {"path": "handoff", "body": dict(who, title="h2", summary_markdown="s")},
        {"path": "handoff", "body": dict(who, title="x" + "😀" * 400, summary_markdown="xx" + "漢" * 30000)},
        {"path": "compaction-checkpoint", "body": dict(who, summary_markdown="x" + "é" * 50000, to_message_id="@last")},
        {"path": "branch", "body": dict(who, title="xxx" + "漢" * 2000, from_message_id="@last")},
        {"path": "provider-cursor-rotate", "body": dict(who, reason="x" + "é" * 5000)},
    ]
    out = []
    for i in range(n):
        steps, script, names = [], [], []
        nsteps = rnd.randint(4, 9)
        # every history starts with a prompt so that thread operations have a message to point at
        kinds = ["message"] + [rnd.choice(["message", "message", "command", "command", "unlinked", "task", "thread_op", "thread_op", "drop_sidecar"]) for _ in range(nsteps - 1)]
        for kd in kinds:
            if kd == "message":
                nm, mk = rnd.choice(prompts)
                script += mk()
                steps.append({"do": "message", "content": rnd.choice(["m", "m " + UNI, "line1\r\nline2", "x" * 5000, "x" * rnd.randrange(4) + "é" * 6000 + "😀" * 2000])})
                names.append(nm)
            elif kd in ("command", "unlinked"):
                if kd == "unlinked" and rnd.random() < 0.15:
                    steps.append(dict(slow))
                    names.append("u:bash-slow")
                    continue
                c = rnd.choice(commands)
                steps.append({"do": kd, "input": c})
                names.append(kd[0] + ":" + (c.get("tool") or "ckpt-" + c["checkpoint"]["action"]))
            elif kd == "drop_sidecar":
                steps.append({"do": "drop_sidecar"})
                names.append("drop_sidecar")
            elif kd == "task":
                t = rnd.choice(tasks)
                steps.append(dict(t, do="task"))
                names.append("task")
            else:
                o = rnd.choice(thread_ops)
                steps.append(dict(o, do="thread_op"))
                names.append(o["path"])
        fk = rnd.choice([None, None, "tear_tail", "tear_tail", "drop_head", "drop_middle", "dup_tail", "keep_tail"])
        out.append({"id": f"gen-{seed}-{i}", "generated": True, **({"sidecar_fault": fk} if fk else {}), "config": {"stateless_history": rnd.random() < 0.5},
                    "script": script, "steps": steps, "_names": names})
    return out


def canon(v):
    return json.dumps(v, sort_keys=True, separators=(",", ":"), ensure_ascii=False)


def digest(v):
    return hashlib.sha256(canon(v).encode("utf-8", "surrogatepass")).hexdigest()[:12]


def strip_nulls(v):
    if isinstance(v, dict):
        return {k: strip_nulls(x) for k, x in v.items() if x is not None and x != [] and x != {}}
    if isinstance(v, list):
        return [strip_nulls(x) for x in v]
    return v


def subsumes(big, small, path=""):
    """every non-null leaf of `small` is in `big` with the same value; returns the first path that is not."""
    if isinstance(small, dict):
        if not isinstance(big, dict):
            return path or "/"
        for k, x in small.items():
            if x is None:
                continue
            if k not in big:
                if x == [] or x == {}:
                    continue        # an empty collection that is skipped on write and defaulted on read is the same value
                return f"{path}/{k}"
            r = subsumes(big[k], x, f"{path}/{k}")
            if r:
                return r
        return None
    if isinstance(small, list):
        if not isinstance(big, list) or len(big) != len(small):
            return path or "/"
        for i, x in enumerate(small):
            r = subsumes(big[i], x, f"{path}/{i}")
            if r:
                return r
        return None
    if isinstance(small, float) or isinstance(big, float):
        return None if float(big) == float(small) else path
    return None if big == small else path


ENVELOPE = {"id", "session_id", "stream_kind", "stream_id", "timestamp_ms", "seq", "type"}


def mutants(frame):
    """payload mutants of one frame (values only; the envelope keeps its shape)."""
    out = []

    def paths(v, p=()):
        if isinstance(v, dict):
            if p:
                yield (p, v)       # the object itself (replaced by null / removed below)
            for k, x in v.items():
                if not p and k in ENVELOPE:
                    continue
                yield from paths(x, p + (k,))
        elif isinstance(v, list):
            yield (p, v)
            for i, x in enumerate(v[:2]):
                yield from paths(x, p + (i,))
        else:
            yield (p, v)

    def put(v, p, new, delete=False):
        c = copy.deepcopy(v)
        cur = c
        for k in p[:-1]:
            cur = cur[k]
        if delete:
            del cur[p[-1]]
        else:
            cur[p[-1]] = new
        return c

    for p, val in paths(frame):
        if not p:
            continue
        if isinstance(val, str):
            for new in (UNI, "", "x" * 100000, "line1\nline2\r\n", "😀" * 3):
                out.append((p, put(frame, p, new)))
        elif isinstance(val, bool):
            out.append((p, put(frame, p, not val)))
        elif isinstance(val, int):
            for new in (0, 18446744073709551615, 9007199254740993):
                out.append((p, put(frame, p, new)))
        elif isinstance(val, list):
            out.append((p, put(frame, p, [])))
        elif val is None:
            out.append((p, put(frame, p, None, delete=True)))
        if isinstance(val, (dict, list)) or val is None or isinstance(val, str):
            out.append((p, put(frame, p, None)))
            if isinstance(p[-1], str):
                out.append((p, put(frame, p, None, delete=True)))
    # free-form JSON payloads
    for k in ("args", "artifacts", "data", "raw"):
        if k in frame:
            out.append(((k,), put(frame, (k,), {"a": [1, {"b": None}, []], "ü": 1.5, "deep": {"x": {"y": {"z": [True, "é"]}}}, "n": 18446744073709551615})))
    # envelope numbers
    out.append((("seq",), put(frame, ("seq",), 18446744073709551615)))
    out.append((("timestamp_ms",), put(frame, ("timestamp_ms",), 18446744073709551615)))
    return out


def judge_scenarios(v, sc, wd, thorough, tag="fid"):
    """run the scenarios on the real router, validate the five copies of every stream with ReplicasTrace, report."""
    cases_by_id = {c["id"]: c for c in sc}
    results = run_harness("fidelity", [{k: x for k, x in c.items() if not k.startswith("_")} for c in sc], wd, tag, shards=min(len(sc), 14), timeout=1800)
    events = []
    corpus = {}
    seen_kinds = set()
    nstreams = 0
    for res in results:
        for sid, st in res["streams"].items():
            nstreams += 1
            logf = st["log_raw"]
            for f in logf:
                seen_kinds.add(f["type"])
                corpus.setdefault(f["type"], [])
                if len(corpus[f["type"]]) < (6 if thorough else 3):
                    corpus[f["type"]].append(f)
            ended = any(f["type"] in ("session_ended",) or (f["type"] == "tool_task_status" and f.get("status") in ("exited", "cancelled", "failed")) for f in logf)
            ev = {"case": res["id"], "stream": sid, "kind": st["kind"], "log": [digest(f) for f in logf], "live": [digest(f) for f in st["live"]],
                  "late": [digest(f) for f in st["late"]], "replayed": [digest(f) for f in st["log_replayed"]],
                  "has_sidecar": st["sidecar"] is not None, "sidecar": [digest(f) for f in (st["sidecar"] or [])], "sidecar_settled": True,
                  "has_snapshot": st["snapshot"] is not None, "snapshot": [digest(f) for f in (st["snapshot"] or [])],
                  "seqs": [f.get("seq") for f in logf], "ended": bool(ended),
                  "has_fault": "late_after_fault" in st, "late_after_fault": [digest(f) for f in st.get("late_after_fault", [])],
                  "quiet_live": [digest(f) for f in (st.get("quiet_live") or [])], "quiet_log": [digest(f) for f in (st.get("quiet_log") or [])]}
            events.append(ev)
            v.add_eval({"scenario": res["id"], "stream_kind": st["kind"], "n": len(logf)}, len(logf) >= 3)
            st["_ev"] = ev
        if res["frames_of_other_streams"]:
            v.drift({"case": res["id"], "note": f"{res['frames_of_other_streams']} log frames belong to streams the scenario did not create"})
    p = os.path.join(wd, f"replicas-{tag}.ndjson")
    write_ndjson(p, events)
    r, rej = tlc.validate_trace("ReplicasTrace", "ReplicasTrace.cfg", p, timeout=600)
    v.add_tlc(r, f"ReplicasTrace: {len(events)} streams of {len(results)} scenarios, five copies each")
    if rej or r.errors or r.violated or r.timed_out:
        log(r.out[-3000:])
        die_tool(f"ReplicasTrace failed: {rej or r.errors or r.violated}")
    bad = []
    for tag, val in r.prints:
        if tag == "BAD":
            bad = val
    by_case = {res["id"]: res for res in results}
    for b in bad:
        cid, sid, what = b
        st = by_case[cid]["streams"][sid]
        # say which frame differs
        detail = ""
        copy_name = {"LiveIsLog": "live", "LateSubscriberIsLog": "late", "ReplayedIsRawLog": "log_replayed", "SidecarIsLog": "sidecar", "SnapshotIsLog": "snapshot", "LateSubscriberAfterSidecarFaultIsLog": "late_after_fault", "QuietLiveIsInLog": "quiet_live"}.get(what)
        if what == "QuietLiveIsInLog":
            have = {canon(f) for f in st.get("quiet_log") or []}
            miss = [f.get("type") for f in st.get("quiet_live") or [] if canon(f) not in have]
            detail = f": the stream was idle, yet {len(miss)} frame(s) its live subscriber holds are not in the log file after the wait: {miss[:5]}"
        elif copy_name and st.get(copy_name) is not None:
            a, bb = st["log_raw"], st[copy_name]
            k = next((i for i in range(min(len(a), len(bb))) if canon(a[i]) != canon(bb[i])), min(len(a), len(bb)))
            if k < len(a) and k < len(bb):
                diff = [key for key in set(a[k]) | set(bb[k]) if a[k].get(key) != bb[k].get(key)]
                detail = f": frame {k} ({a[k].get('type')}) differs in {sorted(diff)[:4]}"
            else:
                detail = f": {len(bb)} frames in the copy, {len(a)} in the log (first missing: {(a[k] if k < len(a) else bb[k]).get('type')})"
        v.violation(f"scenario {cid}, {st['kind']} stream: {what}{detail}", dict({"engine": "fidelity", "scenario": cid, "guard": what, "stream_kind": st["kind"]},
                         **({"case": {k: x for k, x in cases_by_id[cid].items() if not k.startswith("_")}, "steps": cases_by_id[cid].get("_names")} if cases_by_id[cid].get("generated") else {})))
    return results, events, corpus, seen_kinds, nstreams


def run(tier, seed):
    v = Verdict(PROP, tier, seed)
    wd = workdir(PROP)
    thorough = tier == "thorough"
    r = tlc.run("Replicas", "Replicas_ok.cfg", workers=6, timeout=900)
    v.add_tlc(r, "Replicas (session, thread, task x 3 frames; sidecar append / rebuild; snapshot): LiveIsLog, SidecarIsPrefixOfLog, SnapshotIsLog, NothingExtra")
    if not r.ok:
        die_tool("Replicas violates Same")
    r = tlc.run("Replicas", "Replicas_fail.cfg", workers=2, timeout=300)
    v.add_tlc(r, "Replicas with a log append that may fail silently: counterexample expected (non-vacuity)")
    if "Same" not in r.violated:
        die_tool("Replicas (failing append) has no counterexample")
    # ---- scenarios: the three written ones (every reachable frame type) + generated histories
    nwritten = len(scenarios())
    sc = scenarios() + generated_scenarios(500 if thorough else 30, seed)
    results, events, corpus, seen_kinds, nstreams = judge_scenarios(v, sc, wd, thorough)
    v.cov["generated_histories"] = len(sc) - nwritten
    v.cov["generated_history_steps"] = sorted({n_ for c in sc for n_ in c.get("_names", [])})
    # frame types the scenarios cannot reach here (PTY control, same-session rewind, scheduler decision): written from their definitions
    def env(kind_, sk, n):
        return {"id": f"00000000-0000-4000-8000-00000000000{n}", "session_id": f"synthetic-{n}", "stream_kind": sk, "stream_id": f"synthetic-{n}",
                "timestamp_ms": 1700000000000 + n, "seq": n, "type": kind_}
    synthetic = [
        dict(env("checkpoint_rewound", "session", 1), checkpoint_id="cp-1", label="label " + UNI, files=["a.txt", "dir/ü.txt"]),
        dict(env("continuity_compaction_auto_schedule_decided", "continuity", 2), decision_id="d1", policy_id="p1", decision="scheduled", execute=True, stride_messages=3,
             max_new_checkpoints=2, block_on_inflight=True, message_count=7, cut_rule_id="stride_messages/v1",
             planned=[{"target_message_ordinal": 3, "to_seq": 9, "to_message_id": "m3"}], job_id="j1", job_kind="compaction", reason={"why": [1, 2]},
             actor_id="user", origin="verif"),
        dict(env("tool_task_stdin_written", "task", 3), task_id="synthetic-3", chunk_b64="aGk="),
        dict(env("tool_task_resized", "task", 4), task_id="synthetic-4", rows=24, cols=80),
        dict(env("tool_task_signalled", "task", 5), task_id="synthetic-5", signal="SIGINT"),
    ]
    for f in synthetic:
        if f["type"] not in corpus:
            corpus[f["type"]] = [f]
            v.cov.setdefault("frame_types_written_from_definition", []).append(f["type"])
    missing = [k for k in ALL_KINDS if k not in seen_kinds and k not in corpus]
    v.cov["frame_types_in_corpus"] = sorted(seen_kinds)
    v.cov["frame_types_not_reached"] = missing
    if missing:
        v.drift({"note": f"frame types not produced by the scenarios: {missing}"})
    # ---- round trip of the corpus and its mutants
    rcases = []
    meta = []
    for kind, frames in sorted(corpus.items()):
        for fi, f in enumerate(frames):
            batch = [("orig", f)] + ([(p, m) for p, m in mutants(f)] if (thorough or fi == 0) else [])
            rcases.append({"id": f"{kind}.{fi}", "frames": [m for _, m in batch]})
            meta.append((kind, batch))
    rres = run_harness("roundtrip", rcases, wd, "rt", shards=12, timeout=1200)
    rby = {r_["id"]: r_ for r_ in rres}
    nparsed = 0
    for case, (kind, batch) in zip(rcases, meta):
        res = rby[case["id"]]
        appended_idx = res["appended"]
        for k, rr in enumerate(res["results"]):
            label, frame = batch[k]
            if not rr["parsed"]:
                if label == "orig":
                    v.violation(f"a {kind} frame the system wrote cannot be read back: {rr['error']}", {"engine": "roundtrip", "kind": kind, "guard": "parse", "frame": frame})
                continue
            nparsed += 1
            v.add_eval({"kind": kind, "mutant": str(label), "i": k}, label != "orig")
            again = rr["again"]
            lost = subsumes(again, frame)
            if lost:
                v.violation(f"{kind} frame ({'as emitted' if label == 'orig' else 'payload mutant at ' + '/'.join(map(str, label))}): field {lost} is lost or altered by a "
                            f"write/read round trip", {"engine": "roundtrip", "kind": kind, "guard": "field", "frame": frame if len(canon(frame)) < 4000 else {"kind": kind, "path": str(label)}})
            if label == "orig" and canon(strip_nulls(again)) != canon(strip_nulls(frame)):
                extra = subsumes(frame, again)
                v.violation(f"{kind} frame as emitted: reading it back adds or changes {extra}", {"engine": "roundtrip", "kind": kind, "guard": "extra", "frame": frame})
            if again.get("stream_id") != frame.get("stream_id", frame.get("session_id")) or (frame.get("stream_kind") and again.get("stream_kind") != frame.get("stream_kind")):
                v.violation(f"{kind} frame is assigned to stream {again.get('stream_kind')}/{again.get('stream_id')} when read back, was {frame.get('stream_kind')}/{frame.get('stream_id')}",
                            {"engine": "roundtrip", "kind": kind, "guard": "stream", "frame": frame if len(canon(frame)) < 4000 else {"kind": kind}})
            if rr.get("line_has_newline"):
                v.violation(f"{kind} frame serialises to more than one line", {"engine": "roundtrip", "kind": kind, "guard": "newline"})
        # log append / replay of the parsed ones
        want = [res["results"][i]["again"] for i in appended_idx]
        if [canon(x) for x in want] != [canon(x) for x in res["replayed"]] or res["raw_lines"] != len(appended_idx):
            v.violation(f"{kind}: {len(appended_idx)} frames appended, {res['raw_lines']} lines in the file, replay returns {len(res['replayed'])} frames / different content"
                        + (f" (replay of the log fails: {res['replay_error']}; the payload variants in this file: {sorted(set('/'.join(map(str, l)) for l, _ in batch if l != 'orig'))[:12]})" if res.get("replay_error") else ""),
                        {"engine": "roundtrip", "kind": kind, "guard": "log"})
    v.cov["frames_round_tripped"] = nparsed
    v.cov["streams_compared"] = nstreams
    v.cov["traces_validated_against_impl"] = nstreams
    if len(v.cov["samples"]) < 1 and events:
        e0 = max(events, key=lambda e: len(e["log"]))
        v.sample({"scenario": e0["case"], "stream_kind": e0["kind"], "frames": len(e0["log"]), "copies_equal": e0["live"] == e0["log"] == e0["late"] == e0["replayed"]})
    v.assumptions += ["PTY-only frame types (stdin written, resized, signalled) are not reached in this sandbox",
                      "frames are compared as canonical JSON values (key order and whitespace ignored)",
                      "a crash between publishing a frame and appending it to the log is outside the model",
                      "payload mutants that the deserialiser refuses (enum values, wrong types) are not frames the system can emit and are skipped"]
    # ---- nothing in the sidecar that is not in the log, also when the log refuses an append (Replicas_fail: the log append is
    # the step that may fail): every kind of thread append with an injected failure of its first / second log append, the
    # thread's sidecar compared with its frames in the log after every call, and again after a restart and a further append
    base = [{"op": "ensure_default"}, {"op": "message", "t": 0}, {"op": "message", "t": 0}, {"op": "run_spawned", "t": 0, "m": 0, "s": 0}]
    failing = [("message", {"op": "message", "t": 0}), ("run_spawned", {"op": "run_spawned", "t": 0, "m": 1, "s": 1}), ("run_ended", {"op": "run_ended", "t": 0, "m": 0, "s": 0}),
               ("side_effects", {"op": "side_effects", "t": 0, "m": 0, "s": 0}), ("cursor_update", {"op": "cursor_update", "t": 0}),
               ("checkpoint", {"op": "checkpoint", "t": 0, "to_msg": 0, "summary": "s"}), ("auto", {"op": "auto", "t": 0, "stride": 1, "max_new": 2}),
               ("compile", {"op": "compile", "t": 0, "m": 1, "s": 1, "record": True}), ("branch", {"op": "branch", "t": 0}), ("handoff", {"op": "handoff", "t": 0, "summary": "h"})]
    fcases = []
    for name, op in failing:
        for nth in (1, 2):
            fcases.append({"id": f"refused-{name}-{nth}", "watch_sidecar": True,
                           "ops": base + [dict(op, fail_append=nth), {"op": "replay", "t": 0}, {"op": "restart"}, {"op": "replay", "t": 0}, {"op": "message", "t": 0}, {"op": "replay", "t": 0}]})
    for res in run_harness("hist", fcases, wd, "refused", shards=min(10, len(fcases)), timeout=900):
        c = [x for x in fcases if x["id"] == res["id"]][0]
        v.add_eval({"refused_append": res["id"]}, True)
        for k, r_ in enumerate(res["results"]):
            sc_ = r_.get("sidecar")
            if sc_ and (sc_["sidecar_only"] or not sc_["is_prefix"]):
                v.violation(f"history {res['id']}: after call {k} ({c['ops'][k].get('op')}{' with a refused log append' if 'fail_append' in c['ops'][k] else ''}) the thread's sidecar holds "
                            f"{sc_['sidecar_lines']} frames, the log {sc_['log_frames']}; {sc_['sidecar_only']} of them are not in the log (is a prefix of the log: {sc_['is_prefix']})",
                            {"engine": "refused", "case": c})
                break
    v.cov["refused_append_histories"] = len(fcases)
    # the repository's own tests as drivers: every recorded execution against the monitor half of System.tla
    from .. import suite
    suite.check(v, wd)
    return v.finish(
        rule="cases = streams of three scenarios (five copies each) + every frame type of the corpus with its payload mutants through Event and EventLog; "
             "non-trivial = stream with at least 3 frames, or a mutant; distinct by (scenario, stream kind, length) / (kind, mutant path, value class)",
        exhaustive=False)


def replay(path, seed):
    with open(path) as f:
        rep = json.load(f)
    c = rep["case"]
    if c.get("engine") == "refused":
        wd = workdir(PROP + "-replay")
        res = run_harness("hist", [c["case"]], wd, "replay")[0]
        bad = [(k, r_["sidecar"]) for k, r_ in enumerate(res["results"]) if r_.get("sidecar") and (r_["sidecar"]["sidecar_only"] or not r_["sidecar"]["is_prefix"])]
        print(json.dumps(bad[:3]))
        if bad:
            print(f"VIOLATION property={PROP} replay={path}")
            return 1
        return 0
    if c.get("engine") == "suite":
        from .. import suite
        return suite.replay(PROP, path, c)
    wd = workdir(PROP + "-replay")
    if c.get("engine") == "roundtrip" and isinstance(c.get("frame"), dict) and "type" in c["frame"]:
        res = run_harness("roundtrip", [{"id": "r", "frames": [c["frame"]]}], wd, "replay")[0]
        rr = res["results"][0]
        print(json.dumps(rr)[:2000])
        if not rr["parsed"] or subsumes(rr["again"], c["frame"]) or (c.get("guard") == "extra" and canon(strip_nulls(rr["again"])) != canon(strip_nulls(c["frame"]))):
            print(f"VIOLATION property={PROP} replay={path}")
            return 1
        return 0
    if c.get("engine") == "fidelity" and isinstance(c.get("case"), dict):
        v = Verdict(PROP, "replay", seed)
        judge_scenarios(v, [dict(c["case"], generated=True)], wd, False, tag="replay")
        for what, _ in v.violations:
            print(what[:400])
        if v.violations:
            print(f"VIOLATION property={PROP} replay={path}")
            return 1
        return 0
    print("re-run ./check C03 (scenario", c.get("scenario"), ")")
    return 2
