"""C03 — replay fidelity: live frames, log, sidecar and snapshot are the same frames.

 Replicas.tla: emitter buffer, subscriber, log, best-effort sidecar (append / rebuild) and snapshot
 as separately scheduled steps; TLC proves LiveIsLog, SidecarIsPrefixOfLog, SnapshotIsLog and
 NothingExtra, and finds the counterexample when an append to the log may fail silently.
 Binding B (trace validation): scenarios covering every reachable frame type (provider runs with
 text / tool calls / errors / request dumps, tool and checkpoint commands, tasks incl. cancel and
 failure, every continuity operation) are run through the real router with one SSE subscriber per
 stream attached from its first frame; afterwards each stream is read back from the raw log, through
 the code's replay, from the per-continuity sidecar, from the snapshot and by a late subscriber.
 TLC validates, per stream, the digests of the canonical JSON of each copy (ReplicasTrace).
 Round trip: every frame of the corpus and its payload mutants (unicode, control characters, 100 KB
 strings, empty collections, nested JSON, u64::MAX, optional fields absent / null) goes through
 rip_kernel::Event and EventLog append / replay: parse(serialize(x)) must keep every field and the
 stream assignment."""
import copy
import hashlib
import json
import os

from .. import tlc
from ..common import Verdict, workdir, run_harness, write_ndjson, log, die_tool

PROP = "C03"
ALL_KINDS = ["session_started", "output_text_delta", "session_ended", "continuity_created", "continuity_message_appended", "continuity_run_spawned",
             "continuity_context_selection_decided", "continuity_context_compiled", "continuity_provider_cursor_updated",
             "continuity_compaction_checkpoint_created", "continuity_compaction_auto_schedule_decided", "continuity_job_spawned", "continuity_job_ended",
             "continuity_run_ended", "continuity_tool_side_effects", "continuity_branched", "continuity_handoff_created", "tool_started", "tool_stdout",
             "tool_stderr", "tool_ended", "tool_failed", "openresponses_request", "openresponses_request_started", "openresponses_response_headers",
             "openresponses_response_first_byte", "provider_event", "checkpoint_created", "checkpoint_rewound", "checkpoint_failed", "tool_task_spawned",
             "tool_task_status", "tool_task_cancel_requested", "tool_task_cancelled", "tool_task_output_delta", "tool_task_stdin_written",
             "tool_task_resized", "tool_task_signalled"]
PTY_ONLY = {"tool_task_stdin_written", "tool_task_resized", "tool_task_signalled"}
UNI = "é漢😀 \u0007\t\"\\   end"


def sse(obj):
    return "data: " + json.dumps(obj) + "\n\n"


def call(k, name, args, cid=None):
    item = {"type": "function_call", "id": f"item_{k}", "call_id": cid or f"call_{k}", "name": name, "arguments": json.dumps(args), "status": "completed"}
    return sse({"type": "response.output_item.done", "output_index": k, "item": item})


def scenarios():
    done = "data: [DONE]\n\n"
    created = lambda n: sse({"type": "response.created", "response": {"id": f"resp_{n}"}})
    text = lambda t: sse({"type": "response.output_text.delta", "delta": t})
    s = []
    # 1: provider runs (text with unicode, tool calls that succeed / fail, stderr), commands, checkpoints
    s.append({"id": "runs", "config": {"stateless_history": False}, "script": [
        {"status": 200, "chunks": [created(1) + text("Héllo ") + text(UNI) + call(0, "write", {"path": "a.txt", "content": "x" + UNI}) + call(1, "read", {"path": "missing.txt"})
                                   + call(2, "bash", {"command": "echo out; echo err >&2; exit 3"}) + done]},
        {"status": 200, "chunks": [created(2) + text("done") + done]},
        {"status": 500, "content_type": "application/json", "chunks": ['{"error":{"message":"boom ' + "ü" + '"}}']},
        {"status": 200, "chunks": ["data: {not json}\n\n" + text("after junk") + done]},
    ], "steps": [
        {"do": "message", "content": "first " + UNI},
        {"do": "message", "content": "second (provider fails)"},
        {"do": "message", "content": "third (junk event)"},
        {"do": "command", "input": {"tool": "write", "args": {"path": "b.txt", "content": "v1"}}},
        {"do": "command", "input": {"checkpoint": {"action": "create", "label": "cp " + UNI, "files": ["b.txt"]}}},
        {"do": "command", "input": {"tool": "write", "args": {"path": "b.txt", "content": "v2"}}},
        {"do": "command", "input": {"checkpoint": {"action": "rewind", "id": "@ckpt"}}},
        {"do": "command", "input": {"checkpoint": {"action": "rewind", "id": "nope"}}},
        {"do": "command", "input": {"tool": "nope", "args": {}}},
        {"do": "unlinked", "input": {"tool": "ls", "args": {"path": "."}}},
        {"do": "unlinked", "input": {"tool": "bash", "args": {"command": "printf 'no newline'"}}},
    ]})
    # 2: tasks
    s.append({"id": "tasks", "script": [], "steps": [
        {"do": "task", "payload": {"tool": "bash", "args": {"command": "echo one; echo two >&2; printf 'é漢'; exit 2"}}},
        {"do": "task", "payload": {"tool": "bash", "title": "t " + UNI, "args": {"command": "echo start; sleep 5"}}, "cancel_after_ms": 150},
        {"do": "task", "payload": {"tool": "bash", "args": {"command": 12}}},
        {"do": "task", "payload": {"tool": "bash", "args": {"command": "echo x", "cwd": "no/such"}}},
    ]})
    # 3: continuity operations
    s.append({"id": "threads", "torn_sidecar": True, "config": {"stateless_history": True}, "script": [
        {"status": 200, "chunks": [created(1) + text("one") + done]}, {"status": 200, "chunks": [created(2) + text("two") + done]},
        {"status": 200, "chunks": [created(3) + text("three") + done]}, {"status": 200, "chunks": [created(4) + text("four") + done]}],
        "steps": [
        {"do": "message", "content": "m1"}, {"do": "message", "content": "m2 " + UNI},
        {"do": "thread_op", "path": "compaction-checkpoint", "body": {"summary_markdown": "# s " + UNI, "to_message_id": "@last"}},
        {"do": "thread_op", "path": "compaction-auto", "body": {"stride_messages": 1, "max_new_checkpoints": 2, "actor_id": "user", "origin": "verif"}, "settle_ms": 400},
        {"do": "thread_op", "path": "compaction-auto-schedule", "body": {"stride_messages": 1, "max_new_checkpoints": 1, "actor_id": "user", "origin": "verif"}, "settle_ms": 400},
        {"do": "thread_op", "path": "provider-cursor-rotate", "body": {"reason": "r " + UNI, "actor_id": "user", "origin": "verif"}},
        {"do": "message", "content": "m3"},
        {"do": "thread_op", "path": "branch", "body": {"title": "child " + UNI, "from_message_id": "@last", "actor_id": "user", "origin": "verif"}},
        {"do": "thread_op", "path": "handoff", "body": {"title": "handoff", "summary_markdown": "sum " + UNI, "actor_id": "user", "origin": "verif"}, "switch": True},
        {"do": "message", "content": "m4 on the handoff thread"},
    ]})
    return s


def canon(v):
    return json.dumps(v, sort_keys=True, separators=(",", ":"), ensure_ascii=False)


def digest(v):
    return hashlib.sha256(canon(v).encode("utf-8", "surrogatepass")).hexdigest()[:12]


def strip_nulls(v):
    if isinstance(v, dict):
        return {k: strip_nulls(x) for k, x in v.items() if x is not None and x != [] and x != {}}
    if isinstance(v, list):
        return [strip_nulls(x) for x in v]
    return v


def subsumes(big, small, path=""):
    """every non-null leaf of `small` is in `big` with the same value; returns the first path that is not."""
    if isinstance(small, dict):
        if not isinstance(big, dict):
            return path or "/"
        for k, x in small.items():
            if x is None:
                continue
            if k not in big:
                if x == [] or x == {}:
                    continue        # an empty collection that is skipped on write and defaulted on read is the same value
                return f"{path}/{k}"
            r = subsumes(big[k], x, f"{path}/{k}")
            if r:
                return r
        return None
    if isinstance(small, list):
        if not isinstance(big, list) or len(big) != len(small):
            return path or "/"
        for i, x in enumerate(small):
            r = subsumes(big[i], x, f"{path}/{i}")
            if r:
                return r
        return None
    if isinstance(small, float) or isinstance(big, float):
        return None if float(big) == float(small) else path
    return None if big == small else path


ENVELOPE = {"id", "session_id", "stream_kind", "stream_id", "timestamp_ms", "seq", "type"}


def mutants(frame):
    """payload mutants of one frame (values only; the envelope keeps its shape)."""
    out = []

    def paths(v, p=()):
        if isinstance(v, dict):
            if p:
                yield (p, v)       # the object itself (replaced by null / removed below)
            for k, x in v.items():
                if not p and k in ENVELOPE:
                    continue
                yield from paths(x, p + (k,))
        elif isinstance(v, list):
            yield (p, v)
            for i, x in enumerate(v[:2]):
                yield from paths(x, p + (i,))
        else:
            yield (p, v)

    def put(v, p, new, delete=False):
        c = copy.deepcopy(v)
        cur = c
        for k in p[:-1]:
            cur = cur[k]
        if delete:
            del cur[p[-1]]
        else:
            cur[p[-1]] = new
        return c

    for p, val in paths(frame):
        if not p:
            continue
        if isinstance(val, str):
            for new in (UNI, "", "x" * 100000, "line1\nline2\r\n", "😀" * 3):
                out.append((p, put(frame, p, new)))
        elif isinstance(val, bool):
            out.append((p, put(frame, p, not val)))
        elif isinstance(val, int):
            for new in (0, 18446744073709551615, 9007199254740993):
                out.append((p, put(frame, p, new)))
        elif isinstance(val, list):
            out.append((p, put(frame, p, [])))
        elif val is None:
            out.append((p, put(frame, p, None, delete=True)))
        if isinstance(val, (dict, list)) or val is None or isinstance(val, str):
            out.append((p, put(frame, p, None)))
            if isinstance(p[-1], str):
                out.append((p, put(frame, p, None, delete=True)))
    # free-form JSON payloads
    for k in ("args", "artifacts", "data", "raw"):
        if k in frame:
            out.append(((k,), put(frame, (k,), {"a": [1, {"b": None}, []], "ü": 1.5, "deep": {"x": {"y": {"z": [True, "é"]}}}, "n": 18446744073709551615})))
    # envelope numbers
    out.append((("seq",), put(frame, ("seq",), 18446744073709551615)))
    out.append((("timestamp_ms",), put(frame, ("timestamp_ms",), 18446744073709551615)))
    return out


def run(tier, seed):
    v = Verdict(PROP, tier, seed)
    wd = workdir(PROP)
    thorough = tier == "thorough"
    r = tlc.run("Replicas", "Replicas_ok.cfg", workers=6, timeout=900)
    v.add_tlc(r, "Replicas (session, thread, task x 3 frames; sidecar append / rebuild; snapshot): LiveIsLog, SidecarIsPrefixOfLog, SnapshotIsLog, NothingExtra")
    if not r.ok:
        die_tool("Replicas violates Same")
    r = tlc.run("Replicas", "Replicas_fail.cfg", workers=2, timeout=300)
    v.add_tlc(r, "Replicas with a log append that may fail silently: counterexample expected (non-vacuity)")
    if "Same" not in r.violated:
        die_tool("Replicas (failing append) has no counterexample")
    # ---- scenarios
    sc = scenarios()
    results = run_harness("fidelity", sc, wd, "fid", shards=len(sc), timeout=600)
    events = []
    corpus = {}
    seen_kinds = set()
    nstreams = 0
    for res in results:
        for sid, st in res["streams"].items():
            nstreams += 1
            logf = st["log_raw"]
            for f in logf:
                seen_kinds.add(f["type"])
                corpus.setdefault(f["type"], [])
                if len(corpus[f["type"]]) < (6 if thorough else 3):
                    corpus[f["type"]].append(f)
            ended = any(f["type"] in ("session_ended",) or (f["type"] == "tool_task_status" and f.get("status") in ("exited", "cancelled", "failed")) for f in logf)
            ev = {"case": res["id"], "stream": sid, "kind": st["kind"], "log": [digest(f) for f in logf], "live": [digest(f) for f in st["live"]],
                  "late": [digest(f) for f in st["late"]], "replayed": [digest(f) for f in st["log_replayed"]],
                  "has_sidecar": st["sidecar"] is not None, "sidecar": [digest(f) for f in (st["sidecar"] or [])], "sidecar_settled": True,
                  "has_snapshot": st["snapshot"] is not None, "snapshot": [digest(f) for f in (st["snapshot"] or [])],
                  "seqs": [f.get("seq") for f in logf], "ended": bool(ended),
                  "has_fault": "late_after_fault" in st, "late_after_fault": [digest(f) for f in st.get("late_after_fault", [])]}
            events.append(ev)
            v.add_eval({"scenario": res["id"], "stream_kind": st["kind"], "n": len(logf)}, len(logf) >= 3)
            st["_ev"] = ev
        if res["frames_of_other_streams"]:
            v.drift({"case": res["id"], "note": f"{res['frames_of_other_streams']} log frames belong to streams the scenario did not create"})
    p = os.path.join(wd, "replicas.ndjson")
    write_ndjson(p, events)
    r, rej = tlc.validate_trace("ReplicasTrace", "ReplicasTrace.cfg", p, timeout=600)
    v.add_tlc(r, f"ReplicasTrace: {len(events)} streams of {len(results)} scenarios, five copies each")
    if rej or r.errors or r.violated or r.timed_out:
        log(r.out[-3000:])
        die_tool(f"ReplicasTrace failed: {rej or r.errors or r.violated}")
    bad = []
    for tag, val in r.prints:
        if tag == "BAD":
            bad = val
    by_case = {res["id"]: res for res in results}
    for b in bad:
        cid, sid, what = b
        st = by_case[cid]["streams"][sid]
        # say which frame differs
        detail = ""
        copy_name = {"LiveIsLog": "live", "LateSubscriberIsLog": "late", "ReplayedIsRawLog": "log_replayed", "SidecarIsLog": "sidecar", "SnapshotIsLog": "snapshot", "LateSubscriberAfterTornSidecarIsLog": "late_after_fault"}.get(what)
        if copy_name and st.get(copy_name) is not None:
            a, bb = st["log_raw"], st[copy_name]
            k = next((i for i in range(min(len(a), len(bb))) if canon(a[i]) != canon(bb[i])), min(len(a), len(bb)))
            if k < len(a) and k < len(bb):
                diff = [key for key in set(a[k]) | set(bb[k]) if a[k].get(key) != bb[k].get(key)]
                detail = f": frame {k} ({a[k].get('type')}) differs in {sorted(diff)[:4]}"
            else:
                detail = f": {len(bb)} frames in the copy, {len(a)} in the log (first missing: {(a[k] if k < len(a) else bb[k]).get('type')})"
        v.violation(f"scenario {cid}, {st['kind']} stream: {what}{detail}", {"engine": "fidelity", "scenario": cid, "guard": what, "stream_kind": st["kind"]})
    # frame types the scenarios cannot reach here (PTY control, same-session rewind, scheduler decision): written from their definitions
    def env(kind_, sk, n):
        return {"id": f"00000000-0000-4000-8000-00000000000{n}", "session_id": f"synthetic-{n}", "stream_kind": sk, "stream_id": f"synthetic-{n}",
                "timestamp_ms": 1700000000000 + n, "seq": n, "type": kind_}
    synthetic = [
        dict(env("checkpoint_rewound", "session", 1), checkpoint_id="cp-1", label="label " + UNI, files=["a.txt", "dir/ü.txt"]),
        dict(env("continuity_compaction_auto_schedule_decided", "continuity", 2), decision_id="d1", policy_id="p1", decision="scheduled", execute=True, stride_messages=3,
             max_new_checkpoints=2, block_on_inflight=True, message_count=7, cut_rule_id="stride_messages/v1",
             planned=[{"target_message_ordinal": 3, "to_seq": 9, "to_message_id": "m3"}], job_id="j1", job_kind="compaction", reason={"why": [1, 2]},
             actor_id="user", origin="verif"),
        dict(env("tool_task_stdin_written", "task", 3), task_id="synthetic-3", chunk_b64="aGk="),
        dict(env("tool_task_resized", "task", 4), task_id="synthetic-4", rows=24, cols=80),
        dict(env("tool_task_signalled", "task", 5), task_id="synthetic-5", signal="SIGINT"),
    ]
    for f in synthetic:
        if f["type"] not in corpus:
            corpus[f["type"]] = [f]
            v.cov.setdefault("frame_types_written_from_definition", []).append(f["type"])
    missing = [k for k in ALL_KINDS if k not in seen_kinds and k not in corpus]
    v.cov["frame_types_in_corpus"] = sorted(seen_kinds)
    v.cov["frame_types_not_reached"] = missing
    if missing:
        v.drift({"note": f"frame types not produced by the scenarios: {missing}"})
    # ---- round trip of the corpus and its mutants
    rcases = []
    meta = []
    for kind, frames in sorted(corpus.items()):
        for fi, f in enumerate(frames):
            batch = [("orig", f)] + ([(p, m) for p, m in mutants(f)] if (thorough or fi == 0) else [])
            rcases.append({"id": f"{kind}.{fi}", "frames": [m for _, m in batch]})
            meta.append((kind, batch))
    rres = run_harness("roundtrip", rcases, wd, "rt", shards=12, timeout=1200)
    rby = {r_["id"]: r_ for r_ in rres}
    nparsed = 0
    for case, (kind, batch) in zip(rcases, meta):
        res = rby[case["id"]]
        appended_idx = res["appended"]
        for k, rr in enumerate(res["results"]):
            label, frame = batch[k]
            if not rr["parsed"]:
                if label == "orig":
                    v.violation(f"a {kind} frame the system wrote cannot be read back: {rr['error']}", {"engine": "roundtrip", "kind": kind, "guard": "parse", "frame": frame})
                continue
            nparsed += 1
            v.add_eval({"kind": kind, "mutant": str(label), "i": k}, label != "orig")
            again = rr["again"]
            lost = subsumes(again, frame)
            if lost:
                v.violation(f"{kind} frame ({'as emitted' if label == 'orig' else 'payload mutant at ' + '/'.join(map(str, label))}): field {lost} is lost or altered by a "
                            f"write/read round trip", {"engine": "roundtrip", "kind": kind, "guard": "field", "frame": frame if len(canon(frame)) < 4000 else {"kind": kind, "path": str(label)}})
            if label == "orig" and canon(strip_nulls(again)) != canon(strip_nulls(frame)):
                extra = subsumes(frame, again)
                v.violation(f"{kind} frame as emitted: reading it back adds or changes {extra}", {"engine": "roundtrip", "kind": kind, "guard": "extra", "frame": frame})
            if again.get("stream_id") != frame.get("stream_id", frame.get("session_id")) or (frame.get("stream_kind") and again.get("stream_kind") != frame.get("stream_kind")):
                v.violation(f"{kind} frame is assigned to stream {again.get('stream_kind')}/{again.get('stream_id')} when read back, was {frame.get('stream_kind')}/{frame.get('stream_id')}",
                            {"engine": "roundtrip", "kind": kind, "guard": "stream", "frame": frame if len(canon(frame)) < 4000 else {"kind": kind}})
            if rr.get("line_has_newline"):
                v.violation(f"{kind} frame serialises to more than one line", {"engine": "roundtrip", "kind": kind, "guard": "newline"})
        # log append / replay of the parsed ones
        want = [res["results"][i]["again"] for i in appended_idx]
        if [canon(x) for x in want] != [canon(x) for x in res["replayed"]] or res["raw_lines"] != len(appended_idx):
            v.violation(f"{kind}: {len(appended_idx)} frames appended, {res['raw_lines']} lines in the file, replay returns {len(res['replayed'])} frames / different content"
                        + (f" (replay of the log fails: {res['replay_error']}; the payload variants in this file: {sorted(set('/'.join(map(str, l)) for l, _ in batch if l != 'orig'))[:12]})" if res.get("replay_error") else ""),
                        {"engine": "roundtrip", "kind": kind, "guard": "log"})
    v.cov["frames_round_tripped"] = nparsed
    v.cov["streams_compared"] = nstreams
    v.cov["traces_validated_against_impl"] = nstreams
    if len(v.cov["samples"]) < 1 and events:
        e0 = max(events, key=lambda e: len(e["log"]))
        v.sample({"scenario": e0["case"], "stream_kind": e0["kind"], "frames": len(e0["log"]), "copies_equal": e0["live"] == e0["log"] == e0["late"] == e0["replayed"]})
    v.assumptions += ["PTY-only frame types (stdin written, resized, signalled) are not reached in this sandbox",
                      "frames are compared as canonical JSON values (key order and whitespace ignored)",
                      "a crash between publishing a frame and appending it to the log is outside the model",
                      "payload mutants that the deserialiser refuses (enum values, wrong types) are not frames the system can emit and are skipped"]
    return v.finish(
        rule="cases = streams of three scenarios (five copies each) + every frame type of the corpus with its payload mutants through Event and EventLog; "
             "non-trivial = stream with at least 3 frames, or a mutant; distinct by (scenario, stream kind, length) / (kind, mutant path, value class)",
        exhaustive=False)


def replay(path, seed):
    with open(path) as f:
        rep = json.load(f)
    c = rep["case"]
    wd = workdir(PROP + "-replay")
    if c.get("engine") == "roundtrip" and isinstance(c.get("frame"), dict) and "type" in c["frame"]:
        res = run_harness("roundtrip", [{"id": "r", "frames": [c["frame"]]}], wd, "replay")[0]
        rr = res["results"][0]
        print(json.dumps(rr)[:2000])
        if not rr["parsed"] or subsumes(rr["again"], c["frame"]) or (c.get("guard") == "extra" and canon(strip_nulls(rr["again"])) != canon(strip_nulls(c["frame"]))):
            print(f"VIOLATION property={PROP} replay={path}")
            return 1
        return 0
    print("re-run ./check C03 (scenario", c.get("scenario"), ")")
    return 2
