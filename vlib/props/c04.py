"""C04 — caches are transparent: losing or corrupting them never changes an answer; every read
capability terminates.

 1. TLC checks StoreCache.tla: with accept = complete, Transparent is an invariant; with the
    accept rules as implemented TLC lists the status vectors on which the code can answer from an
    incomplete cache.  GenCache enumerates every reachable status vector of the nine cache files
    (faults delete / truncate / garbage / empty / rollback on any file, interleaved with appends,
    restarts and rebuilding reads) with one path reaching it and the model's prediction.
 2. The harness replays every path on a real thread (messages, runs, compiled contexts, cursors,
    checkpoints) and evaluates EVERY read capability twice - caches as found vs. a copy with
    continuity_streams/ removed (the code's own truth path): replay, cut points, status, cursor
    status, selection status, auto/schedule plans, the compiled context for anchors at the tail,
    mid-thread and at the first message, branch/handoff cut resolution.  Verdict = this
    differential; a disagreement on a status vector the as-implemented model declares
    non-transparent is attributed to the recorded finding of that culprit, anything else is a
    violation.  Every call runs under a watchdog (termination).
 3. Scaled concretisation: threads longer than every bounded tail window (> 10^4 frames, > 8 MiB,
    dense non-message frames) are built for real and queried the same way."""
import json

from .. import tlc
from ..common import Verdict, workdir, run_harness, log, die_tool

PROP = "C04"

H1 = [{"op": "ensure_default"}, {"op": "message", "t": 0}, {"op": "message", "t": 0}, {"op": "message", "t": 0},
      {"op": "run_spawned", "t": 0, "m": 0, "s": 0}, {"op": "compile", "t": 0, "m": 0, "s": 0, "record": True},
      {"op": "run_ended", "t": 0, "m": 0, "s": 0}, {"op": "cursor_update", "t": 0, "provider": "p0"},
      {"op": "checkpoint", "t": 0, "to_msg": 1}]
H2 = [{"op": "message", "t": 0}, {"op": "message", "t": 0}, {"op": "cursor_update", "t": 0, "provider": "p1"},
      {"op": "run_spawned", "t": 0, "m": 3, "s": 1}, {"op": "compile", "t": 0, "m": 3, "s": 1, "record": True},
      {"op": "run_ended", "t": 0, "m": 3, "s": 1}, {"op": "checkpoint", "t": 0, "to_msg": 3}]

CULPRIT_KEY = {"full": "D14a-stale-full-sidecar-accepted", "mr/mrord": "D14b-incomplete-messages-runs-caches-accepted",
               "comp": "D14c-incomplete-checkpoint-cache-accepted", "mr": "D14e-incomplete-messages-runs-sidecar-trusted-by-compile",
               "compidx": "D14f-incomplete-checkpoint-index-trusted-by-compile"}


def concretise_step(st):
    a = st["a"]
    if a == "append":
        return {"msg": {"op": "message", "t": 0}, "ckpt": {"op": "checkpoint", "t": 0, "stride": 1},
                "other": {"op": "cursor_update", "t": 0, "provider": "p0"}}[st["kind"]]
    if a == "fault":
        return {"op": "fault", "t": 0, "file": st["file"], "kind": st["kind"]}
    if a == "restart":
        return {"op": "restart"}
    return {"op": "replay", "t": 0}


def run(tier, seed):
    v = Verdict(PROP, tier, seed)
    wd = workdir(PROP)
    thorough = tier == "thorough"
    r = tlc.run("StoreCache", "StoreCache_fixed.cfg" if thorough else "StoreCache_fixed_q.cfg", workers=8, timeout=1200)
    v.add_tlc(r, "StoreCache, accept = complete: Transparent is an invariant")
    if not r.ok:
        log(r.out[-2000:])
        die_tool("StoreCache (repaired accept rules) violates Transparent: specification error")
    r = tlc.run("StoreCache", "StoreCache_impl.cfg", workers=4, timeout=600)
    v.add_tlc(r, "StoreCache, accept rules as implemented: counterexample expected (findings D14a-c)")
    v.cov["design_counterexample_as_implemented"] = "Transparent" in r.violated
    g = tlc.run("GenCache", "GenCache_t.cfg" if thorough else "GenCache_q.cfg", workers=4, timeout=1800, heap="8g")
    v.add_tlc(g, "GenCache: every reachable status vector of the nine cache files with one fault/append/restart path and the prediction")
    if g.errors or g.timed_out or not g.cases:
        log(g.out[-2000:])
        die_tool("GenCache failed")
    cases = []
    for i, gc in enumerate(g.cases):
        ops = H1 + [{"op": "save_all_caches", "t": 0}] + H2 + [concretise_step(s) for s in gc["path"]]
        cases.append({"id": f"v{i}", "ops": ops, "_gc": gc})
    # the same paths over a thread longer than the seek-index stride (256 frames): single-fault paths in the
    # quick tier, all of them in the thorough tier
    for i, gc in enumerate(g.cases):
        if not thorough and not (len(gc["path"]) == 1 or (len(gc["path"]) == 2 and gc["path"][1]["a"] != "fault")):
            continue
        ops = H1 + [{"op": "filler", "t": 0, "n": 140}, {"op": "save_all_caches", "t": 0}, {"op": "filler", "t": 0, "n": 140}] + H2 + \
            [concretise_step(s) for s in gc["path"]]
        cases.append({"id": f"m{i}", "ops": ops, "_gc": gc})
    results = run_harness("cachediff", [{k: c[k] for k in ("id", "ops")} for c in cases], wd, "cdiff", shards=14, timeout=3000)
    by_id = {c["id"]: c for c in cases}
    nq = 0
    predicted_nt = 0
    confirmed_nt = 0
    for res in results:
        c = by_id[res["id"]]
        gc = c["_gc"]
        ev = res["evals"][-1]
        nq += ev["queries"]
        nontrivial = any(s["a"] == "fault" for s in gc["path"])
        v.add_eval({"path": gc["path"]}, nontrivial)
        rep = {"engine": "cachediff", "case": {"id": c["id"], "ops": c["ops"]}, "model": {"st": gc["st"], "culprits": gc["culprits"]}}
        for h in ev["hangs"]:
            v.violation(f"read capability did not return / panicked: {json.dumps(h)[:300]} after {gc['path']}", dict(rep, hang=h))
        if not gc["transparent"]:
            predicted_nt += 1
            if ev["diffs"]:
                confirmed_nt += 1
        for d in ev["diffs"]:
            key = None
            if not gc["transparent"]:
                # attribute to the culprit whose fast path serves this query
                q = d["query"]["op"]
                cul = gc["culprits"]
                if "full" in cul:
                    key = CULPRIT_KEY["full"]
                elif "mr/mrord" in cul and q in ("cut_points", "status", "auto", "schedule", "compile"):
                    key = CULPRIT_KEY["mr/mrord"]
                elif "comp" in cul and q in ("cut_points", "status", "auto", "schedule", "compile"):
                    key = CULPRIT_KEY["comp"]
                elif "mr" in cul and q == "compile":
                    key = CULPRIT_KEY["mr"]
                elif "compidx" in cul and q == "compile":
                    key = CULPRIT_KEY["compidx"]
            v.violation(f"{d['query']['op']} answers differently with caches as found than with caches removed after {gc['path']} "
                        f"(model status {gc['st']}, culprits {gc['culprits']}): {json.dumps(d)[:400]}", dict(rep, diff=d), key=key)
        if len(v.cov["samples"]) < 3 and nontrivial and len(gc["path"]) >= 2:
            v.sample({"path": gc["path"], "model_status": gc["st"], "model_transparent": gc["transparent"],
                      "queries_evaluated_twice": ev["queries"], "diffs": len(ev["diffs"]), "hangs": len(ev["hangs"])})
    v.cov["queries_evaluated_twice"] = nq
    v.cov["model_nontransparent_vectors"] = predicted_nt
    v.cov["of_which_real_diff_observed"] = confirmed_nt

    # ---- long threads (scaled concretisation): beyond every bounded tail window
    longs = [
        ("10k_frames", [{"op": "ensure_default"}, {"op": "message", "t": 0}, {"op": "cursor_update", "t": 0, "provider": "p0"},
                        {"op": "run_spawned", "t": 0, "m": 0, "s": 0}, {"op": "compile", "t": 0, "m": 0, "s": 0, "record": True},
                        {"op": "run_ended", "t": 0, "m": 0, "s": 0}, {"op": "checkpoint", "t": 0, "to_msg": 0},
                        {"op": "schedule", "t": 0, "stride": 1, "max_new": 1, "execute": True},
                        {"op": "filler", "t": 0, "n": 10050}]),
        ("9MiB", [{"op": "ensure_default"}, {"op": "message", "t": 0}, {"op": "cursor_update", "t": 0, "provider": "p0"},
                  {"op": "run_spawned", "t": 0, "m": 0, "s": 0}, {"op": "compile", "t": 0, "m": 0, "s": 0, "record": True},
                  {"op": "run_ended", "t": 0, "m": 0, "s": 0}, {"op": "checkpoint", "t": 0, "to_msg": 0},
                  {"op": "filler", "t": 0, "n": 310, "pad": 30000},
                  {"op": "run_spawned", "t": 0, "m": 5, "s": 1}, {"op": "compile", "t": 0, "m": 5, "s": 1, "record": True},
                  {"op": "run_ended", "t": 0, "m": 5, "s": 1}]),
        ("two_decisions_300k", [{"op": "ensure_default"}, {"op": "message", "t": 0},
                                {"op": "run_spawned", "t": 0, "m": 0, "s": 0}, {"op": "compile", "t": 0, "m": 0, "s": 0, "record": True},
                                {"op": "run_ended", "t": 0, "m": 0, "s": 0},
                                {"op": "message", "t": 0, "pad": 300000},
                                {"op": "message", "t": 0},
                                {"op": "run_spawned", "t": 0, "m": 2, "s": 1}, {"op": "compile", "t": 0, "m": 2, "s": 1, "record": True},
                                {"op": "run_ended", "t": 0, "m": 2, "s": 1}]),
    ]
    # more than 10^4 non-message frames between an old message and the next one, the messages+runs sidecar unreadable:
    # the window for the OLD anchor is served by the full-sidecar fallback
    longs.append(("10k_nonmessage_gap_mr_garbage",
                  [{"op": "ensure_default"}, {"op": "message", "t": 0}, {"op": "run_spawned", "t": 0, "m": 0, "s": 0},
                   {"op": "filler", "t": 0, "n": 10500, "kind": "cursor"}, {"op": "run_ended", "t": 0, "m": 0, "s": 0},
                   {"op": "message", "t": 0}, {"op": "message", "t": 0},
                   {"op": "fault", "t": 0, "file": "mr", "kind": "garbage"}]))
    if thorough:
        longs.append(("10k_faulted", longs[0][1] + [{"op": "fault", "t": 0, "file": "mr", "kind": "delete"},
                                                    {"op": "fault", "t": 0, "file": "seek", "kind": "garbage"}]))
        longs.append(("dense_nonmessage", [{"op": "ensure_default"}, {"op": "message", "t": 0}] +
                      [{"op": "cursor_update", "t": 0, "provider": "p0"}] * 600 + [{"op": "message", "t": 0}]))
    lcases = [{"id": n, "ops": ops, "watchdog_s": 20} for n, ops in longs]
    for lc in lcases:
        res = run_harness("cachediff", [lc], wd, "long-" + lc["id"], shards=1, timeout=900)[0]
        ev = res["evals"][-1]
        v.add_eval({"long": lc["id"]}, True)
        rep = {"engine": "cachediff", "case": lc}
        for h in ev["hangs"]:
            v.violation(f"long thread {lc['id']}: read capability did not return within the watchdog: {json.dumps(h['query'])}", dict(rep, hang=h))
        for d in ev["diffs"]:
            v.violation(f"long thread {lc['id']}: {d['query']['op']} answers differently with caches than without: {json.dumps(d)[:400]}", dict(rep, diff=d))
    v.cov["traces_validated_against_impl"] = len(results) + len(lcases)
    v.assumptions += ["verdict is the differential on the implementation itself (caches as found vs continuity_streams/ removed); documented best-effort field inflight_job_id excluded",
                      "watchdog 10 s (20 s on long threads) is orders of magnitude above the measured cost of a truth replay"]
    return v.finish(
        rule="cases = reachable status vectors of the nine cache files (one fault/append/restart path each) + long-thread configurations; "
             "each evaluates every read capability twice; non-trivial = the path contains at least one fault; distinct by path",
        exhaustive=True)


def replay(path, seed):
    with open(path) as f:
        rep = json.load(f)
    case = rep["case"]
    wd = workdir(PROP + "-replay")
    res = run_harness("cachediff", [case["case"]], wd, "replay", timeout=900)[0]
    ev = res["evals"][-1]
    print(json.dumps({"diffs": ev["diffs"][:3], "hangs": ev["hangs"]}, indent=1)[:3000])
    if ev["diffs"] or ev["hangs"]:
        print(f"VIOLATION property={PROP} replay={path}")
        return 1
    return 0
