"""C16 — the tool loop answers each provider call exactly once and never runs a barred tool.

 RunLoop.tla folds the agent loop of session.rs over a provider script: collection of call items
 (by item / call id, argument deltas, repeated done events), drain in output_index order,
 tool-choice enforcement, call budget, stateful (previous_response_id) vs stateless follow-ups.
 TLC proves ExecutedOnce / BarredNeverRuns / Bounded / Ordered for every script of the alphabet
 (all response outcomes x call items incl. duplicate call ids and reversed output order x
 tool_choice x history mode) and prints one script per distinct predicted run.  Each script is
 played by the scripted provider against the real router; the request bodies the provider
 received, the tool_started frames and the file the write tool appends to are compared with
 Run(cfg, script)."""
import json

from .. import tlc, runloop
from ..common import Verdict, workdir, run_harness, log, die_tool

PROP = "C16"


def run(tier, seed):
    v = Verdict(PROP, tier, seed)
    wd = workdir(PROP)
    thorough = tier == "thorough"
    if thorough:
        r = tlc.run("MCRunLoop", "RunLoop_mc.cfg", workers=8, timeout=1800, heap="8g")
        v.add_tlc(r, "RunLoop: ExecutedOnce BarredNeverRuns Bounded Ordered over all scripts (2 responses x 2 calls of 4, 6 outcomes, 5 tool choices, 2 history modes)")
        if not r.ok:
            log(r.out[-1500:])
            die_tool("RunLoop.tla violates its invariants")
    r = tlc.run("MCRunLoop", "RunLoop_impl_q.cfg", workers=6, timeout=900)
    v.add_tlc(r, "RunLoop with DedupDone = FALSE (pinned commit): counterexample expected (D18, non-vacuity of ExecutedOnce)")
    v.cov["d18_counterexample"] = "ExecutedOnce" in r.violated
    g = runloop.generate("GenRunLoop_t.cfg" if thorough else "GenRunLoop_q.cfg")
    v.add_tlc(g, "GenRunLoop: one provider script per distinct predicted run (VIEW = cfg, Run, last outcome)")
    if not g.ok or not g.cases:
        log(g.out[-1500:])
        die_tool("GenRunLoop failed")
    cases = []
    for i, gc in enumerate(g.cases):
        c = runloop.case_of(gc, i)
        c["_gc"] = gc
        cases.append(c)
    # the call budget: 17 responses with 2 calls each
    big = {"cfg": {"choice": "auto", "stateless": False, "linked": True},
           "script": [{"outcome": "done", "rid": True, "calls": [{"cid": f"a{k}", "tool": "ls", "idx": 0, "dup": False},
                                                                 {"cid": f"b{k}", "tool": "write", "idx": 1, "dup": False}]} for k in range(18)],
           "run": {"reason": "max_tool_calls_exceeded", "nreq": 16, "executed": [[("a%d" % (k // 2)) if k % 2 == 0 else ("b%d" % (k // 2)), "ls" if k % 2 == 0 else "write"] for k in range(32)],
                   "answered": [[f"a{k}", f"b{k}"] for k in range(15)], "thread": None}}
    c = runloop.case_of(big, len(cases))
    c["_gc"] = big
    cases.append(c)
    # ... and the same budget when every call is barred by tool_choice (rejected calls are answered, not executed, and count)
    for choice, executed in (("none", []), ("fn_ls", [[f"a{k}", "ls"] for k in range(16)])):
        bb = {"cfg": {"choice": choice, "stateless": False, "linked": True}, "script": big["script"],
              "run": dict(big["run"], executed=executed)}
        c = runloop.case_of(bb, len(cases))
        c["_gc"] = bb
        cases.append(c)
    # stateless history on a thread that already has a message: the compiled context is more than the bare prompt, and every
    # follow-up request must still extend the first one
    plain = runloop.response_json({"outcome": "done", "rid": True, "calls": []}, 99)
    for i, gc in enumerate(list(g.cases)):
        if gc["cfg"]["stateless"] and gc["cfg"].get("linked", True) and sum(len(r["calls"]) for r in gc["script"]) > 0 and i % 3 == 0:
            c = runloop.case_of(gc, len(cases))
            c["script"] = [plain] + c["script"]
            c["pre"] = [{"do": "post_message_wait", "content": "an earlier message on this thread"}]
            c["_gc"] = gc
            c["_pre"] = 1
            cases.append(c)
    results = run_harness("runs", [{k: c[k] for k in c if not k.startswith("_")} for c in cases], wd, "runs", shards=12, timeout=3000)
    by_id = {c["id"]: c for c in cases}
    for res in results:
        c = by_id[res["id"]]
        gc = c["_gc"]
        pred = gc["run"]
        cfg = gc["cfg"]
        rep = {"engine": "runs", "case": {k: c[k] for k in c if not k.startswith("_")}, "model": {"cfg": cfg, "script": gc["script"], "run": pred},
               "pre": c.get("_pre", 0)}
        ncalls = sum(len(r["calls"]) for r in gc["script"])
        v.add_eval({"cfg": cfg, "script": gc["script"]}, ncalls > 0)
        if res["timed_out"] or not res["session_frames"]:
            v.violation(f"run did not end (script {gc['script']})", rep)
            continue
        sf = res["session_frames"][-1]
        reqs = res["requests"][c.get("_pre", 0):]
        ex = runloop.executed_tools(sf)
        want_ex = [t for _, t in pred["executed"]]
        ans = runloop.answered_ids(reqs, cfg["stateless"])
        writes = bytes.fromhex(res["ws_files"].get("out.txt", "")).decode() if res["ws_files"].get("out.txt") else ""
        problems = []
        if ex != want_ex:
            problems.append(f"tools executed {ex}, reference {want_ex}")
        if writes.count("X") != want_ex.count("write"):
            problems.append(f"the write tool ran {writes.count('X')} times, reference {want_ex.count('write')}")
        want_ans = pred["answered"][:max(0, len(reqs) - 1)]
        if ans != want_ans:
            problems.append(f"follow-up requests answered call ids {ans}, reference {want_ans}")
        want_nreq = pred["nreq"] + (1 if pred["reason"] == "script_exhausted" else 0)
        if len(reqs) != want_nreq:
            problems.append(f"{len(reqs)} requests sent, reference {want_nreq}")
        barred = [f["name"] for f in sf if f["type"] == "tool_started" and not str(f["tool_id"]).startswith("tool_denied_")
                  and not _allowed(cfg["choice"], f["name"])]
        if barred:
            problems.append(f"tools barred by tool_choice={cfg['choice']} were executed: {barred}")
        if len(ex) > 32:
            problems.append(f"{len(ex)} tool calls executed (budget 32)")
        if cfg["stateless"]:
            inputs = [rq["body"].get("input") for rq in reqs if isinstance(rq["body"], dict)]
            for a, b in zip(inputs, inputs[1:]):
                if not (isinstance(a, list) and isinstance(b, list) and b[:len(a)] == a):
                    problems.append("stateless history: a request's input does not extend the previous one")
                    break
        else:
            for k, rq in enumerate(reqs[1:], 1):
                if not rq["body"].get("previous_response_id"):
                    problems.append(f"stateful follow-up request {k} has no previous_response_id")
        for rq in reqs:
            pass
        for p in problems:
            v.violation(f"{p}; tool_choice={cfg['choice']} stateless={cfg['stateless']} script={_short(gc['script'])}", dict(rep, observed={"executed": ex, "answered": ans, "requests": len(reqs)}))
        if len(v.cov["samples"]) < 3 and ncalls >= 2 and len(reqs) >= 2:
            v.sample({"cfg": cfg, "script": _short(gc["script"]), "predicted": {k: pred[k] for k in ("reason", "nreq", "executed", "answered")},
                      "observed": {"executed": ex, "answered": ans, "requests": len(reqs)}})
    # ---- what the provider sends back is echoed into the next request: unusual call ids and function names (empty, at and beyond
    #      the schema's length limits, outside the name pattern, unicode) must never produce a request that fails the schema
    sse = runloop.sse

    def odd_call(cid, name):
        item = {"type": "function_call", "id": "item_0", "call_id": cid, "name": name, "arguments": json.dumps({"path": "."}), "status": "completed"}
        return {"status": 200, "chunks": [sse({"type": "response.created", "response": {"id": "resp_0"}}) + sse({"type": "response.output_item.done", "output_index": 0, "item": item})
                                          + "data: [DONE]\n\n"]}
    final = runloop.response_json({"outcome": "done", "rid": True, "calls": []}, 1)
    echo = []
    for stateless in (False, True):
        for nm, (cid, name) in {"empty_id": ("", "ls"), "id_64": ("x" * 64, "ls"), "id_65": ("x" * 65, "ls"), "id_200": ("y" * 64 + "z" * 136, "ls"), "id_unicode": ("é漢", "ls"), "id_spaces": ("  ", "ls"),
                                "name_dotted": ("c1", "functions.ls"), "name_65": ("c1", "l" * 65), "name_64": ("c1", "l" * 64), "name_empty": ("c1", ""),
                                "name_unicode": ("c1", "lś"), "plain": ("c1", "ls")}.items():
            echo.append({"id": f"echo-{nm}-{'stateless' if stateless else 'stateful'}", "script": [odd_call(cid, name), final, final], "linked": True, "input": "x",
                         "config": {"tool_choice": "auto", "stateless_history": stateless}, "timeout_ms": 15000, "_valid": nm in ("id_64", "plain", "id_unicode", "id_spaces"), "_cid": cid})
    eres = run_harness("runs", [{k: c[k] for k in c if not k.startswith("_")} for c in echo], wd, "echo", shards=8, timeout=900)
    eby = {c["id"]: c for c in echo}
    for res in eres:
        c = eby[res["id"]]
        v.add_eval({"echo": c["id"]}, True)
        rep = {"engine": "runs", "guard": "echo", "case": {k: c[k] for k in c if not k.startswith("_")}}
        if res["timed_out"] or not res["session_frames"]:
            v.violation(f"run did not end ({c['id']})", rep)
        elif c["id"].startswith("echo-plain") and len(res["requests"]) != 2:
            v.violation(f"{c['id']}: {len(res['requests'])} requests for one ordinary call", rep)
        else:
            # whatever is answered is answered under the call id the provider issued - or the follow-up is not sent at all
            issued = c["_cid"]
            for k, ans_ in enumerate(runloop.answered_ids(res["requests"], c["config"]["stateless_history"])):
                if any(a_ != issued for a_ in ans_) or len(ans_) > 1:
                    v.violation(f"{c['id']}: follow-up request {k + 1} answers call ids {[a_[:80] for a_ in ans_]}, the provider issued {issued[:80]!r} ({len(issued)} characters)", rep)
                    break
    # ---- independent schema oracle over every request body any case of this check sent
    import os
    import subprocess
    from ..common import REPO, VERIF
    rq_path = os.path.join(wd, "requests.ndjson")
    owner = {}
    with open(rq_path, "w") as f:
        for group, rs, cs in (("runs", results, by_id), ("echo", eres, eby)):
            for res in rs:
                for k, rq in enumerate(res.get("requests") or []):
                    key = f"{group}:{res['id']}:{k}"
                    owner[key] = cs[res["id"]]
                    f.write(json.dumps({"k": key, "body": rq["body"]}) + "\n")
    p = subprocess.run(["python3-vt", os.path.join(VERIF, "tools", "validate_requests.py"), os.path.join(REPO, "schemas", "openresponses"), rq_path],
                       stdout=subprocess.PIPE, stderr=subprocess.PIPE, text=True, timeout=1200)
    if p.returncode != 0:
        log(p.stderr[-2000:])
        die_tool("tools/validate_requests.py failed")
    nvalidated, seen_bad = 0, set()
    for line in p.stdout.splitlines():
        o = json.loads(line)
        if "distinct_bodies" in o:
            v.cov["request_bodies_validated_distinct"] = o["distinct_bodies"]
            continue
        nvalidated += 1
        if o["errors"]:
            c = owner[o["k"]]
            if c["id"] in seen_bad:
                continue
            seen_bad.add(c["id"])
            v.violation(f"a request that fails the CreateResponseBody schema was sent (case {c['id']}, request {o['k'].split(':')[-1]}): {o['errors'][0][:300]}",
                        {"engine": "runs", "guard": "schema", "case": {k: c[k] for k in c if not k.startswith("_")}})
    v.cov["request_bodies_validated"] = nvalidated
    # ---- a request that fails validation is never sent
    bad = {"id": "invalid", "script": [{"status": 200, "chunks": ["data: [DONE]\n\n"]}], "linked": True, "input": "x",
           "config": {"tool_choice": {"type": "function"}}, "timeout_ms": 15000}
    res = run_harness("runs", [bad], wd, "invalid", shards=1, timeout=600)[0]
    v.add_eval({"invalid_request": True}, True)
    sf = res["session_frames"][-1] if res["session_frames"] else []
    reason = next((f["reason"] for f in sf if f["type"] == "session_ended"), None)
    if res["requests"] or reason != "invalid_request":
        v.violation(f"a request with validation errors was sent ({len(res['requests'])} requests, reason {reason})", {"engine": "runs", "case": bad})
    v.cov["traces_validated_against_impl"] = len(results) + 1
    v.assumptions += ["the scripted provider records exactly the request bodies the agent loop sent; tool side effects are observed through the appended file and tool_started frames",
                      "call alphabet: 3-4 items (duplicate call id via a repeated done event, reversed output order, unknown tool, read-only vs mutating tool)"]
    return v.finish(
        rule="cases = one provider script per distinct predicted run of RunLoop.tla (outcomes x call items x tool_choice x history mode) + the 32-call budget script + an invalid request; "
             "non-trivial = the script contains at least one function call; distinct by (configuration, script)",
        exhaustive=True)


def _allowed(choice, tool):
    return {"none": False, "allowed_hosted_only": False, "fn_ls": tool == "ls", "allowed_write": tool == "write"}.get(choice, True)


def _short(script):
    return [(r["outcome"], "rid" if r["rid"] else "-", [(c["cid"], c["tool"], c["idx"], "dup" if c["dup"] else "") for c in r["calls"]]) for r in script]


def replay(path, seed):
    with open(path) as f:
        rep = json.load(f)
    case = rep["case"]
    wd = workdir(PROP + "-replay")
    res = run_harness("runs", [case["case"]], wd, "replay")[0]
    if case.get("guard") in ("schema", "echo"):
        import os
        import subprocess
        from ..common import REPO, VERIF
        rq_path = os.path.join(wd, "requests.ndjson")
        with open(rq_path, "w") as f:
            for k, rq in enumerate(res.get("requests") or []):
                f.write(json.dumps({"k": str(k), "body": rq["body"]}) + "\n")
        p = subprocess.run(["python3-vt", os.path.join(VERIF, "tools", "validate_requests.py"), os.path.join(REPO, "schemas", "openresponses"), rq_path],
                           stdout=subprocess.PIPE, stderr=subprocess.PIPE, text=True, timeout=600)
        bad = [json.loads(l) for l in p.stdout.splitlines() if json.loads(l).get("errors")]
        print(json.dumps({"requests": len(res.get("requests") or []), "invalid": bad})[:2000])
        if bad or p.returncode != 0 or res["timed_out"]:
            print(f"VIOLATION property={PROP} replay={path}")
            return 1
        return 0
    sf = res["session_frames"][-1]
    ex = runloop.executed_tools(sf)
    pred = case["model"]["run"]
    res["requests"] = res["requests"][case.get("pre", 0):]      # requests of an earlier message on the thread
    ans = runloop.answered_ids(res["requests"], case["model"]["cfg"]["stateless"])
    print(json.dumps({"executed": ex, "answered": ans, "requests": len(res["requests"]), "reference": pred}, indent=1)[:2500])
    if ex != [t for _, t in pred["executed"]] or ans != pred["answered"][:max(0, len(res["requests"]) - 1)]:
        print(f"VIOLATION property={PROP} replay={path}")
        return 1
    return 0
