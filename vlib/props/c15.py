"""C15 — provider stream decoding is lossless and chunking-invariant.

 SseLines.tla transcribes SseDecoder::push/finish (pending line tail, event name, data lines) and
 Utf8.tla the UTF-8 carry of session.rs push_bytes at the grain of character / byte classes.
 TLC checks ChunkInvariant on every stream up to a bound x EVERY partition into chunks (and, for
 the byte stage, equality with the whole-stream lossy decode), and prints every stream with the
 reference output.  The harness feeds each stream to the real SseDecoder + EventFrameMapper under
 all token-boundary partitions plus every single byte cut plus one byte at a time, and sends the
 UTF-8 streams (and hand-written framing streams) through real session runs against a provider
 that controls the TCP chunking.  Oracles: output equal for all partitions; equal to the model's
 reference; one provider frame per event in order incl. [DONE] and invalid JSON with the payload
 unchanged; output text = concatenation of the text deltas; frame seqs contiguous."""
import itertools
import json

from .. import tlc
from ..common import Verdict, workdir, run_harness, log, die_tool

PROP = "C15"

SYM = {"n": "\n", "r": "\r", "D": "data:", "E": "event:", "c": ":", "s": " ", "x": "1", "y": "[DONE]", "z": "{"}
BYTE = {"a": b"a", "l2": b"\xc3", "l3": b"\xe2", "l4": b"\xf0", "c": b"\x90", "x": b"\xff"}
PREFIX = b'data: {"type":"response.output_text.delta","delta":"'
SUFFIX = b'"}\n\ndata: [DONE]\n\n'


def conc(seq):
    return "".join(SYM[s] for s in seq)


def token_offsets(stream):
    offs, pos = [], 0
    for s in stream[:-1]:
        pos += len(SYM[s])
        offs.append(pos)
    return offs


def subsets(xs, cap=None):
    out = []
    for r in range(len(xs) + 1):
        for c in itertools.combinations(xs, r):
            out.append(list(c))
    return out if cap is None else out[:cap]


def expected_events(ref):
    out = []
    for e in ref:
        ev = None if e["ev"] == ["none"] else conc(e["ev"])
        out.append((ev, conc(e["data"])))
    return out


def run(tier, seed):
    v = Verdict(PROP, tier, seed)
    wd = workdir(PROP)
    thorough = tier == "thorough"
    r = tlc.run("SseLines", "SseLines_mc.cfg", workers=8, timeout=1800, heap="8g")
    v.add_tlc(r, "SseLines: ChunkInvariant over all streams (7 symbols, length <= 5) x all partitions")
    if not r.ok:
        log(r.out[-2000:])
        die_tool("SseLines violates ChunkInvariant (specification / transcription error)")
    r = tlc.run("Utf8", "Utf8_fixed.cfg", workers=8, timeout=1800, heap="8g")
    v.add_tlc(r, "Utf8: ChunkInvariant + MatchesLossy over all byte-class streams (length <= 6) x all partitions")
    if not r.ok:
        log(r.out[-2000:])
        die_tool("Utf8 (error-length consumption) violates its invariants: specification error")
    r = tlc.run("Utf8", "Utf8_impl.cfg", workers=4, timeout=600)
    v.add_tlc(r, "Utf8 with the start-of-buffer one-byte consumption of the pinned commit: counterexample expected (D8, non-vacuity)")
    v.cov["d8_counterexample"] = bool(r.violated)

    # ---- framing stage on the real decoder
    g = tlc.run("GenSseLines", "GenSseLines_t.cfg" if thorough else "GenSseLines_q.cfg", workers=1, timeout=1800, heap="8g")
    v.add_tlc(g, "GenSseLines: every stream with its reference event sequence")
    if g.errors or not g.cases:
        die_tool("GenSseLines failed")
    dcases = []
    for i, c in enumerate(g.cases):
        text = conc(c["stream"])
        parts = subsets(token_offsets(c["stream"]))
        parts += [[k] for k in range(1, len(text))]
        parts.append(list(range(1, len(text))))
        dcases.append({"id": f"d{i}", "mode": "decoder", "text": text, "partitions": parts, "_ref": c["ref"], "_stream": c["stream"]})
    res = run_harness("sse", [{k: c[k] for k in c if not k.startswith("_")} for c in dcases], wd, "dec", shards=12, timeout=1800)
    by_id = {c["id"]: c for c in dcases}
    nparts = 0
    for rr in res:
        c = by_id[rr["id"]]
        whole = rr["results"][0]["out"]
        exp = expected_events(c["_ref"])
        nontrivial = len(exp) > 0 or "D" in c["_stream"]
        rep = {"engine": "sse", "case": {k: c[k] for k in c if not k.startswith("_")}}
        if whole.get("panic"):
            v.violation(f"decoder panicked on {c['text']!r}", rep)
            continue
        got = [(e["event"], e["raw"]) for e in whole["events"]]
        if got != exp:
            v.violation(f"decoded events {got} differ from the reference {exp} for stream {c['text']!r}", dict(rep, expected=exp, got=got))
        # frames: one provider frame per event, in order, payload unchanged; deltas; contiguous seq
        fr = whole["frames"]
        prov = [f for f in fr if f["type"] == "provider_event"]
        if len(prov) != len(got) or [f["seq"] for f in fr] != list(range(len(fr))):
            v.violation(f"frames do not match events one-to-one / seq not contiguous for {c['text']!r}", dict(rep, frames=fr))
        for e, f in zip(whole["events"], prov):
            want_status = {"done": "done", "invalid_json": "invalid_json", "event": "event"}[e["kind"]]
            payload_ok = (f["raw"] == e["raw"]) if e["kind"] != "event" else (f["data"] == e["data"])
            if f["status"] != want_status or not payload_ok or (e["raw"] == "[DONE]") != (e["kind"] == "done"):
                v.violation(f"provider frame does not carry the event unchanged: event {e}, frame {f}", dict(rep, frames=fr))
        for p in rr["results"]:
            nparts += 1
            v.add_eval({"stream": c["_stream"], "cuts": p["cuts"]}, nontrivial and len(p["cuts"]) > 0)
            if p["out"] != whole:
                v.violation(f"chunking changes the decode of {c['text']!r}: cuts {p['cuts']}", dict(rep, cuts=p["cuts"], whole=whole, chunked=p["out"]))
                break
        if len(v.cov["samples"]) < 2 and len(exp) >= 1 and len(c["_stream"]) >= 4:
            v.sample({"stream": c["_stream"], "text": c["text"], "reference_events": exp, "partitions_tried": len(rr["results"])})

    # ---- byte stage + whole pipeline through real runs with controlled TCP chunking
    g = tlc.run("GenUtf8", "GenUtf8_t.cfg" if thorough else "GenUtf8_q.cfg", workers=1, timeout=900)
    v.add_tlc(g, "GenUtf8: every byte-class stream with its reference (lossy) decode")
    rcases = []
    maxlen = 4 if thorough else 3
    for i, c in enumerate(g.cases):
        st = c["stream"]
        if len(st) > maxlen or all(x == "a" for x in st):
            continue
        payload = b"".join(BYTE[x] for x in st)
        body = PREFIX + payload + SUFFIX
        base = len(PREFIX)
        cuts = subsets([base + k for k in range(1, len(payload))])
        cuts = [cs for cs in cuts if cs]        # the unsplit stream is the reference run, added once below
        if not thorough and len(cuts) > 3:
            cuts = cuts[:2] + [cuts[-1]]
        expect = payload.decode("utf-8", "replace")
        rcases.append({"id": f"u{i}", "mode": "run", "hex": body.hex(), "partitions": [[]] + cuts, "_expect": expect, "_stream": st, "_ref": c["ref"]})
    framing = [
        b'event: response.output_text.delta\r\ndata: {"type":"response.output_text.delta","delta":"he"}\r\n\r\n: comment\r\ndata: {"type":"response.output_text.delta",\ndata: "delta":"llo"}\n\ndata: {not json}\n\ndata: [DONE]\n\n',
        b'data: {"type":"response.output_text.delta","delta":"\xc3\xa9\xe2\x82\xac"}\n\nevent: x\ndata: [DONE]\n\ndata: {"type":"response.output_text.delta","delta":"tail"}',
    ]
    # every way a body can END without the terminal marker: after a complete event, inside the blank line that ends the last
    # event (a lone CR, CR LF CR, LF CR), after an unterminated data line - with events already delivered before it
    two = b'data: {"type":"response.output_text.delta","delta":"a"}\r\n\r\ndata: {"type":"response.output_text.delta","delta":"b"}'
    ends = [b"", b"\n", b"\r", b"\r\n", b"\r\n\r", b"\n\r", b"\r\r", b"\n\n", b"\r\n\r\n", b"\r\n\r\ndata: {\"type\":\"response.completed\"}\r\n\r"]
    nframing0 = len(framing)
    framing += [two + e_ for e_ in ends]
    for k, body in enumerate(framing):
        step = 1 if thorough else 4
        if k >= nframing0:
            step = 1 if thorough else 9
        cuts = [[p] for p in range(1, len(body), step)]
        rcases.append({"id": f"f{k}", "mode": "run", "hex": body.hex(), "partitions": [[]] + cuts, "_expect": None, "_stream": None})
    rres = run_harness("sse", [{k: c[k] for k in c if not k.startswith("_")} for c in rcases], wd, "run", shards=14, timeout=2400)
    by_id = {c["id"]: c for c in rcases}
    nruns = 0
    for rr in rres:
        c = by_id[rr["id"]]
        rep = {"engine": "sse", "case": {k: c[k] for k in c if not k.startswith("_")}}
        def proj(out):
            fr = out["frames"]
            return [(f["type"], f["status"], f["raw"], json.dumps(f["data"], sort_keys=True), f["event_name"], f["delta"]) for f in fr
                    if f["type"] in ("provider_event", "output_text_delta")]
        whole = rr["results"][0]["out"]
        if whole.get("timed_out"):
            v.violation(f"run against the scripted provider did not end ({c['id']})", rep)
            continue
        wp = proj(whole)
        if c["_expect"] is not None:
            text = "".join(f["delta"] for f in whole["frames"] if f["type"] == "output_text_delta")
            if text != c["_expect"]:
                v.violation(f"output text {text!r} differs from the lossy decode {c['_expect']!r} of bytes {c['hex'][len(PREFIX.hex()):-len(SUFFIX.hex())]}", dict(rep, got=text))
            classes = "".join({"A": "a", "U": "u", "R": "�"}[x] for x in c["_ref"])
            shape = "".join("a" if ch == "a" else ("�" if ch == "�" else "u") for ch in c["_expect"])
            if classes != shape:
                v.drift({"case": c["id"], "model_ref": c["_ref"], "python_lossy": c["_expect"]})
        for p in rr["results"]:
            nruns += 1
            out = p["out"]
            v.add_eval({"bytes": c["hex"], "cuts": p["cuts"]}, len(p["cuts"]) > 0)
            seqs = [f["seq"] for f in out["frames"]]
            if seqs != list(range(len(seqs))):
                v.violation(f"session frame numbering has a gap / repeat: {seqs}", dict(rep, cuts=p["cuts"]))
            if out.get("timed_out"):
                v.violation(f"run did not end with cuts {p['cuts']}", dict(rep, cuts=p["cuts"]))
            elif proj(out) != wp:
                v.violation(f"TCP chunking {p['cuts']} changes the frames of a run (bytes {c['hex'][:80]}...): {proj(out)} vs unsplit {wp}",
                            dict(rep, cuts=p["cuts"]))
        if len(v.cov["samples"]) < 4 and c["_stream"] and len(c["_stream"]) >= 3:
            v.sample({"byte_classes": c["_stream"], "payload_hex": b"".join(BYTE[x] for x in c["_stream"]).hex(),
                      "expected_text": c["_expect"], "partitions_run": len(rr["results"])})
    v.cov["decoder_partitions"] = nparts
    v.cov["real_runs"] = nruns
    v.cov["traces_validated_against_impl"] = nruns
    v.assumptions += ["value fidelity for arbitrary unicode is represented by the byte classes ascii / 2,3,4-byte lead / continuation / never-valid",
                      "the scripted provider's TCP chunk boundaries reach reqwest unchanged (TCP_NODELAY, one write+flush per chunk, 45 ms apart)"]
    return v.finish(
        rule="cases = (stream, partition) pairs: every symbol stream of the model x token-boundary subsets + every single byte cut + one byte at a time on the real decoder; "
             "byte-class streams and framing streams x cut sets through real runs; non-trivial = at least one cut; distinct by (stream, cuts)",
        exhaustive=True)


def replay(path, seed):
    with open(path) as f:
        rep = json.load(f)
    case = rep["case"]
    wd = workdir(PROP + "-replay")
    c = dict(case["case"])
    if "cuts" in case:
        c["partitions"] = [[], case["cuts"]]
    res = run_harness("sse", [c], wd, "replay", timeout=900)[0]
    whole = res["results"][0]["out"]
    bad = any(p["out"] != whole for p in res["results"])
    print(json.dumps(res["results"][:2], indent=1)[:3000])
    if bad or "expected" in case:
        print(f"VIOLATION property={PROP} replay={path}")
        return 1
    return 0
