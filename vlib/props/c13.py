"""C13 — no path argument can reach outside the workspace root.

 PathGuard.tla enumerates path shapes (anchoring x component sequences over existing file /
 existing dir / missing / .. / . / empty / long / non-ASCII x trailing slash) for the nine
 path-taking operations and states the guard Refused(op, shape); TLC proves GuardSound (what is
 not refused stays lexically inside the root) and prints every (op, shape) with the prediction.
 The harness runs each one through the REAL router (tool envelopes, checkpoint envelopes, task
 spawn - so the auto-checkpoint hook sees the raw argument first) inside a sentinel tree with
 canary files around the root, with the process working directory equal to and different from the
 root.  Effect-based oracles: nothing outside the root changes (also not by a later rewind); a
 refused request reports failure and changes neither the workspace nor the checkpoint store; no
 outside content appears in any output frame or in the checkpoint store; ls / grep answers are
 the same with and without active ignore files in the parent of the root."""
import json

from .. import tlc
from ..common import Verdict, workdir, run_harness, log, die_tool

PROP = "C13"


def run(tier, seed):
    v = Verdict(PROP, tier, seed)
    wd = workdir(PROP)
    thorough = tier == "thorough"
    g = tlc.run("GenPathGuard", "GenPathGuard_t.cfg" if thorough else "GenPathGuard_q.cfg", workers=2, timeout=900)
    v.add_tlc(g, "GenPathGuard: every (operation, path shape) with Refused; invariant GuardSound")
    if not g.ok or not g.cases:
        log(g.out[-2000:])
        die_tool("PathGuard.tla: GuardSound violated or TLC error")
    shapes = g.cases
    answers = {}
    total = 0
    for cwd in ("root", "elsewhere"):
        for ign in (False, True):
            sel = shapes if not ign else [c for c in shapes if c["op"] in ("ls", "grep") and not c["refused"]]
            if not thorough and cwd == "elsewhere":
                sel = [c for c in sel if len(c["shape"]["comps"]) <= 1 or c["op"] in ("ckpt_create", "write", "apply_patch")]
            cases = [{"id": f"{cwd}-{int(ign)}-{i}", "op": c["op"], "shape": c["shape"], "cwd": cwd, "outer_ignore": ign, "_refused": c["refused"]}
                     for i, c in enumerate(sel)]
            # one process per shard owns one sentinel tree and one working directory
            results = run_harness("pathguard", [{k: c[k] for k in c if not k.startswith("_")} for c in cases], wd, f"pg-{cwd}-{int(ign)}",
                                  shards=12, timeout=3000)
            by_id = {c["id"]: c for c in cases}
            for res in results:
                c = by_id[res["id"]]
                total += 1
                refused = c["_refused"]
                sh = c["shape"]
                nontrivial = (".." in sh["comps"]) or sh["anchor"] != "rel" or cwd == "elsewhere"
                v.add_eval({"op": c["op"], "shape": sh, "cwd": cwd, "ign": ign}, nontrivial)
                rep = {"engine": "pathguard", "case": {k: c[k] for k in c if not k.startswith("_")}, "refused": refused, "path": res["path"]}
                def key_for(kind):
                    return None
                if res["outside_changed"]:
                    v.violation(f"{c['op']}({res['path']!r}, cwd={cwd}) changed files outside the root: {res['outside_diff']}", dict(rep, obs=res))
                if res["rewind"] and res["rewind"].get("outside_changed"):
                    v.violation(f"rewind of a checkpoint of {res['path']!r} (cwd={cwd}) wrote outside the root: {res['rewind']['diff']}", dict(rep, obs=res))
                if res["leak_output"]:
                    v.violation(f"{c['op']}({res['path']!r}, cwd={cwd}) returned content from outside the root", dict(rep, obs=res))
                if res["leak_store"]:
                    v.violation(f"{c['op']}({res['path']!r}, cwd={cwd}) copied content from outside the root into the checkpoint store", dict(rep, obs=res))
                if refused:
                    if not res["failed"]:
                        v.violation(f"{c['op']}({res['path']!r}) must be refused but was accepted", dict(rep, obs=res))
                    if res["ws_changed"] or res["store_changed"]:
                        v.violation(f"refused {c['op']}({res['path']!r}, cwd={cwd}) had a side effect (workspace changed={res['ws_changed']}, checkpoint store changed={res['store_changed']})",
                                    dict(rep, obs=res))
                if c["op"] in ("ls", "grep") and not refused:
                    answers[(cwd, c["op"], json.dumps(sh, sort_keys=True), ign)] = (res["answer"], rep)
                if len(v.cov["samples"]) < 3 and nontrivial and c["op"] in ("ckpt_create", "write"):
                    v.sample({"op": c["op"], "path": res["path"], "cwd": cwd, "model_refused": refused,
                              "observed": {k: res[k] for k in ("failed", "outside_changed", "ws_changed", "store_changed", "leak_output", "leak_store")}})
    for (cwd, op, sh, ign), (ans, rep) in answers.items():
        if ign:
            base = answers.get((cwd, op, sh, False))
            if base is not None and base[0] != ans:
                v.violation(f"{op}({rep['path']!r}) answers differently when ignore files exist in the PARENT of the root: {ans} vs {base[0]}",
                            dict(rep, with_outer_ignore=ans, without=base[0]), key="D17-ignore-files-of-root-parents-consulted")
    # ---- a rewind that fails half-way rolls back: with the process's working directory outside the root (holding files of the same
    #      names) the roll-back, like every other step, must not touch anything there (checkpoint engine of ./check C14, judged here
    #      only on what happens outside the root)
    from . import c14
    fr = c14.failing_rewinds()
    extra = []
    for c in fr:
        # the same with files that exist (changed) when the rewind starts: the roll-back writes their bytes back
        c2 = {"fs0": dict(c["fs0"]), "steps": [c["steps"][0], {"o": {"k": "write", "p": "g" if c["steps"][1]["o"]["p"] != "g" else "f", "v": "v3"}}] + c["steps"][1:]}
        extra.append(c2)
    fcases = [{"id": f"failrw-{i}", "fs0": c["fs0"], "steps": [{"o": st["o"]} for st in c["steps"]], "cwd": "elsewhere", "mode": "direct"} for i, c in enumerate(fr + extra)]
    for res in run_harness("ckpt", fcases, wd, "failrw", shards=4, timeout=900):
        total += 1
        c = next(x for x in fcases if x["id"] == res["id"])
        v.add_eval({"failing_rewind": c["steps"]}, True)
        for k, ob in enumerate(res["obs"]):
            if ob.get("outside_changed"):
                v.violation(f"step {k} ({c['steps'][k]['o']}) of a history with a rewind that fails half-way changed files outside the root (process working directory outside "
                            f"the workspace): {ob['outside_changed']}; ops {[st['o'] for st in c['steps']]}", {"engine": "ckpt", "case": c, "step": k, "observed": ob})
                break
    v.cov["failing_rewind_histories_outside_cwd"] = len(fcases)
    v.cov["traces_validated_against_impl"] = total
    v.assumptions += ["'nothing outside is read' is observed through canary contents and active ignore files, not proved",
                      "symbolic links that already exist inside the workspace are workspace state, not path arguments (out of scope)"]
    return v.finish(
        rule="cases = (operation, path shape, working directory, outer ignore files) tuples from PathGuard.tla; "
             "non-trivial = the shape has a '..' component, is absolute, or the working directory differs from the root; distinct by tuple",
        exhaustive=True)


def replay(path, seed):
    with open(path) as f:
        rep = json.load(f)
    case = rep["case"]
    wd = workdir(PROP + "-replay")
    if case.get("engine") == "ckpt":
        res = run_harness("ckpt", [case["case"]], wd, "replay")[0]
        bad = [ob["outside_changed"] for ob in res["obs"] if ob.get("outside_changed")]
        print(json.dumps({"outside_changed": bad}))
        if bad:
            print(f"VIOLATION property={PROP} replay={path}")
            return 1
        return 0
    res = run_harness("pathguard", [case["case"]], wd, "replay")[0]
    print(json.dumps(res, indent=1)[:2500])
    bad = res["outside_changed"] or res["leak_output"] or res["leak_store"] or (res["rewind"] and res["rewind"].get("outside_changed")) or \
        (case["refused"] and (not res["failed"] or res["ws_changed"] or res["store_changed"]))
    if bad:
        print(f"VIOLATION property={PROP} replay={path}")
        return 1
    return 0
