"""C02 — the truth log is append-only; read-only and no-op capabilities never write.

 1. TLC checks on Threads.tla that the reference semantics itself appends nothing for read-only /
    no-op / failing invocations (ReadOnlyQuiet) and enumerates every distinct store state with
    the predicted effect of EVERY operation of the alphabet in it (GenThreads).
 2. The harness runs, per state, the path and then every operation (one implementation test per
    transition); around every call the bytes of events.jsonl are compared: old content must be
    an exact prefix, the addition must be whole newline-terminated frames, and must be empty when
    the model predicts no frame (read-only capability, dry run, no-op, refused request, unknown
    or malformed thread id).
 3. Histories with restarts, cache faults (rebuild paths) and an injected append failure are
    validated by TLC against StoreSeq's AppendOnly (LogDeltaTrace)."""
import json
import os

from .. import tlc, threads
from ..common import Verdict, workdir, run_harness, write_ndjson, log, die_tool

PROP = "C02"


def build_cases(gcases, small_unknown=True):
    cases = []
    for i, gc in enumerate(gcases):
        path = [{"op": "ensure_default"}] + [threads.concretise(o) for o in gc["path"]]
        trans = []
        meta = []
        for tr in gc["trans"]:
            o, e = tr["o"], tr["e"]
            mut = bool(e["new"] or e["child"])
            unknowns = [99]
            if o["t"] == 0 and len(gc["path"]) <= 1:
                unknowns = threads.UNKNOWN_IDS
            for u in (unknowns if o["t"] == 0 else [99]):
                trans.append({"op": threads.concretise(o, u), "mut": mut})
                meta.append((o, e))
        cases.append({"id": f"s{i}", "path": path, "trans": trans, "_meta": meta, "_gc": gc})
    return cases


def run(tier, seed):
    v = Verdict(PROP, tier, seed)
    wd = workdir(PROP)
    thorough = tier == "thorough"
    cfg = "GenThreads_t.cfg" if thorough else "GenThreads_q.cfg"
    g = threads.generate(cfg, timeout=3000 if thorough else 900)
    v.add_tlc(g, f"GenThreads ({cfg}): every distinct store state + Eff of every operation; invariants ReadOnlyQuiet, AutoIdempotent, LineageSound, CutPointsAreStrideMessages")
    if not g.ok:
        log(g.out[-3000:])
        die_tool("Threads.tla: invariant of the reference semantics violated or TLC error")
    cases = build_cases(g.cases)
    hcases = [{k: c[k] for k in ("id", "path", "trans")} for c in cases]
    results = run_harness("trans", hcases, wd, "trans", shards=14, timeout=3000)
    by_id = {c["id"]: c for c in cases}
    n_quiet = 0
    for res in results:
        c = by_id[res["id"]]
        gc = c["_gc"]
        # path ops
        tl = 1
        for k, (r, o) in enumerate(zip(res["path"], [{"op": "ensure_default"}] + gc["path"])):
            lg = r["log"]
            if not (lg["prefix_ok"] and lg["nl"] and lg["lines_ok"]):
                v.violation(f"log not extended by whole frames by path op {o['op']}",
                            {"engine": "trans", "case": {k2: c[k2] for k2 in ("id", "path", "trans")}, "at": ["path", k], "log": lg})
        for k, (r, (o, e)) in enumerate(zip(res["trans"], c["_meta"])):
            diffs = threads.compare(o, e, r, 0)
            quiet_pred = not (e["new"] or e["child"])
            n_quiet += 1 if quiet_pred else 0
            v.add_eval({"state": gc["path"], "op": o}, quiet_pred and len(gc["path"]) > 0)
            for cat, detail in diffs:
                if cat in ("log", "quiet"):
                    v.violation(f"{cat}: op {o} in state reached by {len(gc['path'])} ops: {detail}",
                                {"engine": "trans", "case": {"id": c["id"], "path": c["path"], "trans": [c["trans"][k]]},
                                 "model_op": o, "predicted": e, "detail": detail})
                else:
                    v.drift({"state": c["id"], "op": o, "category": cat, "detail": detail})
        if len(v.cov["samples"]) < 2 and len(gc["path"]) >= 2:
            k = next((i for i, (o, e) in enumerate(c["_meta"]) if o["op"] == "schedule" and o["z"] % 2 == 1 and o["t"] == 1), 0)
            v.sample({"path": c["path"], "op": c["trans"][k]["op"], "predicted": c["_meta"][k][1],
                      "observed_log_delta": {kk: res["trans"][k]["log"][kk] for kk in ("len_before", "len_after", "prefix_ok", "nl", "added")}})
    v.cov["quiet_predictions_checked"] = n_quiet

    # ---- histories with restarts, cache faults and an injected append failure; TLC validates AppendOnly
    hist_cases = []
    base = [{"op": "ensure_default"}, {"op": "message", "t": 0}, {"op": "message", "t": 0},
            {"op": "checkpoint", "t": 0, "to_msg": 0}]
    reads = [{"op": "replay", "t": 0}, {"op": "cut_points", "t": 0, "stride": 1, "limit": 4},
             {"op": "status", "t": 0, "stride": 1}, {"op": "cursor_status", "t": 0},
             {"op": "selection_status", "t": 0}, {"op": "list"}, {"op": "replay_all"}]
    files = ["full", "seek", "msgidx", "mr", "mrseek", "mrmsg", "mrord", "comp", "compidx"]
    kinds = ["delete", "truncate", "garbage", "chop_last_line", "empty"]
    n = 0
    for f in files:
        for kd in (kinds if thorough else kinds[:3]):
            ops = base + [{"op": "fault", "t": 0, "file": f, "kind": kd}] + reads + \
                [{"op": "restart"}] + reads + [{"op": "message", "t": 0}] + reads
            hist_cases.append({"id": f"h{n}", "ops": ops})
            n += 1
    hist_cases.append({"id": f"h{n}", "ops": base + [{"op": "drop_caches"}, {"op": "restart"}] + reads})
    n += 1
    for fa_op in ({"op": "message", "t": 0}, {"op": "auto", "t": 0, "stride": 1, "max_new": 2},
                  {"op": "branch", "t": 0}, {"op": "checkpoint", "t": 0, "to_msg": 1}):
        for nth in (1, 2):
            hist_cases.append({"id": f"h{n}", "ops": base + [dict(fa_op, fail_append=nth)] + reads + [{"op": "message", "t": 0}]})
            n += 1
    # a store whose rebuildable thread index is lost / unreadable and whose log is as a crash or an earlier failed
    # append left it (clean, torn last line, a frame of another stream with a seq gap): after a restart, asking for the
    # default thread - which exists in the log - and every read capability add nothing, whether they answer or refuse
    for ikind in ("delete", "garbage", "empty"):
        for lkind in (None, "tear_last_line", "append_gap"):
            dmg = [{"op": "fault", "t": 0, "file": "index", "kind": ikind}] + ([{"op": "fault", "t": 0, "file": "log", "kind": lkind}] if lkind else [])
            ops = base + dmg + [{"op": "restart"}, {"op": "ensure_default", "expect_quiet": True}, {"op": "ensure_default", "expect_quiet": True}] + reads + \
                [{"op": "restart"}, {"op": "ensure_default", "expect_quiet": True}]
            hist_cases.append({"id": f"h{n}-idx-{ikind}-{lkind}", "ops": ops})
            n += 1
    hres = run_harness("hist", hist_cases, wd, "hist", shards=8, timeout=1200)
    lines = []
    for res in hres:
        lines.append({"ev": "reset"})
        for r in res["results"]:
            lg = r["log"]
            op = lg["op"]
            ro = op["op"] in threads.READ_ONLY or op["op"] in ("restart", "drop_caches", "list", "replay_all", "save_cache") or bool(op.get("expect_quiet")) \
                or (op["op"] == "fault" and op.get("file") != "log")
            if op["op"] == "fault" and op.get("file") == "log":
                lines.append({"ev": "reset", "damaged": True})       # the harness damaged the log itself: observations start again from here
                continue
            lines.append({"ev": "call", "op": op["op"], "ro": ro, "ok": bool(r["ok"]), "len_before": lg["len_before"],
                          "len_after": lg["len_after"], "prefix_ok": lg["prefix_ok"], "nl": lg["nl"],
                          "lines_ok": lg["lines_ok"], "added": lg["added"], "failed_append": "fail_append" in op})
            v.add_eval({"hist": res["id"], "op": op}, ro)
    tpath = os.path.join(wd, "delta_trace.ndjson")
    write_ndjson(tpath, lines)
    r, rejected = tlc.validate_trace("LogDeltaTrace", "LogDeltaTrace.cfg", tpath, timeout=600)
    v.add_tlc(r, "LogDeltaTrace: AppendOnly / WholeFrames / ReadOnlyQuiet on byte-level observations around every call")
    v.cov["traces_validated_against_impl"] += len(hres)
    bad = [p for p in r.prints if p[0] == "BADCALL"]
    if bad or r.violated:
        v.violation(f"byte-level observation violates {r.violated}: {bad[:2]}", {"engine": "hist-trace", "bad": bad[:3], "trace": tpath})
    elif not r.ok:
        log(r.out[-2000:])
        die_tool("LogDeltaTrace failed to run")
    # ---- concurrent actors on one log, frames around and far above the writer's 8 KiB buffer: only whole frames, whatever the
    # interleaving (StoreSeq: Append is one atomic step; the suite appends from one thread, and small frames are one write anyway)
    lc = []
    reps = 6 if thorough else 2
    for rep in range(reps):
        for name, ws in (("big-small", [{"n": 30, "pad": 48000}, {"n": 30, "pad": 48000}, {"n": 200, "pad": 10}, {"n": 200, "pad": 10}]),
                         ("edge", [{"n": 120, "pad": 8100}, {"n": 120, "pad": 8192}, {"n": 120, "pad": 8300}, {"n": 120, "pad": 7900}]),
                         ("many", [{"n": 60, "pad": 9000 + 1000 * k} for k in range(8)])):
            lc.append({"id": f"lc-{name}-{rep}", "writers": ws})
    for res in run_harness("logconc", lc, wd, "logconc", shards=min(6, len(lc)), timeout=600):
        v.add_eval({"logconc": res["id"]}, res["frames"] > 100)
        whole = res["bad_lines"] == 0 and res["ends_with_newline"] and res["frames"] == res["acked"] and res["misnumbered"] == 0 and res["replay_validated"]
        if not whole:
            c = [x for x in lc if x["id"] == res["id"]][0]
            v.violation(f"concurrent appends ({res['id']}: writers {c['writers']}): the log is not a sequence of whole frames: {res['bad_lines']} unparsable lines (first {res['first_bad']}), "
                        f"{res['frames']} frames for {res['acked']} acknowledged appends, ends with newline={res['ends_with_newline']}, misnumbered={res['misnumbered']}, replay_validated={res['replay_validated']}",
                        {"engine": "logconc", "case": c})
    v.cov["concurrent_appenders"] = {"runs": len(lc)}
    v.assumptions += ["the byte content of data/events.jsonl is read before and after every call (sequential histories)",
                      "thread lengths <= MaxFrames and operation paths <= MaxOps of the chosen configuration"]
    return v.finish(
        rule="cases = (distinct store state of Threads.tla, operation of the alphabet) pairs + fault/restart histories; "
             "non-trivial = the model predicts that nothing is appended (read-only, dry-run, no-op, refused, unknown thread) in a non-initial state; "
             "distinct by (state path, op descriptor)",
        exhaustive=True)


def replay(path, seed):
    with open(path) as f:
        rep = json.load(f)
    if rep["case"].get("engine") == "logconc":
        wd = workdir(PROP + "-replay")
        bad = 0
        for _ in range(5):
            res = run_harness("logconc", [rep["case"]["case"]], wd, "replay")[0]
            print(json.dumps(res))
            if res["bad_lines"] or not res["ends_with_newline"] or res["frames"] != res["acked"] or res["misnumbered"] or not res["replay_validated"]:
                bad += 1
        if bad:
            print(f"VIOLATION property={PROP} replay={path}")
            return 1
        return 0
    case = rep["case"]
    wd = workdir(PROP + "-replay")
    if case.get("engine") == "trans":
        res = run_harness("trans", [case["case"]], wd, "replay")[0]
        bad = False
        for r in res["path"] + res["trans"]:
            lg = r["log"]
            if not (lg["prefix_ok"] and lg["nl"] and lg["lines_ok"]):
                bad = True
        e = case.get("predicted")
        if e is not None and not (e["new"] or e["child"]) and res["trans"] and res["trans"][-1]["log"]["added"] > 0:
            bad = True
        print(json.dumps([r["log"] for r in res["trans"]], indent=1)[:2000])
        if bad:
            print(f"VIOLATION property={PROP} replay={path}")
            return 1
        return 0
    print("replay: unsupported")
    return 2
