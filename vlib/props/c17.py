"""C17 — captured process output is faithful; a task has one well-formed lifecycle.

 TaskLife.tla   runner / child process / two pumps / cancel request as separately scheduled steps;
                TLC proves WellFormed (opens with the spawn frame, running at most once, exactly one
                terminal frame and nothing after it, cancel request recorded before the cancelled
                status, consecutive ranges that cover the stored output, stored = prefix up to the cap)
                and termination, and finds the counterexamples of the three excluded designs.
 Capture.tla    the foreground shell tool's capture_stream transcribed as a fold over the reads the OS
                delivers, bytes represented by their position: TLC proves preview / artifact are
                prefixes for EVERY chunking, preview limit and cap, and prints each case.
 Binding: every (limit, cap, chunking) case of Capture is replayed on the real bash tool with a
 writer that produces exactly those reads (three unit sizes, ascii / multi-byte / binary payloads);
 real tasks are run through the router over an alphabet of outputs, caps, limits, exit codes, failure
 kinds and cancel moments; each recorded task stream is validated by TLC against TaskLifeTrace
 together with what the harness measured on disk (byte-for-byte comparison, paging)."""
import hashlib
import json
import os

from .. import tlc
from ..common import Verdict, workdir, run_harness, write_ndjson, log, die_tool

PROP = "C17"
TEXT = "aé漢😀b\nß€𝄞z"            # 1-, 2-, 3- and 4-byte characters


def payload(kind, n, salt=0):
    """n bytes of a position-dependent pattern."""
    if kind == "ascii":
        al = b"abcdefghijklmnopqrstuvwxyz0123456789ABCDEFGHIJKLMNOPQRSTUVWXYZ\n"
        return bytes(al[(i * 7 + salt * 13 + i // 64) % len(al)] for i in range(n))
    if kind == "utf8":
        out = bytearray()
        i = salt
        while len(out) < n:
            ch = TEXT[i % len(TEXT)].encode()
            if len(out) + len(ch) > n:
                ch = b"x"
            out += ch
            i += 1
        return bytes(out)
    al = [0xff, 0x00, 0x80, 0x41, 0xfe, 0xc3, 0x28, 0x0a, 0xe2, 0x82]
    return bytes(al[(i * 3 + salt) % len(al)] for i in range(n))


def printf_of(b):
    return "printf '" + "".join("\\%03o" % x for x in b) + "'"


def writer(chunks):
    """chunks = [(stream, bytes, gap_ms)] -> bash command producing exactly these writes."""
    parts = []
    for (stream, b, gap) in chunks:
        if gap:
            parts.append(f"sleep {gap / 1000.0}")
        if b:
            parts.append(printf_of(b) + (" >&2" if stream == "stderr" else ""))
    return "; ".join(parts) if parts else "true"


def lossy(b):
    return b.decode("utf-8", errors="replace")


def lines_of(text):
    return [ln.rstrip("\r") for ln in text.splitlines()] if text else []


# ------------------------------------------------------------------ foreground tool
def shell_cases(model_cases, thorough, seed):
    cases = []
    units = [1, 3, 700]
    kinds = ["ascii", "utf8", "bin"]
    sel = model_cases if thorough else model_cases[(seed % 3)::3]
    for i, m in enumerate(sel):
        u = units[i % 3]
        kind = kinds[(i // 3) % 3]
        stream = "stdout" if i % 2 == 0 else "stderr"
        total = sum(m["chunks"]) * u
        data = payload(kind, total, i)
        chunks = []
        pos = 0
        for k, c in enumerate(m["chunks"]):
            chunks.append((stream, data[pos:pos + c * u], 35 if k else 0))
            pos += c * u
        cases.append({"id": f"s{i}", "tool": "bash", "artifact_max_bytes": m["A"] * u,
                      "args": {"command": writer(chunks), "max_bytes": m["P"] * u}, "page_sizes": [1, 3, 64, 5000] if total <= 64 else [64, 5000],
                      "_m": m, "_u": u, "_kind": kind, "_stream": stream, "_data": data})
    # volume: the OS decides the chunking; both streams at once
    n = 20000
    seq_bytes = ("\n".join(str(k) for k in range(1, n + 1)) + "\n").encode()
    for j, (P, A) in enumerate([(10000, 50000), (8192, 8193), (100, 16 * 1024 * 1024), (8191, 8192)]):
        cases.append({"id": f"v{j}", "tool": "bash", "artifact_max_bytes": A,
                      "args": {"command": f"seq 1 {n} & seq 1 {n} >&2; wait", "max_bytes": P}, "page_sizes": [5000],
                      "_m": {"P": P, "A": A, "chunks": []}, "_u": 1, "_kind": "ascii", "_stream": "both", "_data": seq_bytes})
    return cases


def judge_shell(v, c, res):
    P, A, u = c["_m"]["P"] * c["_u"], c["_m"]["A"] * c["_u"], c["_u"]
    data = c["_data"]
    total = len(data)
    pub = {k: c[k] for k in c if not k.startswith("_")}
    ended = next((f for f in res["frames"] if f["type"] == "tool_ended"), None)
    if ended is None:
        v.violation(f"shell case {c['id']}: no tool_ended frame", {"engine": "shellcap", "case": pub, "guard": "ended"})
        return
    streams = ["stdout", "stderr"] if c["_stream"] == "both" else [c["_stream"]]
    for s in streams:
        info = (ended.get("artifacts") or {}).get(s) or {}
        ftype = "tool_stdout" if s == "stdout" else "tool_stderr"
        got_lines = [f["chunk"] for f in res["frames"] if f["type"] == ftype]
        problems = []
        bp = info.get("bytes_preview")
        if info.get("bytes_total") != total:
            problems.append(f"bytes_total {info.get('bytes_total')} != {total}")
        if bp != min(total, P):
            problems.append(f"bytes_preview {bp}, expected {min(total, P)}")
        want_lines = lines_of(lossy(data[:min(total, P)]))
        if got_lines != want_lines:
            problems.append(f"preview lines differ from the first {min(total, P)} bytes of the output")
        art = info.get("artifact")
        need = total > P and A > 0
        if need != bool(art):
            problems.append(f"artifact {'missing' if need else 'present'} (total {total}, preview limit {P}, cap {A})")
        if art:
            blob = (res["artifacts"].get(s) or {})
            stored = bytes.fromhex(blob.get("hex", "")) if blob else b""
            if stored != data[:min(total, A)]:
                k = next((i for i in range(min(len(stored), total)) if stored[i] != data[i]), min(len(stored), total))
                problems.append(f"artifact holds {len(stored)} bytes, expected the first {min(total, A)} of the output; first difference at byte {k}")
            if hashlib.sha256(stored).hexdigest() != art.get("id"):
                problems.append("artifact id is not the sha256 of its bytes")
            if art.get("bytes") != len(stored) or bool(art.get("truncated")) != (total > len(stored)):
                problems.append(f"artifact ref says bytes={art.get('bytes')} truncated={art.get('truncated')}, file has {len(stored)} of {total}")
            for size, pgs in (res["pages"].get(s) or {}).items():
                nbytes = sum(p["bytes"] for p in pgs)
                text = "".join(p["content"] or "" for p in pgs)
                if c["_kind"] == "bin":
                    if nbytes != len(stored) and int(size) >= 4:
                        v.violation(f"paging binary artifact: {nbytes} of {len(stored)} bytes", {"engine": "shellcap", "case": pub},
                                    key="D16c-binary-output-pages-are-lossy")
                    elif text != lossy(stored):
                        v.violation("binary pages lossy", {"engine": "shellcap", "case": pub}, key="D16c-binary-output-pages-are-lossy")
                    continue
                if int(size) < 4 and c["_kind"] == "utf8":
                    continue        # a page smaller than one character cannot make progress
                if nbytes != len(stored) or text != stored.decode("utf-8", errors="replace"):
                    problems.append(f"artifact_fetch pages of {size} bytes give {nbytes} bytes / different text than the stored {len(stored)} bytes")
        if res.get("tmp_left"):
            problems.append(f"{res['tmp_left']} temporary artifact file(s) left behind")
        for p in problems:
            v.violation(f"shell case {c['id']} ({s}, limit {P}, cap {A}, reads {[x * u for x in c['_m']['chunks']]}, {c['_kind']}): {p}",
                        {"engine": "shellcap", "case": pub, "guard": p.split(' ')[0]})


# ------------------------------------------------------------------ background tasks
def task_cases(thorough, seed):
    cases = []
    big = 1 << 20

    def add(name, chunks, cap=big, prev=big, exit_code=0, **kw):
        cmd = writer(chunks) + (f"; exit {exit_code}" if exit_code else "")
        exp = {"stdout": b"".join(b for s, b, g in chunks if s == "stdout"), "stderr": b"".join(b for s, b, g in chunks if s == "stderr")}
        c = {"id": name, "payload": {"tool": "bash", "args": {"command": cmd, "max_bytes": prev, "artifact_max_bytes": cap}},
             "page_sizes": [7, 64, 5000] if sum(len(b) for s_, b, g in chunks) <= 2000 else [64, 5000], "_exp": exp, "_cap": cap, "_prev": prev, "_kind": kw.pop("kind", "ascii"), "_exit": exit_code}
        c.update(kw)
        cases.append(c)

    k = 0
    for kind in ("ascii", "utf8", "bin"):
        for cap in (0, 5, 40, big):
            for prev in (0, 1, 3, 16, big):
                if not thorough and (k + seed) % 3:
                    k += 1
                    continue
                k += 1
                chunks = [("stdout", payload(kind, 9, k), 0), ("stderr", payload(kind, 7, k + 1), 30), ("stdout", payload(kind, 30, k + 2), 30),
                          ("stderr", payload(kind, 3, k + 3), 0), ("stdout", payload(kind, 11, k + 4), 30)]
                add(f"o{k}", chunks, cap=cap, prev=prev, exit_code=(0, 3, 255)[k % 3], kind=kind)
    # sizes around the 8 KiB read size and the cap
    for j, (n, cap) in enumerate([(8191, 8192), (8192, 8192), (8193, 8192), (20000, 8191), (8192 * 2 + 5, big)]):
        add(f"r{j}", [("stdout", payload("ascii", n, j), 0), ("stderr", payload("utf8", n // 2, j), 0)], cap=cap, prev=64, kind="ascii" if j % 2 == 0 else "utf8")
    # volume on both streams at once (concurrent pumps)
    n = 20000
    seq_bytes = ("\n".join(str(i) for i in range(1, n + 1)) + "\n").encode()
    cases.append({"id": "vol", "payload": {"tool": "bash", "args": {"command": f"seq 1 {n} & seq 1 {n} >&2; wait", "max_bytes": 200, "artifact_max_bytes": 60000}},
                  "page_sizes": [5000], "_exp": {"stdout": seq_bytes, "stderr": seq_bytes}, "_cap": 60000, "_prev": 200, "_kind": "ascii", "_exit": 0})
    # silent task, spawn failure, invalid requests
    add("silent", [], exit_code=0)
    cases.append({"id": "badargs", "payload": {"tool": "bash", "args": {"command": 123}}, "page_sizes": [], "_exp": {"stdout": b"", "stderr": b""},
                  "_cap": big, "_prev": big, "_kind": "ascii", "_exit": None, "_fails": True})
    cases.append({"id": "cwdescape", "payload": {"tool": "bash", "args": {"command": "echo hi", "cwd": "../x"}}, "page_sizes": [],
                  "_exp": {"stdout": b"", "stderr": b""}, "_cap": big, "_prev": big, "_kind": "ascii", "_exit": None, "_fails": True})
    cases.append({"id": "cwdmissing", "payload": {"tool": "bash", "args": {"command": "echo hi", "cwd": "no/such/dir"}}, "page_sizes": [],
                  "_exp": {"stdout": b"", "stderr": b""}, "_cap": big, "_prev": big, "_kind": "ascii", "_exit": None, "_fails": True})
    # cancellation at different moments
    slow = [("stdout", payload("ascii", 20, 1), 0), ("stderr", payload("ascii", 5, 2), 120), ("stdout", payload("ascii", 20, 3), 120),
            ("stdout", payload("ascii", 20, 4), 200)]
    for name, kw in (("c_queued", {"blocker_ms": 400, "cancel_after_ms": 60}), ("c_now", {"cancel_after_ms": 0}), ("c_mid", {"cancel_after_ms": 180}),
                     ("c_twice", {"cancel_after_ms": 150, "cancel_twice": 1}), ("c_late", {"cancel_after_ms": 900})):
        add(name, slow, cancel=True, **kw)
    # the shell has exited, a grandchild keeps the pipes open, the cancel arrives before the terminal frame
    cases.append({"id": "c_after_exit_pipes_open", "payload": {"tool": "bash", "args": {"command": "(sleep 1.5; true) & printf 'hi'"}}, "cancel_after_ms": 400,
                  "page_sizes": [64], "settle_ms": 300, "_exp": {"stdout": b"hi", "stderr": b""}, "_cap": big, "_prev": big, "_kind": "ascii", "_exit": 0, "cancel": True})
    # a grandchild keeps the pipe open and writes after the shell has exited
    cases.append({"id": "late_writer", "payload": {"tool": "bash", "args": {"command": "(sleep 2.6; printf 'late\\n') & printf 'early\\n'"}},
                  "page_sizes": [64], "settle_ms": 1300, "_exp": {"stdout": b"early\nlate\n", "stderr": b""}, "_cap": big, "_prev": big, "_kind": "ascii", "_exit": 0})
    # random tasks: 0-8 writes of sizes around 0, the character widths, the 4 / 8 KiB read sizes; caps and preview limits around the
    # same values; any exit code; some cancelled at a random moment
    import random
    rnd = random.Random(seed * 104729 + 5)
    sizes = [0, 1, 2, 3, 4, 5, 63, 64, 65, 4095, 4096, 4097, 8191, 8192, 8193, 12289]
    limits = [0, 1, 2, 3, 4, 5, 7, 64, 4096, 8191, 8192, 8193, big]
    for i in range(200 if thorough else 16):
        kind = rnd.choice(["ascii", "utf8", "bin"])
        chunks, total = [], 0
        for _ in range(rnd.randint(0, 8)):
            n = rnd.choice(sizes)
            if total + n > 24000:
                continue
            total += n
            chunks.append((rnd.choice(["stdout", "stderr"]), payload(kind, n, rnd.randrange(50)), rnd.choice([0, 0, 5, 30])))
        kw = {}
        if rnd.random() < 0.2:
            chunks = [(s_, b_, g_ + 60) for s_, b_, g_ in chunks]
            kw = {"cancel": True, "cancel_after_ms": rnd.choice([0, 40, 120, 300])}
        add(f"rnd{seed}_{i}", chunks, cap=rnd.choice(limits), prev=rnd.choice(limits), exit_code=rnd.choice([0, 0, 1, 3, 255]), kind=kind, **kw)
    return cases


def task_events(c, res):
    """frames + disk measurements of one task -> events for TaskLifeTrace, plus python-side notes."""
    cap, exp = c["_cap"], c["_exp"]
    evs = [{"ev": "reset", "case": c["id"], "cap": cap}]
    notes = []
    frames = res["frames"]
    stored_bytes = {}
    for s in ("stdout", "stderr"):
        blob = (res["logs"].get(s) or {})
        stored_bytes[s] = bytes.fromhex(blob.get("hex", "")) if blob else b""
    cancelled = any(f["type"] == "tool_task_status" and f.get("status") == "cancelled" for f in frames)
    for i, f in enumerate(frames):
        t = f["type"]
        seq_ok = f.get("seq") == i
        e = {"ev": "frame", "seq_ok": seq_ok, "data_ok": True, "s": "stdout", "off": 0, "n": 0, "total": 0, "prev": 0, "status": ""}
        if t == "tool_task_spawned":
            e["k"] = "spawned"
        elif t == "tool_task_status":
            st = f.get("status")
            if st == "running":
                e["k"] = "running"
            elif st in ("exited", "cancelled", "failed"):
                e["k"] = "terminal"
                e["status"] = st
            else:
                e["k"] = "other"
        elif t == "tool_task_output_delta":
            lg = ((f.get("artifacts") or {}).get("log") or {})
            s = f.get("stream")
            e.update({"k": "out", "s": s, "off": lg.get("offset_bytes", -1), "n": lg.get("bytes", -1), "total": lg.get("bytes_total", -1)})
            chunk = f.get("chunk") or ""
            e["prev"] = len(chunk.encode())
            # the inline chunk is a (lossy-decoded) prefix of the chunk the process wrote at that position, within the limit
            start = lg.get("bytes_total", 0) - 0
            raw_start = e["total"] - (e["total"] - 0)
            src = exp[s]
            base = e["total"]      # cumulative bytes read after this chunk
            # bytes of this chunk in the process output: [base - chunk_len, base); chunk_len unknown when capped -> use previous total
            e["_base"] = base
        elif t == "tool_task_cancel_requested":
            e["k"] = "cancel_requested"
        elif t == "tool_task_cancelled":
            e["k"] = "cancelled"
        else:
            e["k"] = "other"
        evs.append(e)
    # preview check needs the previous cumulative total per stream
    prev_total = {"stdout": 0, "stderr": 0}
    lim = min(c["_prev"], 8192)
    for e, f in zip(evs[1:], frames):
        if e.get("k") == "out":
            s = e["s"]
            lo, hi = prev_total[s], e["total"]
            src = exp[s][lo:hi]
            chunk = f.get("chunk") or ""
            ok = False
            if hi - lo <= lim:
                ok = chunk == lossy(src)
            else:
                # cut back to a character boundary at or below the limit.  The preview must be a prefix within the limit (the
                # property); that it is not needlessly short is only asked where the answer does not depend on how the pipe
                # happened to be read: ascii, or a range that starts on a character boundary (a read that starts in the middle
                # of a multi-byte character has no valid prefix and the code's preview is empty)
                cb = chunk.encode()
                starts_on_boundary = c["_kind"] == "ascii" or (c["_kind"] == "utf8" and len(src) > 0 and (src[0] & 0xC0) != 0x80)
                ok = len(cb) <= lim and src.startswith(cb) and (len(cb) >= lim - 3 or not starts_on_boundary)
            e["data_ok"] = bool(ok) or cancelled
            prev_total[s] = hi
        e.pop("_base", None)
    complete = not cancelled and not c.get("_fails") and res["ended"]
    bytes_ok = all(exp[s].startswith(stored_bytes[s]) for s in ("stdout", "stderr"))
    # ---- paging
    pages_ok = True
    lossy_bin = False
    for s, per in (res["pages"] or {}).items():
        for size, pgs in per.items():
            nbytes = sum(p["bytes"] for p in pgs)
            text = "".join(p["content"] or "" for p in pgs)
            if c["_kind"] == "bin":
                if nbytes != len(stored_bytes[s]) or text != lossy(stored_bytes[s]) or b"\xff" in stored_bytes[s]:
                    lossy_bin = lossy_bin or (len(stored_bytes[s]) > 0)
                continue
            if int(size) < 4 and c["_kind"] == "utf8":
                continue
            if nbytes != len(stored_bytes[s]) or text != stored_bytes[s].decode("utf-8", errors="replace"):
                pages_ok = False
                notes.append(f"{s} pages of {size} bytes: {nbytes} bytes / text differs from the stored {len(stored_bytes[s])} bytes")
    # ---- status / summary agree with the frames and the files
    st = res["status"] or {}
    term = next((f for f in frames if f["type"] == "tool_task_status" and f.get("status") in ("exited", "cancelled", "failed")), {})
    status_ok = st.get("status") == term.get("status")
    if complete:
        status_ok = status_ok and term.get("exit_code") == c["_exit"] and st.get("exit_code") == c["_exit"]
        for s in ("stdout", "stderr"):
            summ = ((term.get("artifacts") or {}).get("logs") or {}).get(s) or {}
            if summ.get("bytes_total") != len(exp[s]) or summ.get("bytes_stored") != len(stored_bytes[s]) or bool(summ.get("truncated")) != (len(exp[s]) > len(stored_bytes[s])):
                status_ok = False
                notes.append(f"terminal summary {s}: {summ.get('bytes_total')}/{summ.get('bytes_stored')}/{summ.get('truncated')} vs process {len(exp[s])} stored {len(stored_bytes[s])}")
    snapshot_ok = res.get("snapshot_frames") in (None, len(frames)) if not res["ended"] else res.get("snapshot_frames") == len(frames)
    evs.append({"ev": "end", "stored": {s: len(stored_bytes[s]) for s in stored_bytes}, "expected": {s: len(exp[s]) for s in exp},
                "complete": bool(complete), "bytes_ok": bytes_ok, "pages_ok": pages_ok, "status_ok": bool(status_ok), "snapshot_ok": bool(snapshot_ok)})
    return evs, notes, lossy_bin


def run(tier, seed):
    v = Verdict(PROP, tier, seed)
    wd = workdir(PROP)
    thorough = tier == "thorough"
    for cfg, what, expect in [
        ("TaskLife_fixed.cfg", "TaskLife (2 streams x 3 bytes, reads of 1-2, cap 2, preview 1): WellFormed, Ends", None),
        ("TaskLife_fixed_p0.cfg", "TaskLife, preview limit 0", None),
        ("TaskLife_fixed_c0.cfg", "TaskLife, cap 0", None),
        ("TaskLife_nospawn.cfg", "validation failure without spawn frame: counterexample expected (pinned commit; fixed)", "WellFormed"),
        ("TaskLife_nojoin.cfg", "terminal frame does not wait for the pumps: counterexample expected", "WellFormed"),
        ("TaskLife_skipempty.cfg", "chunk with an empty preview gets no frame: counterexample expected (pinned commit; fixed)", "WellFormed"),
    ]:
        r = tlc.run("TaskLife", cfg, workers=6, timeout=900)
        v.add_tlc(r, what)
        if expect is None and not r.ok:
            log(r.out[-3000:])
            die_tool(f"{cfg}: specification violates its own properties")
        if expect is not None and expect not in r.violated:
            die_tool(f"{cfg}: expected counterexample not found")
    r = tlc.run("Capture", "Capture_own.cfg", workers=4, timeout=300)
    v.add_tlc(r, "Capture: every chunking of up to 6 bytes x preview limit 0..4 x cap 0..5: Faithful")
    if not r.ok:
        die_tool("Capture violates Faithful")
    r = tlc.run("Capture", "Capture_total.cfg", workers=2, timeout=300)
    v.add_tlc(r, "Capture with the handover computed from the preview's total length: counterexample expected")
    if "Faithful" not in r.violated:
        die_tool("Capture (total handover) has no counterexample")
    g = tlc.run("GenCapture", "GenCapture.cfg", workers=1, timeout=300)
    v.add_tlc(g, "GenCapture: every (limit, cap, chunking) with the predicted preview / artifact lengths")
    if g.errors or not g.cases:
        die_tool("GenCapture failed")
    # ---- foreground tool
    scases = shell_cases(g.cases, thorough, seed)
    sres = run_harness("shellcap", [{k: c[k] for k in c if not k.startswith("_")} for c in scases], wd, "cap", shards=14, timeout=2400)
    by_id = {c["id"]: c for c in scases}
    for res in sres:
        c = by_id[res["id"]]
        judge_shell(v, c, res)
        v.add_eval({"shell": c["id"], "m": c["_m"], "u": c["_u"], "kind": c["_kind"]}, len(c["_m"]["chunks"]) >= 2 or c["_stream"] == "both")
    # ---- the artifact is complete the moment the tool has ended: one small capped case repeated on all cores at once (the bytes of
    #      a blob whose last write is still completing in the background are missing for an instant; fixed, 6f13b00)
    base = next(c for c in scases if c["_m"]["A"] and c["_u"] == 700 and c["_m"]["A"] * c["_u"] < sum(c["_m"]["chunks"]) * c["_u"])
    rep = [dict({k: base[k] for k in base if not k.startswith("_")}, id=f"now{i}", page_sizes=[]) for i in range(28800 if thorough else 9600)]
    short = 0
    for res in run_harness("shellcap", rep, wd, "now", shards=16, timeout=1200):
        ended = next((f for f in res["frames"] if f["type"] == "tool_ended"), None) or {}
        for stream in ("stdout", "stderr"):
            ref = ((ended.get("artifacts") or {}).get(stream) or {}).get("artifact")
            if ref:
                have = len(bytes.fromhex((res["artifacts"].get(stream) or {}).get("hex", "")))
                if have != ref["bytes"] and short == 0:
                    v.violation(f"read the moment the tool has ended, the {stream} artifact holds {have} bytes, its reference says {ref['bytes']} ({res['id']} of {len(rep)} identical runs)",
                                {"engine": "shellcap", "case": {k: base[k] for k in base if not k.startswith("_")}, "guard": "complete_at_end"})
                    short += 1
    v.add_eval({"shell": "artifact_complete_when_tool_ended", "runs": len(rep)}, True)
    v.cov["artifact_complete_at_tool_end_runs"] = len(rep)
    # ---- background tasks
    tcases = task_cases(thorough, seed)
    tres = run_harness("tasklife", [{k: c[k] for k in c if not k.startswith("_")} for c in tcases], wd, "task", shards=14, timeout=2400)
    tby = {c["id"]: c for c in tcases}
    all_ev = []
    for res in tres:
        c = tby[res["id"]]
        pub = {k: c[k] for k in c if not k.startswith("_")}
        if res["http"] != 201 or not res["frames"]:
            v.violation(f"task case {c['id']}: POST /tasks answered {res['http']} / no frames", {"engine": "tasklife", "case": pub, "guard": "http"})
            continue
        if not res["ended"]:
            v.violation(f"task case {c['id']}: no terminal status frame within the time limit", {"engine": "tasklife", "case": pub, "guard": "ended"})
        evs, notes, lossy_bin = task_events(c, res)
        c["_notes"] = notes
        all_ev += evs
        if lossy_bin:
            v.violation("binary task output pages lossy", {"engine": "tasklife", "case": pub}, key="D16c-binary-output-pages-are-lossy")
        v.add_eval({"task": c["id"]}, len(res["frames"]) >= 3)
        if len(v.cov["samples"]) < 2 and c["id"].startswith("c_"):
            v.sample({"case": c["id"], "frames": [[f["type"], f.get("status"), f.get("stream")] for f in res["frames"]]})
    p = os.path.join(wd, "tasks.ndjson")
    write_ndjson(p, all_ev)
    r, rej = tlc.validate_trace("TaskLifeTrace", "TaskLifeTrace.cfg", p, timeout=900, heap="4g")
    v.add_tlc(r, f"TaskLifeTrace: {len(tres)} recorded task streams ({len(all_ev)} events)")
    if rej or r.errors or r.violated or r.timed_out:
        log(r.out[-3000:])
        die_tool(f"TaskLifeTrace did not consume the whole trace: {rej or r.errors or r.violated}")
    bad = []
    for tag, val in r.prints:
        if tag == "BAD":
            bad = val
    for b in bad:
        cid, pos, what = b[0], b[1], b[2]
        c = tby.get(cid, {})
        pub = {k: c[k] for k in c if not k.startswith("_")}
        v.violation(f"task case {cid}: {what} (trace event {pos}){'; ' + '; '.join(c.get('_notes', [])[:2]) if c.get('_notes') else ''}",
                    {"engine": "tasklife", "case": pub, "guard": what})
    v.cov["traces_validated_against_impl"] = len(tres) + len(sres)
    v.assumptions += ["PTY tasks are not exercised (no pty in this sandbox)",
                      "the writer separates its writes by 30-35 ms so that each arrives as one read (the oracle itself does not depend on the chunking)",
                      "the inline preview is compared after lossy UTF-8 decoding of the byte prefix"]
    # the repository's own tests as drivers: every recorded execution against the monitor half of System.tla
    from .. import suite
    suite.check(v, wd)
    return v.finish(
        rule="cases = (limit, cap, chunking) of Capture x unit size x payload class on the real bash tool; task alphabet (payload class x cap x preview limit x "
             "exit code, read-size boundaries, volume on both streams, silent, invalid request, bad cwd, cancel while queued / at once / mid-output / twice / after exit, "
             "late writer); non-trivial = at least two reads (tool) or three frames (task); distinct by case id",
        exhaustive=False)


def replay(path, seed):
    with open(path) as f:
        rep = json.load(f)
    if rep["case"].get("engine") == "suite":
        from .. import suite
        return suite.replay(PROP, path, rep["case"])
    print("replay: re-run ./check C17 --tier quick; the case is identified by its id in the replay file:", rep["case"].get("case", {}).get("id"))
    v = Verdict(PROP, "replay", seed)
    wd = workdir(PROP + "-replay")
    cid = rep["case"].get("case", {}).get("id", "")
    if rep["case"].get("engine") == "shellcap":
        g = tlc.run("GenCapture", "GenCapture.cfg", workers=1, timeout=300)
        cases = [c for c in shell_cases(g.cases, True, seed) if c["id"] == cid] or [c for c in shell_cases(g.cases, False, seed) if c["id"] == cid]
        # ids depend on the tier's selection: match on the command instead
        allc = shell_cases(g.cases, True, seed) + shell_cases(g.cases, False, 0) + shell_cases(g.cases, False, 1) + shell_cases(g.cases, False, 2)
        cases = [c for c in allc if c["args"] == rep["case"]["case"]["args"] and c.get("artifact_max_bytes") == rep["case"]["case"].get("artifact_max_bytes")][:1]
        if not cases:
            return 2
        res = run_harness("shellcap", [{k: cases[0][k] for k in cases[0] if not k.startswith("_")}], wd, "replay")[0]
        v.findings = []
        judge_shell(v, cases[0], res)
        if v.violations:
            print(f"VIOLATION property={PROP} replay={path}")
            return 1
        return 0
    tc = [c for c in task_cases(True, seed) if c["id"] == cid]
    if not tc:
        return 2
    res = run_harness("tasklife", [{k: c[k] for k in tc[0] if not k.startswith("_")}], wd, "replay")[0]
    evs, notes, _ = task_events(tc[0], res)
    p = os.path.join(wd, "replay.ndjson")
    write_ndjson(p, evs)
    r, rej = tlc.validate_trace("TaskLifeTrace", "TaskLifeTrace.cfg", p, timeout=300)
    bad = [val for tag, val in r.prints if tag == "BAD"]
    print(json.dumps({"bad": bad, "notes": notes}))
    if bad and bad[0]:
        print(f"VIOLATION property={PROP} replay={path}")
        return 1
    return 0
