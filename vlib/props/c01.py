"""C01 — per-stream total order (seq 0,1,2,... no gap, no duplicate, in file order), any schedule.

 1. TLC model-checks StoreSeq (repaired design: GapFree/AckedOnce/AppendOnly hold; each
    as-implemented deviation alone: GapFree must fail — the model reproduces the finding).
 2. TLC (GenStoreSeq, seq mutex NOT enforced) enumerates every interleaving of the hook points
    of two writers; the gate scheduler forces each one on the real ContinuityStore.  Verdict =
    GapFree on the real events.jsonl + the code's own replay_validated.
 3. Recorded traces are validated by TLC (StoreSeqTrace: mechanism level; LogTrace: property
    level on long free-running multi-client runs through the real router).
"""
import json
import os

from .. import tlc
from ..common import Verdict, workdir, run_harness, write_ndjson, log, die_tool

PROP = "C01"

ONE_APPEND_OPS = {
    "message": {"op": "message", "t": 0},
    "run_spawned": {"op": "run_spawned", "t": 0, "m": 0, "s": 0},
    "run_ended": {"op": "run_ended", "t": 0, "m": 0, "s": 0},
    "side_effects": {"op": "side_effects", "t": 0, "m": 0, "s": 0},
    "cursor_update": {"op": "cursor_update", "t": 0},
    "checkpoint": {"op": "checkpoint", "t": 0, "to_msg": 0},
}
SETUP = [{"op": "ensure_default"}, {"op": "message", "t": 0}]   # root has 2 frames before the race
SETUP_COLD = SETUP + [{"op": "restart"}]                          # ... and the next-seq map is empty


def gapfree(frames):
    """frames: [[stream_idx, seq, kind, sk], ...] in file order."""
    cnt = {}
    for f in frames:
        s, q = f[0], f[1]
        if q != cnt.get(s, 0):
            return False, f
        cnt[s] = q + 1
    return True, None


def is_d15(res):
    """The recorded execution is the known lineage race: the duplicate is seq 1 of a thread that
    was being created by branch/handoff, and the racing append chose its seq (log.pre) before the
    creating call returned."""
    frames = res["summary"]["frames"]
    per = {}
    for f in frames:
        per.setdefault(f[0], []).append(f)
    culprit = None
    for s, fs in per.items():
        seqs = [f[1] for f in fs]
        kinds = [f[2] for f in fs]
        if seqs[:3] == [0, 1, 1] and kinds[0] == "continuity_created" and \
                ({"continuity_branched", "continuity_handoff_created"} & set(kinds[1:3])):
            culprit = s
        elif seqs != list(range(len(seqs))):
            return False        # some other stream is broken too
    if culprit is None:
        return False
    tr = res["trace"]
    creator = next((e["actor"] for e in tr if e["ev"] == "log.pre" and e.get("kind") == "continuity_created"), None)
    ret = next((e["i"] for e in tr if e["ev"] == "api.return" and e.get("actor") == creator), 10 ** 9)
    racer = [e for e in tr if e["ev"] == "log.pre" and e.get("actor") != creator and e.get("seq") == 1
             and e.get("kind") not in ("continuity_branched", "continuity_handoff_created")]
    return bool(racer) and all(e["i"] < ret for e in racer)


def concretise(cfg_name, case, variant):
    """TLC behaviour -> harness case."""
    sched = [{"a": st["a"], "p": "cache.enter" if st["p"] == "log.flushed" else st["p"]} for st in case["sched"]]
    writers = sorted({st["a"] for st in sched})
    k1, k2 = variant
    if cfg_name in ("a", "d"):
        ops = {"w1": [dict(ONE_APPEND_OPS[k1])], "w2": [dict(ONE_APPEND_OPS[k2])]}
    elif cfg_name == "b":
        ops = {"w1": [{"op": k1, "t": 0, "summary": "s"}], "w2": [{"op": "message", "t": "new"}]}
    else:
        ops = {"w1": [{"op": k1, "t": 0, "summary": "s"}], "w2": [dict(ONE_APPEND_OPS[k2])]}
    actors = [{"name": w, "ops": ops.get(w, [])} for w in ["w1", "w2"] if w in writers or True]
    return {"setup": SETUP_COLD if cfg_name == "d" else SETUP, "actors": actors, "schedule": sched, "legal": case["legal"],
            "model_log": case["log"], "model_gapfree": case["gapfree"], "cfg": cfg_name,
            "variant": list(variant)}


def predicted_frames(hc):
    """Model log -> (stream name, seq) list shifted by the setup frames on the root."""
    shift = len(SETUP) - 1
    out = [("root", i) for i in range(shift)]
    for s, q in hc["model_log"]:
        out.append((s, q + shift if s == "root" else q))
    return out


def run(tier, seed):
    v = Verdict(PROP, tier, seed)
    wd = workdir(PROP)
    thorough = tier == "thorough"

    # ---- 1. design level
    r = tlc.run("MCStoreSeq", "StoreSeq_fixed.cfg", workers=8, timeout=900, coverage=True)
    v.add_tlc(r, "StoreSeq, every deviation repaired: TypeOK GapFree AckedOnce MutexHeld AppendOnly")
    if not r.ok:
        log(r.out[-3000:])
        die_tool("StoreSeq (repaired design) does not satisfy its invariants: specification error")
    design_findings = {}
    for key, cfg in (("D1", "StoreSeq_D1.cfg"), ("D15", "StoreSeq_D15.cfg"), ("D12", "StoreSeq_D12.cfg")):
        if not os.path.exists(os.path.join(tlc.SPEC, cfg)):
            continue
        r = tlc.run("MCStoreSeq", cfg, workers=4, timeout=600)
        v.add_tlc(r, f"StoreSeq with deviation {key} as implemented (counterexample expected)")
        design_findings[key] = "GapFree" in r.violated
    v.cov["design_counterexamples"] = design_findings

    # ---- 2. behaviours for the gate scheduler
    cases = []
    variants = {
        "a": [("message", "message"), ("message", "checkpoint"), ("run_spawned", "side_effects"),
              ("cursor_update", "run_ended")],
        "d": [("message", "message"), ("run_ended", "checkpoint"), ("side_effects", "cursor_update")],
        "b": [("branch", None), ("handoff", None)],
        "c": [("branch", "message"), ("handoff", "run_ended")],
    }
    if not thorough:
        variants = {"a": variants["a"][:2], "b": variants["b"], "c": variants["c"][:1], "d": variants["d"][:1]}
    n = 0
    for cfg_name in ("a", "b", "c", "d"):
        g = tlc.run("MCGenStoreSeq", f"GenStoreSeq_{cfg_name}.cfg", workers=1, timeout=600)
        v.add_tlc(g, f"GenStoreSeq_{cfg_name}: all interleavings of two writers' hook points")
        if g.errors or g.timed_out:
            log(g.out[-3000:])
            die_tool(f"behaviour generation GenStoreSeq_{cfg_name} failed")
        for case in g.cases:
            for variant in variants[cfg_name]:
                hc = concretise(cfg_name, case, variant)
                hc["id"] = f"{cfg_name}{n}"
                n += 1
                cases.append(hc)
    log(f"[C01] {len(cases)} scheduled cases")
    results = run_harness("sched", cases, wd, "sched", shards=12, timeout=1500)
    by_id = {c["id"]: c for c in cases}
    traces_legal = []
    unrealised = 0
    for res in results:
        hc = by_id[res["id"]]
        frames = res["summary"]["frames"]
        ok, bad = gapfree(frames)
        replay_ok = res["summary"]["replay_validated"] and res["summary"]["bad_lines"] == 0
        full = res["unrealised"] == 0 and res["skew"] == 0
        unrealised += 0 if full else 1
        nontrivial = any(st[2] == "ok" for st in res["steps"]) and len({st[0] for st in res["steps"]}) > 1
        v.add_eval({"cfg": hc["cfg"], "sched": hc["schedule"], "variant": hc["variant"]}, nontrivial)
        if not (ok and replay_ok):
            # the implementation's own deviation D15 (lineage frame outside the seq mutex)?
            key = "D15-lineage-outside-mutex" if hc["cfg"] == "b" and is_d15(res) else None
            v.violation(f"store not gap-free after schedule {hc['id']}: offending frame {bad}, replay_validated={replay_ok}",
                        {"engine": "sched", "case": hc, "observed": res["summary"], "steps": res["steps"]}, key=key)
        elif hc["legal"] and full:
            pred = predicted_frames(hc)
            # compare structure: number of frames per stream and order of streams
            names = {}
            real = []
            for f in frames:
                names.setdefault(f[0], len(names))
                real.append((names[f[0]], f[1]))
            pn = {}
            predn = []
            for s, q in pred:
                pn.setdefault(s, len(pn))
                predn.append((pn[s], q))
            if real != predn:
                v.drift({"case": hc["id"], "predicted": predn, "real": real})
        if not hc["legal"] and full and ok:
            v.drift({"case": hc["id"], "note": "schedule forbidden by the modelled locking was realised; log still gap-free"})
        if hc["legal"] and full and ok:
            traces_legal.append((hc["cfg"] == "d", res["trace"]))
        if len(v.cov["samples"]) < 3 and nontrivial:
            v.sample({"schedule": [f"{s['a']}:{s['p']}" for s in hc["schedule"]], "ops": hc["variant"],
                      "legal": hc["legal"], "steps": res["steps"], "real_log": [[f[0], f[1], f[2]] for f in frames]})
    v.cov["unrealised_schedules"] = unrealised
    v.cov["legal_schedules"] = sum(1 for c in cases if c["legal"])
    v.cov["legal_realised"] = sum(1 for r in results if by_id[r["id"]]["legal"] and r["unrealised"] == 0 and r["skew"] == 0)

    # ---- 3a. mechanism-level trace validation of the realised legal schedules
    tpath = os.path.join(wd, "sched_trace.ndjson")
    lines = []
    shift = len(SETUP)
    for cold, tr in traces_legal:
        lines.append({"ev": "reset", "n": shift, "cold": cold})
        lines += [e for e in tr if e.get("actor", 0) in (1, 2)]
    if lines:
        write_ndjson(tpath, lines)
        r, rejected = tlc.validate_trace("StoreSeqTrace", "StoreSeqTrace.cfg", tpath, timeout=900)
        v.add_tlc(r, "StoreSeqTrace: recorded hook-point traces of realised schedules")
        v.cov["traces_validated_against_impl"] += len(traces_legal)
        inv = [x for x in r.violated if x in ("GapFree", "AckedOnce", "TypeOK", "MutexHeld")]
        if inv:
            v.violation(f"StoreSeq invariant {inv} false on a recorded execution",
                        {"engine": "trace", "trace_file": tpath, "tlc": r.out[-2000:]})
        elif rejected or not r.ok:
            v.drift({"trace": "sched", "rejected": rejected[:1], "errors": r.errors[:2]})

    # ---- 2b. the counterexample schedule of an un-guarded emitter, attempted on every stream kind:
    #          delay frame n at log.pre until frame n+1 of the same stream is on disk
    r = tlc.run("MCStoreSeq", "StoreSeq_taskunguarded.cfg", workers=4, timeout=300)
    v.add_tlc(r, "StoreSeq with TaskGuarded = FALSE: counterexample expected (non-vacuity of GapFree for task pumps)")
    v.cov["design_counterexamples"]["task_unguarded"] = "GapFree" in r.violated
    r = tlc.run("MCStoreSeq", "StoreSeq_unguarded.cfg", workers=4, timeout=300)
    v.add_tlc(r, "StoreSeq with Guarded = FALSE: counterexample expected (non-vacuity of GapFree for continuity writers)")
    v.cov["design_counterexamples"]["unguarded"] = "GapFree" in r.violated
    ocases = []
    reps = 3 if thorough else 1
    for rep in range(reps):
        for sc, kinds in (("task", ["task"]), ("task_cancel", ["task"]), ("session", ["session"]), ("thread", ["session"]),
                          ("thread", ["continuity"])):
            ocases.append({"id": f"ovt-{sc}-{kinds[0]}-{rep}", "scenario": sc, "kinds": kinds, "wait_ms": 40})
        # the sidecar line of a thread frame is delayed until a later frame's line is in the sidecar (possible only if
        # the seq mutex no longer covers the sidecar append); then the authority restarts and the thread is appended to
        for sc in ("thread", "thread3"):
            ocases.append({"id": f"ovt-{sc}-sidecar-{rep}", "scenario": sc, "kinds": [], "wait_ms": 60, "delay_at": "cache.enter", "restart_append": True})
    ores = run_harness("overtake", ocases, wd, "overtake", shards=len(ocases), timeout=600)
    for res in ores:
        frames = res["summary"]["frames"]
        ok, bad = gapfree(frames)
        replay_ok = res["summary"]["replay_validated"] and res["summary"]["bad_lines"] == 0
        v.add_eval({"overtake": res["id"].rsplit("-", 1)[0]}, len(frames) >= 3)
        if not (ok and replay_ok):
            v.violation(f"a later seq overtook a delayed append ({res['id']}): offending frame {bad}, overtaken={res['overtaken']}",
                        {"engine": "overtake", "case": [c for c in ocases if c["id"] == res["id"]][0], "frames": frames})
        if res["id"].startswith("ovt-task-task-0"):
            v.sample({"overtake_attempt": res["id"], "frames": [[f[0], f[1], f[2]] for f in frames], "overtaken": res["overtaken"]})

    # ---- 2b'. store-level writers of different kinds at once, every sidecar line delayed until a later one is in the sidecar
    su = [{"op": "ensure_default"}, {"op": "message", "t": 0}, {"op": "message", "t": 0}, {"op": "run_spawned", "t": 0, "m": 0, "s": 0}, {"op": "run_spawned", "t": 0, "m": 1, "s": 1}]
    after = [{"op": "message", "t": 0}, {"op": "message", "t": 0}, {"op": "replay_all"}]
    sco = []
    for rep in range(3 if thorough else 1):
        sco.append({"id": f"sco-effects-{rep}", "setup": su, "after": after, "actors": [
            {"ops": [{"op": "side_effects", "t": 0, "m": 0, "s": 0}] * 3}, {"ops": [{"op": "message", "t": 0}] * 3},
            {"ops": [{"op": "cursor_update", "t": 0}] * 2}, {"ops": [{"op": "side_effects", "t": 0, "m": 1, "s": 1}, {"op": "run_ended", "t": 0, "m": 1, "s": 1}]}]})
        sco.append({"id": f"sco-jobs-{rep}", "setup": su + [{"op": "cursor_update", "t": 0}], "after": after, "actors": [
            {"ops": [{"op": "checkpoint", "t": 0, "to_msg": 0, "summary": "s"}, {"op": "checkpoint", "t": 0, "to_msg": 1, "summary": "s2"}]},
            {"ops": [{"op": "compile", "t": 0, "m": 1, "s": 1, "record": True}, {"op": "compile", "t": 0, "m": 0, "s": 0, "record": True}]},
            {"ops": [{"op": "cursor_rotate", "t": 0}, {"op": "cursor_update", "t": 0}]}, {"ops": [{"op": "message", "t": 0}] * 3},
            {"ops": [{"op": "auto", "t": 0, "stride": 1, "max_new": 2}, {"op": "run_ended", "t": 0, "m": 0, "s": 0}]}]})
    for res in run_harness("sidecar_order", sco, wd, "sco", shards=len(sco), timeout=600):
        if res.get("error"):
            die_tool(f"sidecar_order: {res['error']}")
        frames = res["summary"]["frames"]
        ok, bad = gapfree(frames)
        v.add_eval({"sidecar_order": res["id"]}, len(frames) >= 10)
        if not (ok and res["summary"]["replay_validated"] and res["sidecar_in_order"] and all(res["post_ok"])):
            v.violation(f"concurrent store writers with delayed sidecar lines ({res['id']}): sidecar in seq order={res['sidecar_in_order']} (seqs {res['sidecar_seqs']}), "
                        f"{res['overtaken']} lines overtaken; after a restart and two more messages: gap-free={ok} (offending {bad}), replay_validated={res['summary']['replay_validated']}, appends ok={res['post_ok']}",
                        {"engine": "sidecar_order", "case": [c for c in sco if c["id"] == res["id"]][0]})

    # ---- 2c. a session that is given a second input (the API accepts it): its stream must go on, not restart
    d12 = [{"id": "second_input", "linked": False, "same_session": True, "no_provider": True,
            "inputs": [json.dumps({"tool": "ls", "args": {"path": "."}}), json.dumps({"tool": "ls", "args": {"path": "."}})]}]
    for res in run_harness("runs", d12, wd, "d12", shards=1, timeout=300):
        fr = res["session_frames"][0] if res["session_frames"] else []
        seqs = [f["seq"] for f in fr]
        v.add_eval({"second_input": len(seqs)}, len(seqs) >= 4)
        if seqs != list(range(len(seqs))):
            v.violation(f"second input to one session: the stream's seqs are {seqs}", {"engine": "runs", "case": d12[0], "seqs": seqs},
                        key="D12-second-input-restarts-seq")

    # ---- 2d. histories that cross an authority restart with the next-seq map cold: the head line of the thread's sidecar is
    #          incomplete (torn / no newline) or the thread is the left-over of a handoff that failed after its creation frame
    rh = []
    for kind in ("tear_last_line", "chop_newline"):
        for pad in (0, 9000):
            rh.append({"id": f"cold-{kind}-{pad}", "ops": [{"op": "ensure_default"}, {"op": "message", "t": 0}, {"op": "message", "t": 0, "pad": pad},
                                                            {"op": "fault", "t": 0, "file": "full", "kind": kind}, {"op": "restart"},
                                                            {"op": "message", "t": 0}, {"op": "run_spawned", "t": 0, "m": 0, "s": 0}, {"op": "replay_all"}]})
    rh.append({"id": "failed-handoff-leftover", "ops": [{"op": "ensure_default"}, {"op": "message", "t": 0}, {"op": "break_artifacts"},
                                                         {"op": "handoff", "t": 0, "summary": "text"}, {"op": "adopt_listed"}, {"op": "message", "t": "last"}, {"op": "message", "t": "last"},
                                                         {"op": "mend_artifacts"}, {"op": "branch", "t": 0}, {"op": "message", "t": "last"}, {"op": "replay_all"}]})
    for res in run_harness("hist", rh, wd, "restart", shards=3, timeout=300):
        frames = res["summary"]["frames"]
        ok, bad = gapfree(frames)
        replay_ok = res["summary"]["replay_validated"] and res["summary"]["bad_lines"] == 0
        v.add_eval({"restart_history": res["id"]}, True)
        if not (ok and replay_ok):
            v.violation(f"history {res['id']}: the log is not gap-free afterwards: offending frame {bad}, replay_validated={replay_ok}; "
                        f"frames {[(f[0], f[1], f[2].replace('continuity_', '')) for f in frames][-8:]}",
                        {"engine": "hist", "case": [h for h in rh if h["id"] == res["id"]][0]})

    # ---- 3b. free-running clients through the real router, property-level trace validation
    nfree = 24 if thorough else 6
    fcases = [{"id": f"free{i}", "seed": seed * 1000 + i, "clients": 4 + (i % 5), "ops": 10 if not thorough else 16,
               "restart": i % 2 == 1} for i in range(nfree)]
    fres = run_harness("free", fcases, wd, "free", shards=6, timeout=1500)
    lines = []
    for res in fres:
        frames = res["summary"]["frames"]
        ok, bad = gapfree(frames)
        replay_ok = res["summary"]["replay_validated"] and res["summary"]["bad_lines"] == 0
        streams = len({f[0] for f in frames})
        v.add_eval({"free": res["id"], "n": len(frames), "streams": streams}, streams > 2)
        if not (ok and replay_ok):
            v.violation(f"store not gap-free after free run {res['id']}: offending frame {bad}, replay_validated={replay_ok}",
                        {"engine": "free", "case": [c for c in fcases if c['id'] == res['id']][0],
                         "observed_tail": frames[-10:], "bad": bad})
        lines.append({"ev": "reset"})
        lines += res["trace"]
        if res["id"] == "free0":
            v.sample({"free_run": res["id"], "frames": len(frames), "streams": streams,
                      "kinds": sorted({f[2] for f in frames})})
    tpath = os.path.join(wd, "free_trace.ndjson")
    write_ndjson(tpath, lines)
    r, rejected = tlc.validate_trace("LogTrace", "LogTrace.cfg", tpath, timeout=900)
    v.add_tlc(r, "LogTrace: log.flushed events of free-running multi-client executions")
    v.cov["traces_validated_against_impl"] += len(fres)
    bad = [p for p in r.prints if p[0] == "BADSEQ"]
    if bad or "GapFreeStep" in r.violated:
        v.violation("a flushed frame's seq is not the count of earlier frames of its stream (recorded trace)",
                    {"engine": "trace", "bad": bad[:3]})
    elif not r.ok:
        log(r.out[-2000:])
        die_tool("LogTrace validation failed to run")

    v.assumptions += [
        "interleavings are forced at the hook points log.pre / log.flushed / cache.exit / api.return; a schedule the real locks forbid is 'unrealised' (no verdict)",
        "two writers, one operation each per scheduled case; longer runs are covered by the free-running tier",
    ]
    # ---- whole-system histories with every writer family on one log (provider runs with request dumps and text deltas, tool
    # and checkpoint commands, tasks, continuity operations incl. branch / handoff / compaction): the log in file order,
    # every stream, against the numbering guard of System.tla
    from . import c03
    from .. import suite
    sc = c03.generated_scenarios(60 if thorough else 14, seed + 900)
    for c in sc:
        c["id"] = c["id"].replace("gen-", "num-")
    hres = run_harness("fidelity", [{k: x for k, x in c.items() if not k.startswith("_")} for c in sc], wd, "num", shards=min(len(sc), 14), timeout=1800)
    hflags, hr = suite.histories_flags(wd, hres, "numbering")
    v.add_tlc(hr, f"SystemTrace (strict): {len(hres)} generated whole-system histories, every stream, numbering guard")
    hby = {c["id"]: c for c in sc}
    seen_h = set()
    for hid, guard, ev in hflags:
        if suite.GUARD_PROP.get(guard) != PROP or hid in seen_h:
            continue
        seen_h.add(hid)
        c = hby[hid]
        v.violation(f"history {hid} (steps {c.get('_names')}): {guard} is false at {ev}",
                    {"engine": "numhist", "case": {k: x for k, x in c.items() if not k.startswith("_")}})
    for res in hres:
        v.add_eval({"numbering_history": res["id"]}, len(res["order"]) > 5)
    v.cov["numbering_histories"] = {"histories": len(hres), "frames": sum(len(r_["order"]) for r_ in hres)}
    # unbounded in the number of frames: Apalache proves the inductive invariant of the numbering protocol (any log
    # length, three writers, crash anywhere) and refutes it when the mutex is dropped between choosing and writing
    ok1, w1, t1 = tlc.apalache_inductive("SeqLock", "ConstInit3")
    ok2, w2, t2 = tlc.apalache_inductive("SeqLock", "ConstInit3Narrow")
    if not ok1 or ok2:
        log("\n".join(t1 + t2))
        die_tool(f"Apalache: SeqLock inductive invariant: repaired protocol proved={ok1}, narrowed critical section refuted={not ok2}")
    v.cov["apalache"] = {"module": "spec/apalache/SeqLock.tla", "inductive_invariant": "IndInv (implies GapFree step predicate `ok`), unbounded log length, 3 writers, crash at any step",
                         "proved": True, "narrowed_critical_section_refuted": True, "wall_s": w1 + w2}
    # the repository's own tests as drivers: every recorded execution against the monitor half of System.tla
    from .. import suite
    suite.check(v, wd)
    return v.finish(
        rule="cases = TLC-enumerated interleavings (GenStoreSeq a/b/c) x concrete operation kinds, plus seeded free-running router runs; "
             "non-trivial = at least two actors actually stepped at gate points (scheduled) or more than two streams written (free); distinct by schedule+ops hash",
        exhaustive=False)


def replay(path, seed):
    with open(path) as f:
        rep = json.load(f)
    case = rep["case"]
    if case.get("engine") == "suite":
        from .. import suite
        return suite.replay(PROP, path, case)
    wd = workdir(PROP + "-replay")
    if case.get("engine") == "sched":
        hc = case["case"]
        res = run_harness("sched", [hc], wd, "replay")[0]
        ok, bad = gapfree(res["summary"]["frames"])
        print(json.dumps({"gapfree": ok, "bad": bad, "replay_validated": res["summary"]["replay_validated"],
                          "steps": res["steps"]}, indent=1))
        if not ok or not res["summary"]["replay_validated"]:
            print(f"VIOLATION property={PROP} replay={path}")
            return 1
        return 0
    if case.get("engine") == "numhist":
        from .. import suite
        hres = run_harness("fidelity", [case["case"]], wd, "replay")
        hflags, _ = suite.histories_flags(wd, hres, "numbering")
        bad = [(h, g, e) for h, g, e in hflags if suite.GUARD_PROP.get(g) == PROP]
        print(json.dumps({"flags": bad[:3]}))
        if bad:
            print(f"VIOLATION property={PROP} replay={path}")
            return 1
        return 0
    if case.get("engine") == "sidecar_order":
        res = run_harness("sidecar_order", [case["case"]], wd, "replay")[0]
        ok, bad = gapfree(res["summary"]["frames"])
        print(json.dumps({"gapfree": ok, "bad": bad, "sidecar_in_order": res["sidecar_in_order"], "overtaken": res["overtaken"], "post_ok": res["post_ok"]}))
        if not (ok and res["summary"]["replay_validated"] and res["sidecar_in_order"] and all(res["post_ok"])):
            print(f"VIOLATION property={PROP} replay={path}")
            return 1
        return 0
    if case.get("engine") == "overtake":
        res = run_harness("overtake", [case["case"]], wd, "replay")[0]
        ok, bad = gapfree(res["summary"]["frames"])
        print(json.dumps({"gapfree": ok, "bad": bad, "overtaken": res["overtaken"]}))
        if not ok or not res["summary"]["replay_validated"]:
            print(f"VIOLATION property={PROP} replay={path}")
            return 1
        return 0
    if case.get("engine") == "free":
        res = run_harness("free", [case["case"]], wd, "replay")[0]
        ok, bad = gapfree(res["summary"]["frames"])
        print(json.dumps({"gapfree": ok, "bad": bad}))
        if not ok:
            print(f"VIOLATION property={PROP} replay={path}")
            return 1
        return 0
    print("replay: unsupported case kind")
    return 2
