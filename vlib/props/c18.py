"""C18 — a store never has two authorities; a live authority's lock is never taken.

 Authority.tla: lock.json / meta.json and the steps of try_acquire, write_meta, Drop, stale cleanup,
 corrupt cleanup and the server's recovery loop, one action per file-system call.  TLC proves
 AtMostOne / NeverStealLive / LiveResidentKept / Usable for the design in which a cleanup's rename is
 atomic with its check, and finds the counterexamples of the code's check-then-rename sequences
 (recorded findings D9a-c).  Every complete behaviour of the as-implemented model (2 contenders,
 every leftover state; a sample in the quick tier) is forced on the real
 acquire_authority_lock_with_recovery with gates at the auth.* hook points; after every step the two
 files are read back and compared with the model's prediction; takeovers of a live owner's file and
 the number of simultaneous guards are observed directly.  A takeover is a recorded finding only if
 the as-implemented model predicts it at that very step; anything else is a violation."""
import json
import os
import random
import shutil
import signal
import subprocess
import threading
import time

from .. import tlc
from ..common import Verdict, workdir, run_harness, log, die_tool

PROP = "C18"
KEY = {"StaleRename": "D9a-stale-cleanup-renames-lock-after-check",
       "StaleMetaRename": "D9b-stale-cleanup-renames-meta-after-read",
       "CorruptRename": "D9c-corrupt-cleanup-renames-lock-after-check"}
CONSEQ = {"WriteMeta", "DropMeta", "DropLock"}


def owner_of(pr, res, results, partial_owner):
    """observed file -> owner name used by the model."""
    k = pr.get("kind")
    if k == "absent":
        return ["absent", "noone"]
    if k == "partial":
        return ["partial", partial_owner or "dead"]
    pid, t = pr.get("pid"), pr.get("started_at_ms")
    if pr.get("endpoint"):
        who = [p for p, r in results.items() if r and r.get("ok") and r.get("endpoint") == pr["endpoint"]]
        if len(who) == 1:
            return ["full", who[0]]
    if pid == res["dead_pid"]:
        return ["full", "dead"]
    if pid == res["my_pid"] and t == 7:
        return ["full", "res"]
    who = [p for p, r in results.items() if r and r.get("ok") and r.get("started_at_ms") == t]
    if len(who) == 1:
        return ["full", who[0]]
    return ["full", "?" if not who else "|".join(sorted(who))]


def stratified(cases, n, seed):
    rnd = random.Random(seed)
    groups = {}
    for c in cases:
        key = (c["start"], tuple(sorted({t[3] for t in c["stolen"]})), tuple(sorted(c["results"].items())), len(c["sched"]) // 4)
        groups.setdefault(key, []).append(c)
    out = []
    keys = sorted(groups, key=str)
    for k in keys:
        rnd.shuffle(groups[k])
    i = 0
    while len(out) < n and any(groups[k] for k in keys):
        k = keys[i % len(keys)]
        if groups[k]:
            out.append(groups[k].pop())
        i += 1
    return out


def observe(res, model_sched=None):
    """takeovers observed directly from the probes after each step, and the first mismatch with the prediction."""
    results = res["results"]
    partial_owner = "dead" if res["start"] in ("dead_partial", "dead_partial_meta") else None
    steals_obs = []      # (k, thief, what, owner, root action of a recorded finding or None, point)
    checked = {}         # contender -> what it saw at its last check point
    entered = {}         # contender -> what it saw when it entered a cleanup function
    saw_dead_partial = set()   # contenders whose grace period may have been started on the dead half-written lock
    created_at = {}      # contender -> time its own lock file was created
    mismatch = None
    init_lock = {"none": ["absent", "noone"], "dead_lock": ["full", "dead"], "dead_lock_meta": ["full", "dead"],
                 "dead_partial": ["partial", "dead"], "dead_meta": ["absent", "noone"], "dead_partial_meta": ["partial", "dead"], "live_serving": ["full", "res"], "live_starting": ["full", "res"]}[res["start"]]
    init_meta = {"dead_lock_meta": ["meta", "dead"], "dead_meta": ["meta", "dead"], "dead_partial_meta": ["meta", "dead"], "live_serving": ["meta", "res"]}.get(res["start"], ["absent", "noone"])
    prev_lock, prev_meta = init_lock, init_meta
    for st in res["steps"]:
        k = st["k"]
        a = st["a"]
        pl = st["probe"]["lock"]
        if pl.get("kind") == "partial" and prev_lock[0] == "absent":
            partial_owner = a
        lock = owner_of(pl, res, results, partial_owner)
        if lock[0] == "full" and ("|" in lock[1] or lock[1] == "?") and prev_lock[0] == "partial" and prev_lock[1] == a:
            lock = ["full", a]          # two guards created within one millisecond: the writer of the record is the running contender
        elif lock[0] == "full" and ("|" in lock[1] or lock[1] == "?") and prev_lock[0] == "full" and prev_lock[1] in lock[1].split("|"):
            lock = ["full", prev_lock[1]]
        mo = owner_of(st["probe"]["meta"], res, results, None)
        meta = ["absent", "noone"] if mo[0] == "absent" else ["meta", mo[1]]
        # a file of another live owner that this step removed or replaced
        for what, before, after in (("lock", prev_lock, lock), ("meta", prev_meta, meta)):
            if before != after and before[0] != "absent" and before[1] not in ("dead", "noone", a):
                # signature of the recorded check-then-rename findings: the thief's last check (stale: pid match on the lock /
                # meta read; corrupt: lock present, meta absent) was made on the DEAD owner's file
                seen = checked.get(a, {})
                ent = entered.get(a, {})
                root = None
                if what == "lock" and seen.get("point") == "auth.stale.checked" and seen.get("lock", ["", ""])[1] == "dead":
                    root = "StaleRename"          # passed the pid re-check on the dead lock, renamed another one
                elif what == "lock" and ent.get("point") == "auth.corrupt.enter" and (ent.get("lock", ["", ""]) == ["partial", "dead"] or a in saw_dead_partial):
                    root = "CorruptRename"        # its grace period was started on the dead half-written lock (the function re-checks existence only)
                elif what == "lock" and before[0] == "partial" and ent.get("point") == "auth.corrupt.enter" and st.get("t_ms", 0) - created_at.get(before[1], 0) >= 1000:
                    root = "timing"               # the harness kept a live writer parked for longer than the code's 1 s grace period
                elif what == "meta" and seen.get("point") in ("auth.stale.metaread", "auth.stale.renamed", "auth.stale.checked") and seen.get("meta", ["", ""])[1] == "dead":
                    root = "StaleMetaRename"
                steals_obs.append((k, a, what, before[1], root, st["arrived"]))
        if lock == ["partial", "dead"]:
            saw_dead_partial.add(a)
        if st["arrived"] == "auth.acquire.created":
            created_at[a] = st.get("t_ms", 0)
        if st["arrived"] in ("auth.stale.enter", "auth.corrupt.enter"):
            entered[a] = {"point": st["arrived"], "lock": lock, "meta": meta}
            checked.pop(a, None)
        elif st["arrived"] in ("auth.stale.checked", "auth.stale.renamed", "auth.stale.metaread", "auth.corrupt.checked"):
            checked[a] = {"point": st["arrived"], "lock": lock, "meta": meta}
        elif st["arrived"] == "auth.loop.top":
            checked.pop(a, None)
            entered.pop(a, None)
        if not st["ok"] and mismatch is None and st["arrived"] == "finished" and "read_err=" in str((results.get(a) or {}).get("err", "")):
            # the contender's 2 s deadline expired while it was parked: outside the timing assumption of the forced schedules
            mismatch = "deadline"
        if not st["ok"] and mismatch is None:
            mismatch = f"step {k}: model says {a} reaches {st['to']} ({st['target']}), the code arrived at {st['arrived']} (passed {st['passed']})"
        if model_sched is not None and k < len(model_sched):
            pred = model_sched[k]
            if mismatch is None and (lock != pred["lock"] or meta != pred["meta"]) and "?" not in lock[1] and "?" not in meta[1]:
                mismatch = f"step {k} ({a} -> {st['to']}): files lock={lock} meta={meta}, model predicts lock={pred['lock']} meta={pred['meta']}"
        prev_lock, prev_meta = lock, meta
    return steals_obs, mismatch


def judge(v, c, res):
    """compare one forced behaviour with its prediction; report violations / findings / drift."""
    m = c["_model"]
    results = res["results"]
    case_pub = {k: c[k] for k in c if not k.startswith("_")}
    nst_prev = 0
    pred_steal_at = {}   # step -> True
    for k, st in enumerate(m["sched"]):
        if st["nstolen"] > nst_prev:
            pred_steal_at[k] = True
        nst_prev = st["nstolen"]
    steals_obs, mismatch = observe(res, m["sched"])
    # ---- verdicts
    root_keys = []
    timing = any(root == "timing" for (_, _, _, _, root, _) in steals_obs)
    if timing:
        v.cov["unrealised_schedules"] += 1
        return mismatch is None
    for (k, a, what, owner, root, point) in steals_obs:
        if root in KEY:
            root_keys.append(KEY[root])
            v.violation(f"{a} took the {what} file of live {owner} at step {k}", {"engine": "auth", "case": case_pub}, key=KEY[root])
        elif root_keys and point in ("auth.meta.written", "auth.drop.meta", "auth.drop.lock", "auth.h.idle"):
            # consequence of an earlier recorded takeover: the robbed contender still believes it holds the role
            for kk in sorted(set(root_keys)):
                v.violation(f"{a} overwrote / removed the {what} file of live {owner} after a recorded takeover", {"engine": "auth", "case": case_pub}, key=kk)
        else:
            v.violation(f"case {c['id']} (start {res['start']}): {a} removed / replaced the {what} file of the live owner {owner} at step {k} "
                        f"(arrived at {point}); its last check was not made on the dead authority's file, so this is not one of the recorded check-then-rename findings",
                        {"engine": "auth", "case": case_pub, "observed": "steal", "step": k, "what": what})
    n_ok = len([p for p, r in results.items() if r and r.get("ok")])
    resident = 1 if res["start"] in ("live_serving", "live_starting") else 0
    if n_ok + resident > 1:
        if root_keys:
            for kk in sorted(set(root_keys)):
                v.violation("two guards alive at once", {"engine": "auth", "case": case_pub}, key=kk)
        else:
            v.violation(f"case {c['id']} (start {res['start']}): {n_ok} contenders hold the authority role at once"
                        f"{' next to a live resident authority' if resident else ''} and no takeover of a live owner's file was observed before; results {results}",
                        {"engine": "auth", "case": case_pub, "observed": "two_authorities"})
    if not res["all_settled"]:
        v.violation(f"case {c['id']}: a contender never returned from acquire_authority_lock_with_recovery",
                    {"engine": "auth", "case": case_pub, "observed": "hang"})
    elif n_ok == 0 and not resident and mismatch != "deadline" and (mismatch is None or "ok" not in m["results"].values()):
        v.violation(f"case {c['id']} (start {res['start']}): no contender obtained the role although the previous authority is gone "
                    f"(model: {m['results']}); results {results}", {"engine": "auth", "case": case_pub, "observed": "unusable"})
    if mismatch == "deadline":
        v.cov["unrealised_schedules"] += 1
    elif mismatch:
        v.drift({"case": c["id"], "start": res["start"], "note": mismatch})
    else:
        exp = {p: (r == "ok") for p, r in m["results"].items()}
        got = {p: bool(r and r.get("ok")) for p, r in results.items()}
        if exp != got:
            v.drift({"case": c["id"], "start": res["start"], "note": f"results {got}, model predicts {exp}"})
    return mismatch is None



# ------------------------------------------------------------------ the command-line client, end to end
def build_rip():
    """The real `rip` binary (no cfg flag), built from the working tree."""
    from ..common import HARNESS, REPO
    target = os.path.join(HARNESS, "target", "cli")
    env = dict(os.environ, CARGO_TARGET_DIR=target, CARGO_NET_OFFLINE="true")
    p = subprocess.run(["cargo", "build", "--offline", "-q", "-p", "rip-cli", "--manifest-path", os.path.join(REPO, "Cargo.toml")],
                       env=env, stdout=subprocess.PIPE, stderr=subprocess.STDOUT, text=True)
    if p.returncode != 0:
        print(p.stdout[-3000:])
        die_tool("cargo build -p rip-cli failed")
    return os.path.join(target, "debug", "rip")


# ---- the waiting client against a scripted live authority
# One real `rip tasks list` waits while this process plays the authority: it owns lock.json (its pid is alive) and takes
# the file through the states an authority goes through (created but not yet written = P, record written = F, endpoint
# advertised but not answering = MU, advertised and answering = M) and through a hand-over to a second authority (X: the
# lock file is replaced by a new, not yet written one without ever being absent).  The player advances only once the
# client has read the current file (atime > mtime, relatime) and a minimum time has passed, so what the client observed
# is known.  AuthorityCli.tla abstracts the client's grace timer as "a half-written lock is only cleaned when its creator
# is dead"; every scripted creator is alive and every half-written phase is shorter than the code's 1 s grace, so the
# client must never remove or replace the lock, never start a server, and must attach to the endpoint once advertised.
WATCH_SCRIPTS = {
    # id: phases
    "w_plain": [("P", 250, 600), ("F", 500), ("M",)],
    "w_handover_after_slow_start": [("P", 300, 600), ("F", 1300), ("X", 400, 600), ("F", 300), ("M",)],
    "w_three_handovers": [("P", 450, 600), ("F", 600), ("X", 450, 600), ("F", 600), ("X", 450, 600), ("F", 300), ("M",)],
    "w_unreachable_meta_then_handover": [("P", 350, 600), ("F", 300), ("MU", 1200), ("MD", 300), ("X", 450, 600), ("F", 300), ("M",)],
    "w_full_first_then_handover": [("F", 1400), ("X", 450, 600), ("F", 300), ("M",)],
    "w_empty_file_handover": [("P0", 300, 600), ("F", 1300), ("X0", 400, 600), ("F", 300), ("M",)],
    # a start-up that takes most of the grace period (a shortened grace removes this lock)
    "w_long_half_written": [("P", 850, 850), ("F", 300), ("M",)],
    # two half-written lock files in a row with nothing valid in between: the second one is young when the client's
    # timer, started on the first, runs out (recorded finding D9d: the timer belongs to the observer, not to the file)
    "w_two_half_written_in_a_row": [("P", 900, 900), ("X", 990, 990), ("F", 300), ("M",)],
    # the meta file of a DEAD authority is still there (a cleaner crashed between its two renames) while a new, live authority
    # has created lock.json and not yet written it: the dead pid in meta.json says nothing about the owner of this lock
    "w_dead_meta_beside_starting_authority": [("DM",), ("P", 500, 800), ("F", 300), ("M",)],
    "w_dead_meta_beside_empty_lock_then_handover": [("DM",), ("P0", 400, 700), ("F", 400), ("X", 400, 600), ("F", 300), ("M",)],
}
QUICK_SCRIPTS = ("w_plain", "w_handover_after_slow_start", "w_unreachable_meta_then_handover", "w_empty_file_handover", "w_long_half_written",
                 "w_two_half_written_in_a_row", "w_dead_meta_beside_starting_authority")
GRACE_MS = 1000


def cli_watch_cases(v, wd, rip, ids=None):
    import threading, http.server
    hits = []

    class H(http.server.BaseHTTPRequestHandler):
        def do_GET(self):
            hits.append((time.time(), self.path))
            body = b"[]" if self.path.startswith("/tasks") else b"{}"
            self.send_response(200)
            self.send_header("content-type", "application/json")
            self.send_header("content-length", str(len(body)))
            self.end_headers()
            self.wfile.write(body)

        def log_message(self, *a):
            pass

    srv = http.server.ThreadingHTTPServer(("127.0.0.1", 0), H)
    threading.Thread(target=srv.serve_forever, daemon=True).start()
    endpoint = f"http://127.0.0.1:{srv.server_address[1]}"
    me = os.getpid()
    n_run = 0
    for sid, phases in WATCH_SCRIPTS.items():
        if ids and sid not in ids:
            continue
        n_run += 1
        root = os.path.join(wd, f"watch-{sid}")
        shutil.rmtree(root, ignore_errors=True)
        data, ws = os.path.join(root, "data"), os.path.join(root, "ws")
        adir = os.path.join(data, "authority")
        os.makedirs(adir)
        os.makedirs(ws)
        lockf, metaf, tmpf = os.path.join(adir, "lock.json"), os.path.join(adir, "meta.json"), os.path.join(root, "next-lock")
        rec = json.dumps({"pid": me, "started_at_ms": int(time.time() * 1000), "workspace_root": ws}) + "\n"
        mu = threading.Lock()
        cur = {"ino": None, "born": 0.0, "state": "-", "phase": -1}
        events, stop = [], threading.Event()
        del hits[:]

        def watcher():
            while not stop.is_set():
                with mu:
                    if cur["ino"] is not None:
                        try:
                            ino = os.stat(lockf).st_ino
                        except FileNotFoundError:
                            ino = None
                        if ino != cur["ino"]:
                            events.append({"t": time.time(), "phase": cur["phase"], "state": cur["state"], "age_ms": int((time.time() - cur["born"]) * 1000),
                                           "what": "removed" if ino is None else "replaced"})
                            cur["ino"] = None      # report once
                time.sleep(0.004)

        def observed(path):
            try:
                st = os.stat(path)
                return st.st_atime_ns > st.st_mtime_ns
            except FileNotFoundError:
                return True

        def hold(path, min_ms, max_ms):
            """wait until the client has read `path` since our last write and min_ms have passed (at most max_ms)."""
            t0 = time.time()
            seen = False
            while (time.time() - t0) * 1000 < max_ms:
                seen = seen or observed(path)
                if seen and (time.time() - t0) * 1000 >= min_ms:
                    break
                if cur["ino"] is None and cur["phase"] >= 0 and events:
                    break
                time.sleep(0.005)
            return seen

        def new_instance(content, state, idx):
            with open(tmpf, "w") as f:
                f.write(content)
            with mu:
                os.rename(tmpf, lockf)
                cur.update(ino=os.stat(lockf).st_ino, born=time.time(), state=state, phase=idx)

        # the first file exists before the client starts
        th = threading.Thread(target=watcher, daemon=True)
        e = dict(os.environ, RIP_DATA_DIR=data, RIP_WORKSPACE_ROOT=ws, RUST_BACKTRACE="0")
        client = None
        seen_log = []
        t_start = time.time()
        for idx, ph in enumerate(phases):
            if events:
                break
            k = ph[0]
            if k in ("P", "P0", "X", "X0"):
                new_instance("" if k.endswith("0") else '{"pid":', "half-written", idx)
            elif k == "F":
                if cur["ino"] is None:
                    new_instance(rec, "written", idx)
                else:
                    with mu:
                        with open(lockf, "w") as f:      # in place: same file, as the authority's write_all
                            f.write(rec)
                        cur.update(state="written", phase=idx)
            elif k == "MU":
                with open(metaf + ".tmp", "w") as f:
                    f.write(json.dumps({"endpoint": "http://127.0.0.1:9", "pid": me, "started_at_ms": 1, "workspace_root": ws}))
                os.rename(metaf + ".tmp", metaf)
                with mu:
                    cur.update(state="written+advertised(unreachable)", phase=idx)
            elif k == "MD":
                os.remove(metaf)
                with mu:
                    cur.update(state="written", phase=idx)
            elif k == "DM":
                gone = subprocess.Popen(["true"])
                gone.wait()
                with open(metaf, "w") as f:
                    f.write(json.dumps({"endpoint": "http://127.0.0.1:9", "pid": gone.pid, "started_at_ms": 1, "workspace_root": ws}))
                continue
            elif k == "M":
                with open(metaf + ".tmp", "w") as f:
                    f.write(json.dumps({"endpoint": endpoint, "pid": me, "started_at_ms": 1, "workspace_root": ws}))
                os.rename(metaf + ".tmp", metaf)
                with mu:
                    cur.update(state="serving", phase=idx)
            if client is None:
                th.start()
                client = subprocess.Popen([rip, "tasks", "list"], env=e, stdout=subprocess.PIPE, stderr=subprocess.PIPE, text=True)
            if k == "M":
                break
            if k in ("P", "P0", "X", "X0"):
                seen_log.append((k, hold(lockf, ph[1], ph[2])))
            elif k == "F":
                seen_log.append((k, hold(lockf, ph[1], 3000)))
            elif k == "MU":
                seen_log.append((k, hold(metaf, ph[1], 3000)))
            elif k == "MD":
                seen_log.append((k, hold(lockf, ph[1], 3000)))
        try:
            so, se = client.communicate(timeout=15)
        except subprocess.TimeoutExpired:
            client.kill()
            so, se = client.communicate()
        stop.set()
        th.join()
        spawned_log = os.path.exists(os.path.join(adir, "authority.log"))
        # servers the client started (none expected): find them by their environment, stop them
        strays = []
        for pid in os.listdir("/proc"):
            if pid.isdigit() and int(pid) != me:
                try:
                    envb = open(f"/proc/{pid}/environ", "rb").read()
                except Exception:
                    continue
                if ("RIP_DATA_DIR=" + data).encode() in envb.split(b"\0"):
                    strays.append(int(pid))
        for pid in strays:
            try:
                os.kill(pid, signal.SIGKILL)
            except ProcessLookupError:
                pass
        attached = any(p_.startswith("/openapi.json") for _, p_ in hits)
        case = {"engine": "cli-watch", "script": sid, "phases": phases}
        v.add_eval({"cli_watch": sid}, True)
        unobserved = [k for k, s_ in seen_log if not s_]
        inconclusive = bool(events) and events[0]["state"] == "half-written" and events[0]["age_ms"] >= GRACE_MS
        if inconclusive:
            # the file was observed gone only after a full grace period of its own (a stalled machine): what the code is designed to do
            v.cov.setdefault("cli_watch_inconclusive", []).append({sid: events[0]})
        elif events:
            ev = events[0]
            # the file was younger than the grace period when it went (the measured age is an upper bound of its age at removal)
            only_half_written_so_far = all(ph[0] in ("P", "P0", "X", "X0") for ph in phases[:ev["phase"] + 1])
            key = "D9d-cli-grace-timer-spans-lock-files" if (sid == "w_two_half_written_in_a_row" and ev["phase"] == 1 and only_half_written_so_far
                                                           and ev["state"] == "half-written") else None
            v.violation(f"waiting client, script {sid}: the client {ev['what']} lock.json of a live authority (pid alive, file {ev['state']}, "
                        f"{ev['age_ms']} ms old, inside the 1 s grace) in phase {ev['phase']} {phases[ev['phase']][0]}"
                        + ("; it then started another `rip serve`" if spawned_log or strays else ""), dict(case, event=ev), key=key)
        elif spawned_log or strays:
            v.violation(f"waiting client, script {sid}: the client started a server although lock.json was never absent and its owner is alive", case)
        elif not attached:
            v.violation(f"waiting client, script {sid}: the live authority advertised {endpoint} but the client never attached (rc {client.returncode}: {se.strip()[:160]})", case)
        if unobserved:
            v.cov.setdefault("cli_watch_phases_not_observed_by_client", []).append({sid: unobserved})
        log(f"[cli-watch] {sid}: {'lock taken' if events else 'server started' if spawned_log or strays else 'ok' if attached else 'not attached'} in {time.time() - t_start:.1f}s (phases seen by the client: {seen_log})")
        shutil.rmtree(root, ignore_errors=True)
    srv.shutdown()
    v.cov["cli_watch_scripts"] = n_run


def shutdown_cases(v, wd, rip, reps=2):
    """A real `rip serve` with a request in flight receives SIGTERM and a second `rip serve` is started meanwhile: as long as
    the first process lives, lock.json names it and the second one does not become the authority (Authority.tla: the role is
    given up by the owner's LAST step; the drain of in-flight requests belongs to the owner's life)."""
    import urllib.request
    for rep in range(reps):
        inflight_s = (1.6, 1.3)[rep % 2]
        root = os.path.join(wd, f"shutdown-{rep}")
        data, ws = os.path.join(root, "data"), os.path.join(root, "ws")
        os.makedirs(data)
        os.makedirs(ws)
        lockf, metaf = os.path.join(data, "authority", "lock.json"), os.path.join(data, "authority", "meta.json")
        e = dict(os.environ, RIP_DATA_DIR=data, RIP_WORKSPACE_ROOT=ws, RIP_SERVER_ADDR="127.0.0.1:0", RUST_BACKTRACE="0")
        for k in ("RIP_OPENRESPONSES_ENDPOINT", "RIP_OPENRESPONSES_API_KEY"):
            e.pop(k, None)
        a = subprocess.Popen([rip, "serve"], env=e, stdout=subprocess.DEVNULL, stderr=subprocess.DEVNULL)
        b = None
        case = {"engine": "shutdown", "rep": rep}
        try:
            ep = None
            for _ in range(400):
                try:
                    ep = json.load(open(metaf))["endpoint"]
                    break
                except Exception:
                    time.sleep(0.025)
            if not ep:
                v.drift({"case": f"shutdown-{rep}", "note": "rip serve did not advertise an endpoint within 10 s"})
                continue

            def post(path, body):
                rq = urllib.request.Request(ep + path, data=json.dumps(body).encode(), headers={"content-type": "application/json"}, method="POST")
                return json.loads(urllib.request.urlopen(rq, timeout=5).read() or b"{}")
            sid = post("/sessions", {}).get("session_id")
            post(f"/sessions/{sid}/input", {"input": json.dumps({"tool": "bash", "args": {"command": f"sleep {inflight_s}"}})})
            # an open event stream keeps a request in flight through the drain

            def reader():
                try:
                    urllib.request.urlopen(ep + f"/sessions/{sid}/events", timeout=6).read()
                except Exception:
                    pass
            th = threading.Thread(target=reader, daemon=True)
            th.start()
            time.sleep(0.3)
            a.send_signal(signal.SIGTERM)
            t_term = time.time()
            gone_at, foreign, b_meta_while_a_alive = None, None, None
            while time.time() - t_term < 5.0:
                if b is None and time.time() - t_term >= 0.1:
                    b = subprocess.Popen([rip, "serve"], env=e, stdout=subprocess.DEVNULL, stderr=subprocess.DEVNULL)
                alive = a.poll() is None
                try:
                    lk = json.load(open(lockf))
                except Exception:
                    lk = None
                if alive:
                    if (lk is None or lk.get("pid") != a.pid):
                        if gone_at is None:
                            gone_at, foreign = time.time(), (lk or {}).get("pid")
                    else:
                        gone_at = None
                    try:
                        m = json.load(open(metaf))
                        if b is not None and m.get("pid") == b.pid and b_meta_while_a_alive is None:
                            b_meta_while_a_alive = time.time() - t_term
                    except Exception:
                        pass
                    # the owner's last steps (drop the files, return from main, tear the runtime down) take milliseconds, on a busy
                    # machine perhaps tenths of a second; 700 ms of life after the lock stopped naming it is not "about to exit"
                    if gone_at is not None and time.time() - gone_at > 0.7:
                        v.violation(f"`rip serve` (pid {a.pid}) with a request in flight was still running {time.time() - gone_at:.2f} s after lock.json stopped naming it "
                                    f"({'absent' if foreign is None else 'pid ' + str(foreign)}) following SIGTERM"
                                    + (f"; a second `rip serve` advertised itself as the authority {b_meta_while_a_alive:.2f} s after the signal while the first was alive" if b_meta_while_a_alive else ""),
                                    case)
                        break
                else:
                    break
                time.sleep(0.01)
            v.add_eval({"shutdown": rep, "inflight_s": inflight_s}, True)
        except Exception as ex:
            v.drift({"case": f"shutdown-{rep}", "note": f"could not drive the server: {ex}"})
        finally:
            for pr in (a, b):
                if pr is not None:
                    try:
                        pr.kill()
                    except Exception:
                        pass
                    pr.wait()
            shutil.rmtree(root, ignore_errors=True)
    v.cov["shutdown_with_request_in_flight"] = reps


def cli_cases(v, wd, rip):
    """`rip tasks list` against a store left behind by a dead authority must start an authority and answer."""
    started = []
    for st, clients in [(s_, n) for s_ in ("none", "dead_lock", "dead_lock_meta", "dead_partial", "dead_meta", "dead_partial_meta") for n in (1, 2)]:
        root = os.path.join(wd, f"cli-{st}-{clients}")
        data, ws = os.path.join(root, "data"), os.path.join(root, "ws")
        os.makedirs(os.path.join(data, "authority"))
        os.makedirs(ws)
        child = subprocess.Popen(["true"])
        child.wait()
        dead = child.pid
        lockf, metaf = os.path.join(data, "authority", "lock.json"), os.path.join(data, "authority", "meta.json")
        rec = json.dumps({"pid": dead, "started_at_ms": 1, "workspace_root": ws}) + "\n"
        met = json.dumps({"endpoint": "http://127.0.0.1:9", "pid": dead, "started_at_ms": 1, "workspace_root": ws})
        if st in ("dead_lock", "dead_lock_meta"):
            open(lockf, "w").write(rec)
        if st in ("dead_partial", "dead_partial_meta"):
            open(lockf, "w").write('{"pid":')
        if st in ("dead_lock_meta", "dead_meta", "dead_partial_meta"):
            open(metaf, "w").write(met)
        e = dict(os.environ, RIP_DATA_DIR=data, RIP_WORKSPACE_ROOT=ws, RUST_BACKTRACE="0")
        t0 = time.time()
        procs = [subprocess.Popen([rip, "tasks", "list"], env=e, stdout=subprocess.PIPE, stderr=subprocess.PIPE, text=True) for _ in range(clients)]
        outs = []
        for pr in procs:
            try:
                so, se = pr.communicate(timeout=25)
            except subprocess.TimeoutExpired:
                pr.kill()
                so, se = pr.communicate()
            outs.append((pr.returncode, so.strip()[:80], se.strip()[:240]))
        dt = time.time() - t0
        ok = all(rc == 0 for rc, _, _ in outs)
        meta_now = None
        try:
            meta_now = json.load(open(metaf))
        except Exception:
            pass
        v.add_eval({"cli": st, "clients": clients}, True)
        case = {"engine": "cli", "start": st, "clients": clients}
        if not ok:
            what = (f"`rip tasks list` ({clients} at once) against a store left by a dead authority (leftover state {st}) does not get an authority: "
                    f"{[o for o in outs if o[0] != 0][0][2][:200]}")
            v.violation(what, case, key="D20b-cli-never-recovers-half-written-lock-next-to-dead-meta" if st == "dead_partial_meta" else None)
        elif not meta_now or meta_now.get("pid") == dead:
            v.violation(f"leftover state {st}: the client answered but meta.json does not name a new authority", case)
        if meta_now and meta_now.get("pid") != dead:
            started.append(meta_now["pid"])
            # exactly one authority: the lock names the same process
            try:
                lk = json.load(open(lockf))
                if lk.get("pid") != meta_now["pid"]:
                    v.violation(f"leftover state {st}, {clients} client(s): lock.json names pid {lk.get('pid')}, meta.json pid {meta_now['pid']}: two authorities", case)
            except Exception:
                v.violation(f"leftover state {st}: an authority answers but lock.json is unreadable", case)
            try:
                os.kill(meta_now["pid"], signal.SIGTERM)
            except ProcessLookupError:
                pass
            for _ in range(60):
                if not os.path.exists(lockf) and not os.path.exists(metaf):
                    break
                time.sleep(0.05)
            if os.path.exists(lockf) or os.path.exists(metaf):
                v.drift({"case": f"cli-{st}", "note": "the authority did not remove its files on SIGTERM within 3 s"})
        log(f"[cli] {st} x{clients}: {'ok' if ok else 'FAILED'} in {dt:.1f}s")
        shutil.rmtree(root, ignore_errors=True)
    v.cov["cli_end_to_end_cases"] = 12


def run(tier, seed):
    v = Verdict(PROP, tier, seed)
    wd = workdir(PROP)
    thorough = tier == "thorough"
    r = tlc.run("MCAuthority", "Authority_fixed.cfg", workers=6, timeout=900)
    v.add_tlc(r, "Authority, cleanup rename atomic with its check (3 contenders, 6 leftover states, releases, deadline at any retry): "
                 "AtMostOne, NeverStealLive, HolderOwnsLock, ServingOwnsLock, AtMostOneActing, LiveResidentKept, Usable")
    if not r.ok:
        log(r.out[-3000:])
        die_tool("Authority (atomic cleanup) violates its properties: specification error")
    r = tlc.run("MCAuthority", "Authority_dropfirst.cfg", workers=4, timeout=600)
    v.add_tlc(r, "Authority with the files dropped at the shutdown signal and requests in flight served afterwards: counterexample to AtMostOneActing expected (non-vacuity of the shutdown family)")
    v.cov["drop_before_drain_counterexample"] = "AtMostOneActing" in r.violated
    if "AtMostOneActing" not in r.violated:
        die_tool("Authority_dropfirst: expected counterexample to AtMostOneActing not found")
    r = tlc.run("MCAuthority", "Authority_wedge.cfg", workers=6, timeout=900)
    v.add_tlc(r, "Authority with the pinned commit's corrupt cleanup (gives up whenever meta.json exists): counterexample to Usable expected (fixed, 3036fd1)")
    v.cov["wedge_counterexample"] = bool(r.violated)
    r = tlc.run("MCAuthority", "Authority_impl.cfg", workers=4, timeout=900)
    v.add_tlc(r, "Authority as implemented (check, then rename whatever is there): counterexample expected (findings D9a-c)")
    v.cov["as_implemented_counterexample"] = bool(r.violated)
    if not r.violated:
        die_tool("as-implemented Authority model has no counterexample (vacuous?)")
    # ---- the command-line client as a second kind of contender (design level)
    r = tlc.run("AuthorityCli", "AuthorityCli_fixed.cfg", workers=4, timeout=900)
    v.add_tlc(r, "AuthorityCli (2 clients + 2 servers they spawn, atomic cleanup): CSafe, AttachedToHolder, every client attaches (all leftover states but the doubly crashed one)")
    if not r.ok:
        log(r.out[-3000:])
        die_tool("AuthorityCli violates its properties")
    r = tlc.run("AuthorityCli", "AuthorityCli_orphan.cfg", workers=4, timeout=900)
    v.add_tlc(r, "AuthorityCli with the pinned commit's stale cleanup (nothing done when lock.json is missing): clients never attach from leftover state dead_meta (fixed, 4a81439)")
    v.cov["orphan_meta_counterexample"] = bool(r.violated)
    if not r.violated:
        die_tool("AuthorityCli_orphan: expected counterexample not found")
    r = tlc.run("AuthorityCli", "AuthorityCli_wedge.cfg", workers=2, timeout=300)
    v.add_tlc(r, "AuthorityCli from the doubly crashed leftover state (half-written lock + meta of a dead authority): the client loop never reaches corrupt cleanup")
    if r.violated:
        v.violation("client never attaches from dead_partial_meta (TLC)", {"engine": "tlc", "cfg": "AuthorityCli_wedge.cfg"},
                    key="D20b-cli-never-recovers-half-written-lock-next-to-dead-meta")
    r = tlc.run("AuthorityCli", "AuthorityCli_grace_file.cfg", workers=4, timeout=900)
    v.add_tlc(r, "AuthorityCli with an explicit grace timer that restarts when the unreadable lock is another file, compare-and-rename cleanup: CSafe, every client attaches")
    if not r.ok:
        log(r.out[-3000:])
        die_tool("AuthorityCli (grace timer per file) violates its properties")
    r = tlc.run("AuthorityCli", "AuthorityCli_grace_observer.cfg", workers=1, timeout=900)
    v.add_tlc(r, "AuthorityCli with the grace timer as implemented (started on the first unreadable lock the client sees): counterexample expected (finding D9d)")
    v.cov["grace_timer_counterexample"] = bool(r.violated) and "ClientCorruptRename" in r.out
    if not v.cov["grace_timer_counterexample"]:
        die_tool("AuthorityCli_grace_observer: expected counterexample (ClientCorruptRename of a live creator's lock) not found")
    # ---- the real client binary: waiting on a scripted live authority (both tiers), leftover states end to end (thorough)
    rip = build_rip()
    cli_watch_cases(v, wd, rip, ids=None if thorough else QUICK_SCRIPTS)
    shutdown_cases(v, wd, rip, reps=4 if thorough else 2)
    if thorough:
        cli_cases(v, wd, rip)
    g = tlc.run("GenAuthority", "GenAuthority_t.cfg", workers=4, timeout=1200, heap="8g")
    v.add_tlc(g, "GenAuthority: every complete behaviour of 2 contenders from every leftover state (as implemented), with the predicted files after each step")
    if g.errors or not g.cases:
        log(g.out[-2000:])
        die_tool("GenAuthority failed")
    model_cases = g.cases
    if thorough:
        g3 = tlc.run("GenAuthority", "GenAuthority_p3.cfg", workers=1, simulate=3000, depth=80, seed=seed + 1, timeout=900, heap="8g")
        v.add_tlc(g3, "GenAuthority (3 contenders): random complete behaviours")
        model_cases = model_cases + g3.cases
    n = 6000 if thorough else 700
    sel = stratified(model_cases, n, seed)
    cases = []
    for i, m in enumerate(sel):
        procs = sorted(m["results"].keys())
        cases.append({"id": f"a{i}", "start": m["start"], "procs": procs,
                      "sched": [{"a": s["a"], "to": s["to"]} for s in m["sched"]], "_model": m})
    # ---- Usable, directly: from every leftover state of a dead authority a contender that runs alone (and two that run
    #      freely) must end up with the role
    for st in ("none", "dead_lock", "dead_lock_meta", "dead_partial", "dead_meta", "dead_partial_meta"):
        for procs in (["p1"], ["p1", "p2"]):
            cases.append({"id": f"solo-{st}-{len(procs)}", "start": st, "procs": procs, "sched": [],
                          "_model": {"sched": [], "stolen": [], "results": {p: "?" for p in procs}, "atmostone": True, "start": st}, "_solo": True})
    results = run_harness("auth", [{k: c[k] for k in c if not k.startswith("_")} for c in cases], wd, "auth", shards=14, timeout=3000)
    by_id = {c["id"]: c for c in cases}
    conform = 0
    for res in results:
        c = by_id[res["id"]]
        if c.get("_solo"):
            n_ok = len([p for p, r_ in res["results"].items() if r_ and r_.get("ok")])
            v.add_eval({"solo": c["id"]}, True)
            if n_ok != 1:
                v.violation(f"start {res['start']}, {len(c['procs'])} contender(s) running freely: {n_ok} obtained the authority role "
                            f"({'the store of a dead authority is not usable again' if n_ok == 0 else 'two authorities'}); results "
                            f"{ {p: (r_.get('ok'), str(r_.get('err'))[:80]) for p, r_ in res['results'].items()} }",
                            {"engine": "auth", "case": {k: c[k] for k in c if not k.startswith("_")}, "observed": "unusable" if n_ok == 0 else "two_authorities"})
            continue
        ok = judge(v, c, res)
        conform += 1 if ok else 0
        v.add_eval({"start": res["start"], "sched": c["sched"]}, len(c["sched"]) >= 4)
        if len(v.cov["samples"]) < 2 and c["_model"]["stolen"]:
            v.sample({"start": res["start"], "schedule": [f"{s['a']}->{s['to']}" for s in c["sched"]],
                      "model_stolen": c["_model"]["stolen"], "results": {p: bool(r and r.get('ok')) for p, r in res["results"].items()}})
    v.cov["behaviours_in_model"] = len(model_cases)
    v.cov["behaviours_forced"] = len(results)
    v.cov["behaviours_conforming_step_by_step"] = conform
    v.cov["traces_validated_against_impl"] = len(results)
    v.assumptions += ["contenders are threads of one process (same pid); a dead owner is the pid of a reaped child; a live resident authority is this process",
                      "the code's timing assumption is kept: a live writer finishes its lock record within the 1 s grace period, schedules finish within the 2 s deadline",
                      "crashes of contenders in the middle of a cleanup are not part of the forced behaviours",
                      "the CLI's ensure_local_authority loop (binary crate) is not driven; it calls the same cleanup functions"]
    return v.finish(
        rule="cases = complete behaviours (every contender settled) of the as-implemented Authority model, stratified by leftover state, predicted takeovers, "
             "results and length; each step forced with gates and the files compared with the prediction; non-trivial = at least 4 steps; distinct by (start, schedule)",
        exhaustive=False)


def replay(path, seed):
    with open(path) as f:
        rep = json.load(f)
    wd = workdir(PROP + "-replay")
    if rep["case"].get("engine") == "cli-watch":
        v = Verdict(PROP, "replay", seed)
        cli_watch_cases(v, wd, build_rip(), ids=(rep["case"]["script"],))
        if v.violations:
            print(f"VIOLATION property={PROP} replay={path}")
            return 1
        return 0
    case = rep["case"]["case"]
    res = run_harness("auth", [case], wd, "replay")[0]
    n_ok = len([p for p, r in res["results"].items() if r and r.get("ok")])
    print(json.dumps({"results": res["results"], "steps": [[s["a"], s["to"], s["arrived"], s["probe"]["lock"], s["probe"]["meta"]] for s in res["steps"]]}))
    resident = 1 if res["start"] in ("live_serving", "live_starting") else 0
    obs = rep["case"].get("observed")
    bad = (obs == "two_authorities" and n_ok + resident > 1) or (obs == "unusable" and n_ok == 0) or (obs == "hang" and not res["all_settled"])
    if obs == "steal":
        steals, _ = observe(res)
        bad = any(k == rep["case"].get("step") and what == rep["case"].get("what") for (k, a, what, owner, root, point) in steals)
    if bad:
        print(f"VIOLATION property={PROP} replay={path}")
        return 1
    return 0
