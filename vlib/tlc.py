"""TLC runner: model checking, behaviour generation (CASE lines) and trace validation."""
import json
import os
import re
import shutil
import subprocess
import time
import uuid

VERIF = os.path.dirname(os.path.dirname(os.path.abspath(__file__)))
SPEC = os.path.join(VERIF, "spec")
WORK = os.path.join(os.environ.get("VERIF_ALT") or VERIF, "work")

_STATES = re.compile(r"(\d+) states generated, (\d+) distinct states found")
_DEPTH = re.compile(r"The depth of the complete state graph search is (\d+)")
_VIOL_INV = re.compile(r"Error: Invariant (\S+) is violated")
_VIOL_PROP = re.compile(r"Error: (?:Action|Temporal) propert(?:y|ies) (\S+)? ?(?:is|were) violated")


class TlcResult:
    def __init__(self):
        self.rc = None
        self.generated = 0
        self.distinct = 0
        self.depth = 0
        self.violated = []      # invariant / property names
        self.cases = []         # parsed JSON of CASE lines
        self.prints = []        # other PrintT tuples (raw)
        self.errors = []        # TLC errors that are not property violations
        self.wall = 0.0
        self.cmd = ""
        self.out = ""
        self.coverage = {}      # action name -> (distinct, taken) when -coverage is on
        self.timed_out = False

    @property
    def ok(self):
        return self.rc == 0 and not self.violated and not self.errors and not self.timed_out

    def summary(self):
        return {"cmd": self.cmd, "states_generated": self.generated, "distinct": self.distinct,
                "depth": self.depth, "violated": self.violated, "wall_s": round(self.wall, 2),
                "cases": len(self.cases)}


def _parse_case(line):
    # <<"CASE", "....">>
    m = re.match(r'^<<"([A-Z]+)", "(.*)">>$', line)
    if not m:
        return None, None
    tag, inner = m.group(1), m.group(2)
    try:
        return tag, json.loads(json.loads('"' + inner + '"'))
    except Exception:
        return tag, None


def run(module, cfg, workers=4, simulate=None, depth=None, seed=None, timeout=600, env=None,
        coverage=False, heap="4g", deque=False, extra=None, tags=("CASE",)):
    """Run TLC on spec/<module>.tla with spec/<cfg>. Returns TlcResult."""
    res = TlcResult()
    meta = os.path.join(WORK, "tlc", uuid.uuid4().hex)
    os.makedirs(meta, exist_ok=True)
    java_opts = ["-Xss64m"]
    if deque:
        java_opts = ["-Xss1g", "-Dtlc2.tool.queue.IStateQueue=StateDeque"]
    cmd = ["java", "-XX:+UseParallelGC", f"-Xmx{heap}"] + java_opts + [
        "-cp", "/opt/veriftools/tla/tla2tools.jar:/opt/veriftools/tla/CommunityModules-deps.jar",
        "tlc2.TLC"]
    # use the wrapper on PATH (it sets the classpath incl. CommunityModules)
    cmd = ["tlc"]
    cmd += ["-workers", str(workers), "-metadir", meta, "-cleanup", "-noGenerateSpecTE",
            "-config", cfg]
    if coverage:
        cmd += ["-coverage", "1"]
    if simulate is not None:
        cmd += ["-simulate", f"num={simulate}"]
        if depth:
            cmd += ["-depth", str(depth)]
    if seed is not None:
        cmd += ["-seed", str(seed)]
    if extra:
        cmd += extra
    cmd += [module + ".tla"]
    e = dict(os.environ)
    jto = f"-Xmx{heap} " + " ".join(java_opts)
    e["JAVA_TOOL_OPTIONS"] = jto
    if env:
        e.update(env)
    res.cmd = " ".join(cmd)
    t0 = time.time()
    try:
        p = subprocess.run(cmd, cwd=SPEC, env=e, stdout=subprocess.PIPE, stderr=subprocess.STDOUT,
                           timeout=timeout, text=True, errors="replace")
        res.rc = p.returncode
        out = p.stdout
    except subprocess.TimeoutExpired as ex:
        res.timed_out = True
        out = ex.stdout.decode("utf8", "replace") if isinstance(ex.stdout, bytes) else (ex.stdout or "")
        res.rc = -1
    res.wall = time.time() - t0
    print(f"[tlc] {module} {cfg}: {res.wall:.1f}s", file=__import__("sys").stderr, flush=True)
    shutil.rmtree(meta, ignore_errors=True)
    res.out = out
    for line in out.splitlines():
        if line.startswith('<<"'):
            tag, val = _parse_case(line)
            if tag in tags and val is not None:
                res.cases.append(val)
            elif tag is not None:
                res.prints.append((tag, val))
            continue
        m = _STATES.search(line)
        if m:
            res.generated, res.distinct = int(m.group(1)), int(m.group(2))
        m = _DEPTH.search(line)
        if m:
            res.depth = int(m.group(1))
        m = _VIOL_INV.search(line)
        if m:
            res.violated.append(m.group(1))
        elif "is violated" in line or "was violated" in line or "were violated" in line:
            res.violated.append(line.strip())
        elif line.startswith("Error:") and "violated" not in line:
            if "Deadlock" in line:
                res.violated.append("Deadlock")
            else:
                res.errors.append(line.strip())
        m = re.match(r"^<(\w+) line \d+, col \d+ to line \d+, col \d+ of module \w+>: (\d+):(\d+)", line)
        if m:
            res.coverage[m.group(1)] = (int(m.group(2)), int(m.group(3)))
    # TLC exit code 12/13 = safety/liveness violation; treat those as "violated", others as errors
    if res.rc not in (0, 12, 13, -1) and not res.violated and not res.errors:
        res.errors.append(f"tlc exit code {res.rc}")
    if res.rc in (12, 13) and not res.violated:
        res.violated.append("unknown")
    return res


def validate_trace(module, cfg, trace_path, timeout=600, heap="2g"):
    """Trace validation: the module reads IOEnv.TRACE.  Accept iff TLC exits 0."""
    res = run(module, cfg, workers=1, timeout=timeout, env={"TRACE": trace_path}, deque=True,
              heap=heap, tags=("CASE",))
    rejected = [p for p in res.prints if p[0] == "REJECTED"]
    return res, rejected


def apalache_inductive(module, cinit, indinit="IndInit", inv="IndInv", init="Init", timeout=600):
    """Apalache: `inv` is inductive (Init => inv at length 0; indinit /\\ Next => inv' at length 1).
    -> (ok: bool, wall seconds, tail of the output).  spec/apalache/<module>.tla"""
    d = os.path.join(SPEC, "apalache")
    out = os.path.join(WORK, "apalache")
    t0 = time.time()
    tails = []
    ok = True
    for a in (["--init=" + init, "--length=0"], ["--init=" + indinit, "--length=1"]):
        cmd = ["timeout", str(timeout), "apalache-mc", "check", "--cinit=" + cinit, "--inv=" + inv, "--out-dir=" + out] + a + [module + ".tla"]
        p = subprocess.run(cmd, cwd=d, stdout=subprocess.PIPE, stderr=subprocess.STDOUT, text=True)
        tails.append(p.stdout[-400:])
        if "EXITCODE: OK" not in p.stdout:
            ok = False
    shutil.rmtree(out, ignore_errors=True)
    print(f"[apalache] {module} {cinit}: inductive={ok} {time.time() - t0:.1f}s", file=__import__("sys").stderr, flush=True)
    return ok, round(time.time() - t0, 1), tails
