"""Binding of spec/RunLoop.tla: concretisation of provider scripts and run configurations into
scripted-provider cases, and projections of the real run for comparison with Run(cfg, script)."""
import json

from . import tlc

TOOL_ARGS = {"write": {"path": "out.txt", "content": "X", "append": True}, "ls": {"path": "."}, "nope": {}}
CHOICE = {
    "auto": "auto", "none": "none", "required": "required",
    "fn_ls": {"type": "function", "name": "ls"},
    "allowed_write": {"type": "allowed_tools", "mode": "auto", "tools": [{"type": "function", "name": "write"}]},
    "allowed_hosted_only": {"type": "allowed_tools", "mode": "auto", "tools": [{"type": "web_search_preview"}]},
}
KIND = {
    "message": "continuity_message_appended", "run_spawned": "continuity_run_spawned",
    "selection_decided": "continuity_context_selection_decided", "context_compiled": "continuity_context_compiled",
    "side_effects": "continuity_tool_side_effects", "cursor_updated": "continuity_provider_cursor_updated",
    "run_ended": "continuity_run_ended",
}


def sse(obj):
    return "data: " + json.dumps(obj) + "\n\n"


def call_events(c, k, streamed):
    item = {"type": "function_call", "id": f"item_{k}_{c['cid']}", "call_id": c["cid"], "name": c["tool"],
            "arguments": json.dumps(TOOL_ARGS[c["tool"]]), "status": "completed"}
    out = ""
    if streamed:
        # added (no arguments) + argument deltas + arguments.done + item.done without arguments
        added = dict(item, arguments="", status="in_progress")
        out += sse({"type": "response.output_item.added", "output_index": c["idx"], "item": added})
        args = item["arguments"]
        half = len(args) // 2
        out += sse({"type": "response.function_call_arguments.delta", "item_id": item["id"], "output_index": c["idx"], "delta": args[:half]})
        out += sse({"type": "response.function_call_arguments.delta", "item_id": item["id"], "output_index": c["idx"], "delta": args[half:]})
        out += sse({"type": "response.function_call_arguments.done", "item_id": item["id"], "output_index": c["idx"], "arguments": args})
        done = dict(item, arguments="")
        ev = sse({"type": "response.output_item.done", "output_index": c["idx"], "item": done})
    else:
        ev = sse({"type": "response.output_item.done", "output_index": c["idx"], "item": item})
    out += ev
    if c["dup"]:
        out += ev
    return out


def response_json(r, k, streamed=False):
    body = ""
    if r["outcome"] == "junk_done":
        body += "data: {not json}\n\n" + sse({"type": "response.bogus", "x": 1})
    if r["rid"]:
        body += sse({"type": "response.created", "response": {"id": f"resp_{k}"}})
    body += sse({"type": "response.output_text.delta", "delta": f"t{k}"})
    for c in r["calls"]:
        body += call_events(c, k, streamed)
    o = r["outcome"]
    if o == "http500":
        return {"status": 500, "content_type": "application/json", "chunks": ['{"error":{"message":"boom"}}']}
    if o == "empty":
        return {"status": 200, "chunks": []}
    if o == "drop":
        half = max(1, len(body) // 2)
        return {"status": 200, "chunks": [body[:half], body[half:]], "drop_after": 1, "delay_ms": 30}
    if o in ("done", "junk_done"):
        body += "data: [DONE]\n\n"
    return {"status": 200, "chunks": [body]}


def case_of(gc, idx, linked=True):
    cfg = gc["cfg"]
    script = [response_json(r, k, streamed=(idx + k) % 2 == 1) for k, r in enumerate(gc["script"])]
    return {"id": f"r{idx}", "script": script, "linked": linked, "input": "please do the thing",
            "config": {"tool_choice": CHOICE[cfg["choice"]], "stateless_history": cfg["stateless"]}, "timeout_ms": 20000}


def executed_tools(session_frames):
    """tool_started frames that are real executions (not tool_choice denials)."""
    out = []
    for f in session_frames:
        if f["type"] == "tool_started" and not str(f.get("tool_id", "")).startswith("tool_denied_"):
            out.append(f["name"])
    return out


def answered_ids(requests, stateless):
    """per follow-up request: call ids of the function_call_output items it carries (new ones in stateless mode)."""
    out = []
    prev_len = None
    for k, rq in enumerate(requests):
        inp = rq["body"].get("input") if isinstance(rq["body"], dict) else None
        items = inp if isinstance(inp, list) else []
        if stateless:
            new = items[prev_len:] if prev_len is not None else []
            prev_len = len(items)
        else:
            new = items
        if k >= 1:
            out.append([it.get("call_id") for it in new if isinstance(it, dict) and it.get("type") == "function_call_output"])
    return out


def thread_kinds(thread_frames, session_id):
    kinds = []
    started = False
    for f in thread_frames:
        t = f["type"]
        if t == "continuity_created":
            continue
        kinds.append(t)
    return kinds


def generate(cfg, timeout=1800):
    g = tlc.run("MCRunLoop", cfg, workers=6, timeout=timeout, heap="8g")
    return g
