"""Shared plumbing: harness build, harness runs, evidence, known findings, verdict bookkeeping."""
import fcntl
import hashlib
import json
import os
import shutil
import subprocess
import sys
import time

VERIF = os.path.dirname(os.path.dirname(os.path.abspath(__file__)))
# VERIF_ALT (mutation testing only, never used by a registered command): run the same checks against a scratch
# tree $VERIF_ALT/repo with a copy of the harness, and keep work / evidence / replays under $VERIF_ALT.
ALT = os.environ.get("VERIF_ALT")
REPO = os.path.join(ALT, "repo") if ALT else "/repo"
HARNESS = os.path.join(ALT or VERIF, "harness")
WORK = os.path.join(ALT or VERIF, "work")
EVID = os.path.join(ALT or VERIF, "evidence")
REPLAYS = os.path.join(ALT or VERIF, "replays")
BIN = os.path.join(HARNESS, "target", "release", "ripverif")

TOOL_ERROR = 2


def log(*a):
    print(*a, file=sys.stderr, flush=True)


def die_tool(msg):
    print(f"TOOL-ERROR: {msg}", flush=True)
    sys.exit(TOOL_ERROR)


def build():
    """(Re)build the harness against /repo's current working tree (hooks on). Shared via flock."""
    os.makedirs(WORK, exist_ok=True)
    lock = open(os.path.join(WORK, "build.lock"), "w")
    fcntl.flock(lock, fcntl.LOCK_EX)
    try:
        t0 = time.time()
        if ALT:
            subprocess.run(["rsync", "-a", "--delete", "--exclude", "target", "--exclude", "Cargo.lock",
                            os.path.join(VERIF, "harness") + "/", HARNESS + "/"], check=True)
            ct = os.path.join(HARNESS, "Cargo.toml")
            with open(ct) as f:
                txt = f.read().replace('"/repo/', '"' + REPO + '/')
            with open(ct, "w") as f:
                f.write(txt)
        lockfile = os.path.join(HARNESS, "Cargo.lock")
        if not os.path.exists(lockfile):
            shutil.copy(os.path.join(REPO, "Cargo.lock"), lockfile)
        env = dict(os.environ, CARGO_NET_OFFLINE="true")
        p = subprocess.run(["cargo", "build", "--release", "--offline", "-q"], cwd=HARNESS, env=env,
                           stdout=subprocess.PIPE, stderr=subprocess.STDOUT, text=True)
        if p.returncode != 0:
            print(p.stdout[-6000:])
            die_tool("harness build failed (the tree under /repo does not compile with --cfg rip_verif)")
        log(f"[build] ok in {time.time() - t0:.1f}s")
    finally:
        fcntl.flock(lock, fcntl.LOCK_UN)
        lock.close()


def workdir(prop):
    d = os.path.join(WORK, prop)
    shutil.rmtree(d, ignore_errors=True)
    os.makedirs(d, exist_ok=True)
    return d


def write_ndjson(path, items):
    with open(path, "w") as f:
        for it in items:
            f.write(json.dumps(it, separators=(",", ":")) + "\n")


def read_ndjson(path):
    out = []
    if not os.path.exists(path):
        return out
    with open(path) as f:
        for line in f:
            line = line.strip()
            if line:
                out.append(json.loads(line))
    return out


def run_harness(engine, cases, wd, name, shards=1, timeout=1200, args=None, env=None):
    """Run `ripverif <engine> <in> <out>` over the cases (sharded over processes)."""
    shards = max(1, min(shards, len(cases))) if cases else 1
    procs = []
    outs = []
    for k in range(shards):
        part = cases[k::shards]
        inp = os.path.join(wd, f"{name}.{k}.in.ndjson")
        outp = os.path.join(wd, f"{name}.{k}.out.ndjson")
        write_ndjson(inp, part)
        e = dict(os.environ)
        e["RIPVERIF_SCRATCH"] = os.path.join(wd, f"scratch-{name}-{k}")
        e.setdefault("RUST_BACKTRACE", "0")
        if env:
            e.update(env)
        cmd = [BIN, engine, inp, outp] + (args or [])
        procs.append((subprocess.Popen(cmd, env=e, stdout=subprocess.PIPE, stderr=subprocess.PIPE,
                                       text=True, errors="replace"), outp, e["RIPVERIF_SCRATCH"]))
    results = []
    t0 = time.time()
    deadline = time.time() + timeout
    for p, outp, scratch in procs:
        try:
            so, se = p.communicate(timeout=max(1, deadline - time.time()))
        except subprocess.TimeoutExpired:
            p.kill()
            so, se = p.communicate()
            shutil.rmtree(scratch, ignore_errors=True)
            die_tool(f"harness engine {engine} timed out after {timeout}s")
        if p.returncode != 0:
            log(se[-4000:])
            shutil.rmtree(scratch, ignore_errors=True)
            die_tool(f"harness engine {engine} exited {p.returncode}")
        results += read_ndjson(outp)
        shutil.rmtree(scratch, ignore_errors=True)
    log(f"[harness] {engine}/{name}: {len(cases)} cases, {shards} shards, {time.time() - t0:.1f}s")
    return results


def case_hash(obj):
    return hashlib.sha256(json.dumps(obj, sort_keys=True).encode()).hexdigest()[:16]


class Verdict:
    """Collects violations / known findings for one property run and writes evidence."""

    def __init__(self, prop, tier, seed, level="model_checking"):
        self.prop = prop
        self.tier = tier
        self.seed = seed
        self.level = level
        self.t0 = time.time()
        self.violations = []     # (what, replay path)
        self.known = []
        self.cov = {"states": 0, "transitions": 0, "traces_validated_against_impl": 0,
                    "evaluations": 0, "distinct_nontrivial": 0, "samples": [], "tlc_runs": [],
                    "unrealised_schedules": 0, "conformance_drift": []}
        self.assumptions = []
        self._distinct = set()
        self.findings = load_findings()

    # -- coverage bookkeeping
    def add_tlc(self, res, what):
        self.cov["states"] += res.distinct
        self.cov["transitions"] += res.generated
        self.cov["tlc_runs"].append(dict(res.summary(), what=what))

    def add_eval(self, case, nontrivial):
        self.cov["evaluations"] += 1
        if nontrivial:
            h = case_hash(case)
            if h not in self._distinct:
                self._distinct.add(h)
                self.cov["distinct_nontrivial"] = len(self._distinct)

    def sample(self, obj, limit=4):
        if len(self.cov["samples"]) < limit:
            self.cov["samples"].append(obj)

    def drift(self, what):
        self.cov["conformance_drift_total"] = self.cov.get("conformance_drift_total", 0) + 1
        if len(self.cov["conformance_drift"]) < int(os.environ.get("VERIF_DRIFT_CAP", "20")):
            self.cov["conformance_drift"].append(what)

    # -- verdicts
    def violation(self, what, replay_obj, key=None):
        """Report a violation unless it matches a listed known finding (by `key`)."""
        if key is not None:
            for f in self.findings:
                if f.get("status") == "known" and f["property"] == self.prop and f["key"] == key:
                    if key not in [k for k, _ in self.known]:
                        self.known.append((key, f["what"]))
                    return False
        os.makedirs(REPLAYS, exist_ok=True)
        path = os.path.join(REPLAYS, f"{self.prop}-{case_hash(replay_obj)}.json")
        with open(path, "w") as f:
            json.dump({"property": self.prop, "what": what, "case": replay_obj}, f, indent=1)
        self.violations.append((what, path))
        return True

    def finish(self, rule, exhaustive=False, extra=None):
        cov = self.cov
        cov["rule"] = rule
        cov["exhaustive"] = exhaustive
        if extra:
            cov.update(extra)
        if not cov["samples"]:
            cov["samples"] = ["(no case generated)"]
        ev = {
            "property_id": self.prop, "tier": self.tier, "seed": self.seed, "level": self.level,
            "coverage": cov, "assumptions": self.assumptions,
            "wall_s": round(time.time() - self.t0, 2), "violations": len(self.violations),
            "known_findings_seen": [k for k, _ in self.known],
        }
        os.makedirs(EVID, exist_ok=True)
        with open(os.path.join(EVID, f"{self.prop}.json"), "w") as f:
            json.dump(ev, f, indent=1)
        for key, what in self.known:
            print(f"KNOWN-FINDING: property={self.prop} {what} [{key}]", flush=True)
        seen = set()
        for what, path in self.violations:
            if path in seen:
                continue
            seen.add(path)
            print(f"VIOLATION property={self.prop} replay={path}", flush=True)
            log(f"  {what}")
        log(f"[{self.prop}] tier={self.tier} evals={cov['evaluations']} distinct_nontrivial={cov['distinct_nontrivial']} "
            f"states={cov['states']} traces={cov['traces_validated_against_impl']} "
            f"violations={len(self.violations)} known={len(self.known)} wall={ev['wall_s']}s")
        return 1 if self.violations else 0


def load_findings():
    p = os.path.join(VERIF, "known_findings.json")
    if not os.path.exists(p):
        return []
    with open(p) as f:
        return json.load(f).get("findings", [])
