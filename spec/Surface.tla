------------------------------------ MODULE Surface ------------------------------------
(* C20: surfaces are total, bounded, deterministic folds over the frame stream.
   The terminal UI state (rip-tui TuiState / FrameStore) as a fold over an arbitrary sequence of
   frames: a bounded window of the last Cap frames, lookup by sequence number, the tool summaries
   (by id) and the bounded output text.
     Get(seq)      the specification's lookup: a stored frame with that seq, or none;
     GetPos(seq)   the pinned commit's lookup (position seq - base in the deque), finding D6:
                   with gaps, repeats or several streams mixed it answers another frame.
   Generated frame sequences are fed to the real TuiState; every observation the model predicts
   (window, lookups, tool statuses, output length for ASCII payloads) is compared, and the state
   is rendered at every terminal width. *)
EXTENDS Integers, Sequences, FiniteSets, TLC

CONSTANTS Cap, MaxOut, Seqs, Symbols, MaxLen, AsImplemented

None == -1
VARIABLES frames   \* the whole input so far: sequence of [q |-> seq, k |-> kind, id |-> id, n |-> payload length]
Init == frames = <<>>
Next == Len(frames) < MaxLen /\ \E q \in Seqs, s \in Symbols : frames' = Append(frames, [q |-> q, k |-> s.k, id |-> s.id, n |-> s.n])
Spec == Init /\ [][Next]_frames

\* ---- the fold
Window(fr) == IF Len(fr) <= Cap THEN fr ELSE SubSeq(fr, Len(fr) - Cap + 1, Len(fr))
\* base seq as the deque tracks it: seq of the first frame ever pushed into an empty deque, +1 per eviction
Base(fr) == IF fr = <<>> THEN 0 ELSE fr[1].q + (IF Len(fr) > Cap THEN Len(fr) - Cap ELSE 0)
Get(fr, seq) == LET w == Window(fr)  S == {i \in 1..Len(w) : w[i].q = seq} IN
                IF S = {} THEN None ELSE seq                       \* "that frame": identified by its seq
GetPos(fr, seq) == LET w == Window(fr)  i == seq - Base(fr) + 1 IN
                   IF w = <<>> \/ seq < Base(fr) \/ i > Len(w) THEN None ELSE w[i].q
Lookup(fr, seq) == IF AsImplemented THEN GetPos(fr, seq) ELSE Get(fr, seq)

RECURSIVE Tools(_, _, _)
Tools(fr, i, acc) ==
    IF i > Len(fr) THEN acc
    ELSE LET f == fr[i] IN
         Tools(fr, i + 1,
               CASE f.k = "tstart" -> [acc EXCEPT ![f.id] = "running"]
                 [] f.k = "tend"   -> IF acc[f.id] = "unknown" THEN acc ELSE [acc EXCEPT ![f.id] = "ended"]
                 [] f.k = "tfail"  -> IF acc[f.id] = "unknown" THEN acc ELSE [acc EXCEPT ![f.id] = "failed"]
                 [] OTHER          -> acc)
ToolIds == {"t1", "t2"}
ToolState(fr) == Tools(fr, 1, [t \in ToolIds |-> "unknown"])

Push(len, n) == IF n = 0 THEN len ELSE IF len + n <= MaxOut THEN len + n ELSE MaxOut \div 2     \* ASCII payloads
RECURSIVE OutLen(_, _, _)
OutLen(fr, i, len) ==
    IF i > Len(fr) THEN len
    ELSE LET f == fr[i] IN
         OutLen(fr, i + 1,
                CASE f.k = "start" -> IF f.n = 0 THEN len ELSE Push(Push(Push(len, 5), f.n), 2)      \* "You: " input "\n\n"
                  [] f.k = "delta" -> Push(len, f.n)
                  [] OTHER -> len)

\* ---- properties of the fold
WindowBounded == Len(Window(frames)) <= Cap
OutputBounded == OutLen(frames, 1, 0) <= MaxOut
LookupSound == \A q \in Seqs : LET r == Lookup(frames, q) IN r = None \/ r = q
========================================================================================
