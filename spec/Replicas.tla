------------------------------ MODULE Replicas ------------------------------
(* C03 - the four copies of a stream: what a subscriber attached from the first frame receives
   (live), the append-only log, the per-continuity sidecar (continuity_streams/<id>.jsonl, written
   best-effort after the log and rebuilt from it when it lags) and the snapshot written when a
   session or task ends.  Frames are identified by <<stream, n>>; emitting a frame is three steps
   in the code (record in the buffer, publish, append to the log).
   LogFirst = FALSE reproduces an emitter that publishes a frame it then fails to log
   (non-vacuity of NothingExtra). *)
EXTENDS Naturals, Sequences, FiniteSets, SequencesExt, TLC
CONSTANTS Streams, Threads, MaxFrames, AppendMayFail
ASSUME Threads \subseteq Streams

VARIABLES buf,      \* [Streams -> Seq]  in-memory buffer of the emitter
          live,     \* [Streams -> Seq]  delivered to the subscriber
          log,      \* Seq of frames (all streams)
          sidecar,  \* [Threads -> Seq]
          snap,     \* [Streams -> Seq \cup {<<"none">>}]
          pend      \* frames recorded but not yet published / appended: <<stream, n, stage>>
vars == <<buf, live, log, sidecar, snap, pend>>
None == <<>>     \* a snapshot is never empty
Of(s) == SelectSeq(log, LAMBDA f : f[1] = s)
Init == /\ buf = [s \in Streams |-> <<>>] /\ live = [s \in Streams |-> <<>>] /\ log = <<>>
        /\ sidecar = [t \in Threads |-> <<>>] /\ snap = [s \in Streams |-> None] /\ pend = {}
Busy(s) == \E p \in pend : p[1] = s
Record(s) == /\ ~Busy(s) /\ snap[s] = None /\ Len(buf[s]) < MaxFrames
             /\ LET f == <<s, Len(buf[s])>> IN
                /\ buf' = [buf EXCEPT ![s] = Append(@, f)]
                /\ pend' = pend \cup {<<s, Len(buf[s]), "recorded">>}
             /\ UNCHANGED <<live, log, sidecar, snap>>
Publish(s) == \E p \in pend : /\ p[1] = s /\ p[3] = "recorded"
                /\ live' = [live EXCEPT ![s] = Append(@, <<s, p[2]>>)]
                /\ pend' = (pend \ {p}) \cup {<<s, p[2], "published">>}
                /\ UNCHANGED <<buf, log, sidecar, snap>>
AppendLog(s) == \E p \in pend : /\ p[1] = s /\ p[3] = "published"
                /\ pend' = pend \ {p}
                /\ \/ log' = Append(log, <<s, p[2]>>)
                   \/ AppendMayFail /\ log' = log          \* `let _ = event_log.append(..)`
                /\ UNCHANGED <<buf, live, sidecar, snap>>
\* best-effort sidecar: appends the next frame of the log it does not have yet, or is rebuilt
SidecarAppend(t) == /\ Len(sidecar[t]) < Len(Of(t))
                    /\ sidecar' = [sidecar EXCEPT ![t] = Append(@, Of(t)[Len(@) + 1])]
                    /\ UNCHANGED <<buf, live, log, snap, pend>>
SidecarRebuild(t) == /\ sidecar' = [sidecar EXCEPT ![t] = Of(t)]
                     /\ UNCHANGED <<buf, live, log, snap, pend>>
Snapshot(s) == /\ s \notin Threads /\ ~Busy(s) /\ snap[s] = None /\ buf[s] # <<>>
               /\ snap' = [snap EXCEPT ![s] = buf[s]]
               /\ UNCHANGED <<buf, live, log, sidecar, pend>>
Next == \E s \in Streams : Record(s) \/ Publish(s) \/ AppendLog(s) \/ Snapshot(s)
        \/ \E t \in Threads : SidecarAppend(t) \/ SidecarRebuild(t)
Spec == Init /\ [][Next]_vars
\* ---- the property
Quiet(s) == ~Busy(s)
LiveIsLog == \A s \in Streams : Quiet(s) => live[s] = Of(s)
SidecarIsPrefixOfLog == \A t \in Threads : IsPrefix(sidecar[t], Of(t))
SnapshotIsLog == \A s \in Streams : (snap[s] # None /\ Quiet(s)) => snap[s] = Of(s)
RangeQ(q) == {q[i] : i \in 1..Len(q)}
NothingExtra == \A s \in Streams : Quiet(s) =>
                  /\ RangeQ(live[s]) \subseteq RangeQ(log)
                  /\ (snap[s] # None => RangeQ(snap[s]) \subseteq RangeQ(log))
Same == LiveIsLog /\ SidecarIsPrefixOfLog /\ SnapshotIsLog /\ NothingExtra
=============================================================================
