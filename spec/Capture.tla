------------------------------ MODULE Capture ------------------------------
(* C17 - the foreground shell tool's capture of one output stream
   (crates/rip-tools/src/builtins/shell.rs capture_stream), transcribed: a fold over the reads the
   OS happens to deliver.  Bytes are represented by their position in the process's output, so
   "is a prefix of what the process wrote" is decidable: preview and artifact are sequences of
   positions.

   Handover = "own"  : the chunk that fills the preview hands over what it did not put into the
                       preview (the code)
   Handover = "total": ... what exceeds the preview's total length (a plausible simplification;
                       drops bytes when the preview fills on a later read) - non-vacuity *)
EXTENDS Naturals, Sequences, TLC
CONSTANTS MaxTotal, MaxP, MaxA, Handover

VARIABLES P, A,        \* preview limit, artifact cap
          chunks,      \* the reads so far (lengths)
          total, preview, full, tmp, art
vars == <<P, A, chunks, total, preview, full, tmp, art>>
Min(a, b) == IF a < b THEN a ELSE b
Positions(from, n) == [i \in 1..n |-> from + i]      \* n positions after `from`
Init == /\ P \in 0..MaxP /\ A \in 0..MaxA /\ chunks = <<>> /\ total = 0
        /\ preview = <<>> /\ full = FALSE /\ tmp = FALSE /\ art = <<>>
ArtTail(a, from, n) == LET take == Min(A - Len(a), n) IN a \o Positions(from, take)
Read(n) ==
  LET before == Len(preview)
      take == IF full THEN 0 ELSE Min(P - before, n)
      pv == preview \o Positions(total, take)
      nowfull == full \/ Len(pv) >= P
  IN /\ chunks' = Append(chunks, n) /\ total' = total + n
     /\ preview' = pv /\ full' = nowfull
     /\ IF ~tmp
          THEN IF ~nowfull \/ A = 0
                 THEN UNCHANGED <<tmp, art>>
                 ELSE LET initial == SubSeq(pv, 1, Min(Len(pv), A))
                          already == IF Handover = "own" THEN Min(Len(pv) - before, n) ELSE Min(Len(pv), n)
                      IN tmp' = TRUE /\ art' = ArtTail(initial, total + already, n - already)
          ELSE tmp' = tmp /\ art' = ArtTail(art, total, n)
     /\ UNCHANGED <<P, A>>
Next == total < MaxTotal /\ \E n \in 1..(MaxTotal - total) : Read(n)
Spec == Init /\ [][Next]_vars

\* ---- what the tool reports at end of stream
TruncatedPreview == total > P
HasArtifact == TruncatedPreview /\ tmp
\* ---- the property
Prefix(s, n) == s = [i \in 1..n |-> i]
PreviewIsPrefix == Prefix(preview, Min(total, P))
ArtifactIsPrefix == HasArtifact => Prefix(art, Min(total, A))
ArtifactWhenNeeded == (TruncatedPreview /\ A > 0) => HasArtifact
Faithful == PreviewIsPrefix /\ ArtifactIsPrefix /\ ArtifactWhenNeeded
=============================================================================
