SPECIFICATION Spec
CONSTANTS
  MaxFrames = 7
  MaxThreads = 2
  MaxOps = 6
  EmitOps = {"branch","handoff"}
  PathOps = {"message","run_spawned","run_ended","checkpoint"}
VIEW View
INVARIANTS Emit CutPointsAreStrideMessages AutoIdempotent ReadOnlyQuiet LineageSound BundleSound
CHECK_DEADLOCK FALSE
