------------------------------- MODULE MCStoreSeq -------------------------------
EXTENDS StoreSeq
\* TLC-only: model values and the symmetric/bounded configuration live in the .cfg files
=================================================================================
