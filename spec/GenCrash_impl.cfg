\* The design with every deviation repaired: all properties must hold.
SPECIFICATION CSpec
CONSTANTS
  Writers = {"w1"}
  Root = "root"
  Child = "child"
  Sessions = {}
  MaxLog = 7
  MaxCrash = 1
  EnableBranch = TRUE
  SidecarNextSeq = TRUE
  LineageLocked = TRUE
  SecondInput = FALSE
  Tasks = {}
  TaskGuarded = TRUE
  Cold = FALSE
  Guarded = TRUE
INVARIANT Emit
CHECK_DEADLOCK FALSE
