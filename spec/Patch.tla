------------------------------------- MODULE Patch -------------------------------------
(* C12: patch application is all-or-nothing and exact when it succeeds.
   Reference semantics of rip-workspace Workspace::apply_patch / patch.rs (ADR-0003): an abstract
   file system, patch documents of add / delete / update(+move) operations with hunks, the
   forward-cursor hunk application, first-seen undo.  Apply(fs, doc) is either
     [ok = TRUE,  fs = the operations performed in order, changed = the paths named], or
     [ok = FALSE, fs = the file system as it was].
   The generator prints (initial file system, document, Apply) for every document up to MaxOps
   operations over the operation alphabet; the harness materialises the tree, renders the document
   to text, calls the real Workspace::apply_patch and the apply_patch tool and compares the
   complete recursive listing + bytes with the prediction. *)
EXTENDS Integers, Sequences, FiniteSets, TLC

CONSTANTS MaxOps, Paths, InitChoices, OpSet

Absent == [t |-> "absent", lines |-> <<>>, eol |-> "lf", nl |-> FALSE]
Dir    == [t |-> "dir", lines |-> <<>>, eol |-> "lf", nl |-> FALSE]
Bin    == [t |-> "bin", lines |-> <<>>, eol |-> "lf", nl |-> FALSE]     \* not valid UTF-8
\* text content: lines, line-ending style, final newline; the empty file is Text(<<>>, lf, FALSE)
Text(lines, eol, nl) == [t |-> "text", lines |-> lines, eol |-> IF lines = <<>> THEN "lf" ELSE eol,
                         nl |-> IF lines = <<>> THEN FALSE ELSE nl]
Exists(c) == c.t # "absent"

(* ---- hunk application: forward cursor (1-based index of the first line that may still match) ---- *)
Matches(lines, needle, i) == i + Len(needle) - 1 <= Len(lines) /\ SubSeq(lines, i, i + Len(needle) - 1) = needle
Find(lines, needle, start) ==
    LET S == {i \in start..(Len(lines) - Len(needle) + 1) : Matches(lines, needle, i)} IN
    IF S = {} THEN 0 ELSE CHOOSE i \in S : \A j \in S : i <= j
Splice(lines, pos, n, repl) == SubSeq(lines, 1, pos - 1) \o repl \o SubSeq(lines, pos + n, Len(lines))
RECURSIVE Hunks(_, _, _, _)
Hunks(lines, hs, i, cursor) ==
    IF i > Len(hs) THEN [ok |-> TRUE, lines |-> lines]
    ELSE LET h == hs[i] IN
         IF h.b = <<>> THEN Hunks(lines \o h.a, hs, i + 1, Len(lines) + Len(h.a) + 1)   \* pure addition: appended at the end
         ELSE LET pos == Find(lines, h.b, cursor) IN
              IF pos = 0 THEN [ok |-> FALSE, lines |-> lines]
              ELSE Hunks(Splice(lines, pos, Len(h.b), h.a), hs, i + 1, pos + Len(h.a))

(* ---- one operation: [ok, fs, named] ---- *)
Op(fs, o) ==
    CASE o.k = "add" ->
           IF Exists(fs[o.p]) THEN [ok |-> FALSE, fs |-> fs, named |-> {}]
           ELSE [ok |-> TRUE, fs |-> [fs EXCEPT ![o.p] = Text(o.lines, "lf", TRUE)], named |-> {o.p}]
      [] o.k = "del" ->
           IF fs[o.p].t \in {"absent", "dir"} THEN [ok |-> FALSE, fs |-> fs, named |-> {}]
           ELSE [ok |-> TRUE, fs |-> [fs EXCEPT ![o.p] = Absent], named |-> {o.p}]
      [] o.k = "upd" ->
           IF fs[o.p].t # "text" THEN [ok |-> FALSE, fs |-> fs, named |-> {}]
           ELSE LET c == fs[o.p]  r == Hunks(c.lines, o.hs, 1, 1) IN
                IF ~r.ok THEN [ok |-> FALSE, fs |-> fs, named |-> {}]
                ELSE LET c2  == Text(r.lines, c.eol, c.nl)
                         fs1 == [fs EXCEPT ![o.p] = c2] IN
                     IF o.mv = "none" THEN [ok |-> TRUE, fs |-> fs1, named |-> {o.p}]
                     ELSE IF Exists(fs1[o.mv]) THEN [ok |-> FALSE, fs |-> fs, named |-> {}]    \* incl. a move onto itself
                     ELSE [ok |-> TRUE, fs |-> [fs1 EXCEPT ![o.mv] = c2, ![o.p] = Absent], named |-> {o.p, o.mv}]
      [] OTHER -> [ok |-> FALSE, fs |-> fs, named |-> {}]      \* malformed document classes

RECURSIVE Run(_, _, _, _, _)
Run(fs0, fs, doc, i, named) ==
    IF i > Len(doc) THEN [ok |-> TRUE, fs |-> fs, changed |-> named]
    ELSE LET r == Op(fs, doc[i]) IN
         IF ~r.ok THEN [ok |-> FALSE, fs |-> fs0, changed |-> {}]         \* all-or-nothing
         ELSE Run(fs0, r.fs, doc, i + 1, named \cup r.named)
Apply(fs, doc) == Run(fs, fs, doc, 1, {})

VARIABLES fs0, doc
Init == fs0 \in InitChoices /\ doc = <<>>
Next == Len(doc) < MaxOps /\ \E o \in OpSet : doc' = Append(doc, o) /\ UNCHANGED fs0
Spec == Init /\ [][Next]_<<fs0, doc>>

\* design-level: style and final newline of every text file that stays a text file under an update are kept
StylePreserved ==
    LET r == Apply(fs0, doc) IN
    r.ok => \A p \in Paths : (fs0[p].t = "text" /\ r.fs[p].t = "text" /\ fs0[p].lines # <<>> /\ r.fs[p].lines # <<>>
                              /\ ~(\E i \in 1..Len(doc) : doc[i].k \in {"add", "del"} /\ doc[i].p = p)
                              /\ ~(\E j \in 1..Len(doc) : doc[j].k = "upd" /\ (doc[j].mv = p \/ (doc[j].p = p /\ doc[j].mv # "none"))))
                             => (r.fs[p].eol = fs0[p].eol /\ r.fs[p].nl = fs0[p].nl)
AllOrNothing == LET r == Apply(fs0, doc) IN ~r.ok => r.fs = fs0
========================================================================================
