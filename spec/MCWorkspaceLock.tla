--------------------------- MODULE MCWorkspaceLock ---------------------------
EXTENDS WorkspaceLock, Json
\* actors: 1 = linked direct tool command, 2 = linked provider loop (mutating, read-only, mutating),
\*         3 = background task, 4 = checkpoint command (unlinked), 5 = read-only session
MCActors == 1..5
MCProg == (1 :> <<"m">>) @@ (2 :> <<"m", "r", "m">>) @@ (3 :> <<"p">>) @@ (4 :> <<"c">>) @@ (5 :> <<"r", "r">>)
MCLinked == {1, 2, 5}
MCCancellable == {3}
\* the cast the implementation is driven with (vlib/props/c11.py concretises each actor):
\*   1 direct write (linked)   2 direct bash (linked)   3 provider loop write, ls, write (linked)
\*   4 task   5 task cancelled while queued   6 checkpoint create (unlinked)
\*   7 direct ls (linked)   8 direct write (unlinked)   9 provider loop read, grep (linked)
CastActors == 1..9
CastProg == (1 :> <<"m">>) @@ (2 :> <<"m">>) @@ (3 :> <<"m", "r", "m">>) @@ (4 :> <<"p">>) @@ (5 :> <<"p">>)
            @@ (6 :> <<"c">>) @@ (7 :> <<"r">>) @@ (8 :> <<"m">>) @@ (9 :> <<"r", "r">>)
CastLinked == {1, 2, 3, 7, 9}
CastCancellable == {5}
\* hold scenarios: only one actor has left its initial state
OneMoves == Cardinality({a \in Actors : pc[a] # "idle" \/ ip[a] # 1}) <= 1
MCEarly1 == {1}
MCNoEarly == {}
\* smaller instance with two linked mutators for liveness
MCActorsS == 1..3
MCProgS == (1 :> <<"m">>) @@ (2 :> <<"m", "m">>) @@ (3 :> <<"p">>)
MCLinkedS == {1, 2}
MCCancellableS == {3}

\* ---- refinement: the mechanism implements the observable specification ExecOrder
RangeO == {order[i] : i \in 1..Len(order)}
EO == INSTANCE ExecOrder WITH
        exec <- {a \in Actors : pc[a] = "exec"},
        cur <- [a \in Actors |-> IF \E p \in RangeO : p[1] = a
                                   THEN CHOOSE j \in 1..Len(Prog[a]) : <<a, j>> \in RangeO /\ \A p \in RangeO : p[1] = a => p[2] <= j
                                   ELSE 0],
        fin <- {p \in RangeO : ~(pc[p[1]] = "exec" /\ ip[p[1]] = p[2])},
        owed <- {p \in RangeO : OwesSE(p[1], p[2])},
        ended <- ended
Refines == EO!EOSpec

\* ---- generator of hold scenarios: every reachable state in which exactly one actor is inside its
\*      critical section and every other actor has not started; one line per (holder, pc, op) with the
\*      operations of the others that are enabled / disabled there.
Inside(a) == pc[a] \in {"held", "exec", "ran", "logged"}
HoldState == /\ Cardinality({a \in Actors : Inside(a)}) = 1
             /\ \A b \in Actors : ~Inside(b) => (pc[b] = "idle" /\ ip[b] = 1)
HoldCase == LET h == CHOOSE a \in Actors : Inside(a) IN
            [holder |-> h, op |-> Prog[h][ip[h]], at |-> pc[h], ip |-> ip[h],
             owes |-> OwesSE(h, ip[h]),
             free |-> {b \in Actors \ {h} : Prog[b][1] = "r"},
             blocked |-> {b \in Actors \ {h} : Mutating(Prog[b][1])}]
GenHold == HoldState => PrintT(<<"CASE", ToJson(HoldCase)>>)
\* in a hold state no other actor can begin a mutating execution, whatever it does first
HoldBlocks == HoldState => \A b \in Actors : ~Inside(b) => ~ENABLED Begin(b)
=============================================================================
