--------------------------- MODULE LifecycleTrace ---------------------------
(* C07 on arbitrary histories: the frames of a whole store, in file order, against the life-cycle
   state machines of the property (no provider script is needed to know what is legal):

     message   posted -> spawned                       (exactly one run_spawned per message)
     run       none -> spawned -> selected -> compiled -> effects* -> cursor? -> ended
               (a tool / checkpoint envelope goes spawned -> effects* -> ended; run_ended needs the
                run's own session to have ended earlier in the file; nothing of a run after its end)
     session   none -> open (start frame, seq 0) -> ended (one end frame, last, contiguous seqs)
     job       none -> spawned -> ended                (ended at most once)

   One event per log line; every guard that is false is recorded in `bad` (case, line, name); the
   `end` event closes a history with the completeness half (every message spawned a run, every run
   and every session ended).  Histories are concatenated with `reset` events. *)
EXTENDS Naturals, Sequences, FiniteSets, TLC, Json, IOUtils
Rec == ndJsonDeserialize(IOEnv.TRACE)
VARIABLES l, case, bad, msgs, run, sess, cnt, job
vars == <<l, case, bad, msgs, run, sess, cnt, job>>
Empty == [x \in {} |-> "none"]
Get(f, k, d) == IF k \in DOMAIN f THEN f[k] ELSE d
Put(f, k, v) == [x \in DOMAIN f \cup {k} |-> IF x = k THEN v ELSE f[x]]
Init == l = 1 /\ case = "" /\ bad = {} /\ msgs = Empty /\ run = Empty /\ sess = Empty /\ cnt = [x \in {} |-> 0] /\ job = Empty
Ev(e) == l <= Len(Rec) /\ Rec[l].ev = e /\ l' = l + 1
Flags(fs) == bad' = bad \cup {<<case, l, f[2]>> : f \in {g \in fs : ~g[1]}}
Reset == /\ Ev("reset") /\ case' = Rec[l].case /\ UNCHANGED bad
         /\ msgs' = Empty /\ run' = Empty /\ sess' = Empty /\ cnt' = [x \in {} |-> 0] /\ job' = Empty
\* ---- session streams
SessStart == /\ Ev("ss") /\ LET s == Rec[l].s IN
                /\ Flags({<<Get(sess, s, "none") = "none" /\ Rec[l].seq = 0, "SessionStartsOnceAtSeq0">>})
                /\ sess' = Put(sess, s, "open") /\ cnt' = Put(cnt, s, 1)
             /\ UNCHANGED <<case, msgs, run, job>>
SessFrame == /\ Ev("sf") /\ LET s == Rec[l].s IN
                /\ Flags({<<Get(sess, s, "none") = "open", "SessionFrameBetweenStartAndEnd">>, <<Rec[l].seq = Get(cnt, s, 0), "SessionSeqContiguous">>})
                /\ cnt' = Put(cnt, s, Get(cnt, s, 0) + 1)
             /\ UNCHANGED <<case, msgs, run, sess, job>>
SessEnd == /\ Ev("se") /\ LET s == Rec[l].s IN
              /\ Flags({<<Get(sess, s, "none") = "open", "OneSessionEndAfterStart">>, <<Rec[l].seq = Get(cnt, s, 0), "SessionSeqContiguous">>})
              /\ sess' = Put(sess, s, "ended") /\ cnt' = Put(cnt, s, Get(cnt, s, 0) + 1)
           /\ UNCHANGED <<case, msgs, run, job>>
\* ---- thread streams
Msg == /\ Ev("msg") /\ Flags({<<Rec[l].m \notin DOMAIN msgs, "MessageIdFresh">>})
       /\ msgs' = Put(msgs, Rec[l].m, "posted") /\ UNCHANGED <<case, run, sess, cnt, job>>
RunSpawned == /\ Ev("rs") /\ LET m == Rec[l].m  r == Rec[l].r IN
                 /\ Flags({<<Get(msgs, m, "none") = "posted", "OneRunSpawnedPerMessage">>, <<Get(run, r, "none") = "none", "RunSpawnedOnce">>})
                 /\ msgs' = Put(msgs, m, "spawned") /\ run' = Put(run, r, "spawned")
              /\ UNCHANGED <<case, sess, cnt, job>>
Step(e, from, to, name) == /\ Ev(e) /\ LET r == Rec[l].r IN
                              /\ Flags({<<Get(run, r, "none") \in from, name>>})
                              /\ run' = Put(run, r, to)
                           /\ UNCHANGED <<case, msgs, sess, cnt, job>>
Selected == Step("sel", {"spawned"}, "selected", "SelectionOnceAfterSpawn")
Compiled == Step("comp", {"selected"}, "compiled", "CompiledOnceAfterSelection")
Effects == Step("fx", {"spawned", "compiled", "effects"}, "effects", "SideEffectsAfterCompileBeforeCursorAndEnd")
Cursor == Step("cur", {"compiled", "effects"}, "cursor", "CursorOnceAfterEffectsBeforeEnd")
RunEnded == /\ Ev("re") /\ LET r == Rec[l].r IN
               /\ Flags({<<Get(run, r, "none") \in {"spawned", "selected", "compiled", "effects", "cursor"}, "RunEndedOnceAfterSpawn">>,
                         <<Get(sess, r, "none") = "ended", "RunEndedFollowsItsSessionEnded">>})
               /\ run' = Put(run, r, "ended")
            /\ UNCHANGED <<case, msgs, sess, cnt, job>>
\* any other thread frame that names a run: not after the run has ended
Linked == /\ Ev("lk") /\ Flags({<<Get(run, Rec[l].r, "none") # "ended", "NothingOfARunAfterItsEnd">>})
          /\ UNCHANGED <<case, msgs, run, sess, cnt, job>>
JobSpawned == /\ Ev("js") /\ Flags({<<Get(job, Rec[l].j, "none") = "none", "JobSpawnedOnce">>})
              /\ job' = Put(job, Rec[l].j, "spawned") /\ UNCHANGED <<case, msgs, run, sess, cnt>>
JobEnded == /\ Ev("je") /\ Flags({<<Get(job, Rec[l].j, "none") = "spawned", "JobEndedAtMostOnceAfterSpawn">>})
            /\ job' = Put(job, Rec[l].j, "ended") /\ UNCHANGED <<case, msgs, run, sess, cnt>>
Other == Ev("other") /\ UNCHANGED <<case, bad, msgs, run, sess, cnt, job>>
End == /\ Ev("end")
       /\ Flags({<<\A m \in DOMAIN msgs : msgs[m] = "spawned", "EveryMessageSpawnsARun">>,
                 <<\A r \in DOMAIN run : run[r] = "ended", "EveryRunEnds">>,
                 <<\A s \in DOMAIN sess : sess[s] = "ended", "EverySessionEnds">>})
       /\ UNCHANGED <<case, msgs, run, sess, cnt, job>>
Next == Reset \/ SessStart \/ SessFrame \/ SessEnd \/ Msg \/ RunSpawned \/ Selected \/ Compiled \/ Effects \/ Cursor \/ RunEnded
        \/ Linked \/ JobSpawned \/ JobEnded \/ Other \/ End
Spec == Init /\ [][Next]_vars
Report == IF l = Len(Rec) + 1 THEN PrintT(<<"BAD", ToJson(bad)>>) ELSE TRUE
Accepted == LET d == TLCGet("stats").diameter IN
            d - 1 = Len(Rec) \/ PrintT(<<"REJECTED", ToJson([at |-> d])>>)
=============================================================================
