SPECIFICATION SSpec
CONSTANTS
  MaxFrames = 100
  MaxThreads = 1
  MaxOps = 100
  EmitOps = {"compile"}
  PathOps = {"message"}
INVARIANTS Emit BundleSound
CHECK_DEADLOCK FALSE
