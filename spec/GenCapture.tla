----------------------------- MODULE GenCapture -----------------------------
EXTENDS Capture, Json
GenCase == chunks = <<>> \/ PrintT(<<"CASE", ToJson([P |-> P, A |-> A, chunks |-> chunks, preview |-> Len(preview),
                                                      art |-> IF HasArtifact THEN Len(art) ELSE 0, has |-> HasArtifact, trunc |-> TruncatedPreview])>>)
=============================================================================
