------------------------- MODULE WorkspaceLockTrace -------------------------
(* Implementation traces against the mechanism specification WorkspaceLock (strict): every hook
   event must be the corresponding action of the specification, enabled in the state the earlier
   events led to.  The actor of a lock event is not logged (the lock does not know who takes it):
   TLC infers it - Acquire branches over the actors that could take the lock and the following
   Begin event prunes the wrong guesses.  Request (an actor starts waiting) is not observable and
   is folded into Acquire.  The invariants of WorkspaceLock are checked in every state. *)
EXTENDS MCWorkspaceLock, IOUtils
Rec == ndJsonDeserialize(IOEnv.TRACE)
VARIABLES l, case
tvars == <<vars, l, case>>
TInit == Init /\ l = 1 /\ case = ""
Ev(e) == l <= Len(Rec) /\ Rec[l].ev = e /\ l' = l + 1
MutOrdinal(a) == Cardinality({j \in 1..ip[a] : Mutating(Prog[a][j])})
TReset == /\ Ev("reset") /\ case' = Rec[l].case
          /\ pc' = [a \in Actors |-> "idle"] /\ ip' = [a \in Actors |-> 1] /\ holder' = None
          /\ hasGuard' = [a \in Actors |-> FALSE] /\ order' = <<>> /\ se' = <<>> /\ cancelled' = {} /\ ended' = {}
TAcquire == /\ Ev("Acquire") /\ UNCHANGED case
            /\ \E a \in Actors :
                 /\ pc[a] \in {"idle", "wait"} /\ Mutating(Op(a)) /\ holder = None
                 /\ holder' = a /\ hasGuard' = [hasGuard EXCEPT ![a] = TRUE]
                 /\ pc' = [pc EXCEPT ![a] = "held"]
                 /\ UNCHANGED <<ip, order, se, cancelled, ended>>
TBegin == Ev("Begin") /\ UNCHANGED case /\ Begin(Rec[l].a)
TEnd == Ev("End") /\ UNCHANGED case /\ End(Rec[l].a)
TRoBegin == Ev("RoBegin") /\ UNCHANGED case /\ RoBegin(Rec[l].a)
TRoEnd == Ev("RoEnd") /\ UNCHANGED case /\ RoEnd(Rec[l].a)
TFrame == Ev("Frame") /\ UNCHANGED case /\ LogSE(Rec[l].a) /\ MutOrdinal(Rec[l].a) = Rec[l].k
TRelease == Ev("Release") /\ UNCHANGED case /\ \E a \in Actors : hasGuard[a] /\ Release(a)
TRunEnd == Ev("RunEnd") /\ UNCHANGED case /\ RunEnd(Rec[l].a)
TCancel == /\ Ev("Cancel") /\ UNCHANGED case
           /\ cancelled' = cancelled \cup {Rec[l].a}
           /\ UNCHANGED <<pc, ip, holder, hasGuard, order, se, ended>>
TNext == TReset \/ TAcquire \/ TBegin \/ TEnd \/ TRoBegin \/ TRoEnd \/ TFrame \/ TRelease \/ TRunEnd \/ TCancel
TSpec == TInit /\ [][TNext]_tvars
\* acceptance with branching: the diameter is the deepest trace position any branch reached
Accepted == LET d == TLCGet("stats").diameter IN
            d - 1 = Len(Rec) \/ PrintT(<<"REJECTED", ToJson([at |-> d, ev |-> IF d <= Len(Rec) THEN Rec[d] ELSE Rec[Len(Rec)]])>>)
=============================================================================
