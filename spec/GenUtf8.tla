------------------------------------ MODULE GenUtf8 ------------------------------------
EXTENDS Utf8, Json
Emit == (~done /\ stream # <<>>) => PrintT(<<"CASE", ToJson([stream |-> stream, ref |-> LET r == Ref(Append(stream, "a"), 1) IN SubSeq(r, 1, Len(r) - 1)])>>)
========================================================================================
