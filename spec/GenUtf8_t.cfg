SPECIFICATION Spec
CONSTANTS
  MaxLen = 5
  AsImplemented = FALSE
  Classes = {"a", "l2", "l3", "l4", "c", "x"}
INVARIANT Emit
CHECK_DEADLOCK FALSE
