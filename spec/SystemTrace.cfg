SPECIFICATION TSpec
CONSTANTS
  Strict = FALSE
  Deviation = "none"
  Runs = {}
  Jobs = {}
  Tasks = {}
  ThreadOf = {}
INVARIANT Report
POSTCONDITION Accepted
CHECK_DEADLOCK FALSE
