\* The design with every deviation repaired: all properties must hold.
SPECIFICATION Spec
CONSTANTS
  Writers = {w1, w2}
  Root = "root"
  Child = "child"
  Sessions = {"s1"}
  MaxLog = 6
  MaxCrash = 1
  EnableBranch = FALSE
  SidecarNextSeq = FALSE
  LineageLocked = TRUE
  SecondInput = FALSE
  Tasks = {"k1"}
  TaskGuarded = FALSE
  Cold = FALSE
  Guarded = TRUE
INVARIANTS TypeOK GapFree AckedOnce MutexHeld
PROPERTY AppendOnly
CHECK_DEADLOCK FALSE
