SPECIFICATION Spec
CONSTANTS
  Paths = {"f", "g", "d/h"}
  Vals = {"v2", "v3"}
  MaxOps = 3
VIEW View
INVARIANTS Emit RewindExact FailedRewindNoop AutoCovers
CHECK_DEADLOCK FALSE
