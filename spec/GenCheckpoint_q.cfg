SPECIFICATION Spec
CONSTANTS
  Paths = {"f", "g", "d/h"}
  Vals = {"v2", "v3"}
  OpKinds = {"create", "write", "patch_add", "patch_upd", "patch_del", "raw", "patch_move", "rewind"}
  MaxOps = 3
VIEW View
INVARIANTS Emit RewindExact FailedRewindNoop AutoCovers
CHECK_DEADLOCK FALSE
