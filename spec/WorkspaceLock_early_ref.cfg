SPECIFICATION Spec
CONSTANTS
  Actors <- MCActors
  Prog <- MCProg
  Linked <- MCLinked
  Cancellable <- MCCancellable
  EarlyRelease <- MCEarly1
  CancelSkipsLock = FALSE
PROPERTIES Refines
CHECK_DEADLOCK FALSE
