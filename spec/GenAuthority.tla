---------------------------- MODULE GenAuthority ----------------------------
EXTENDS MCAuthority
\* ---- behaviour generator: the history of (actor, program counter reached) steps; one line per
\*      finished behaviour (every contender settled), with the predicted observations
VARIABLES hist
GInit == Init /\ hist = <<>>
Obs == [lock |-> lock, meta |-> meta, holds |-> holds, stolen |-> stolen]
GNext == \E p \in Procs : Step(p) /\ hist' = Append(hist, [a |-> p, to |-> pc'[p], lock |-> lock', meta |-> meta', holds |-> holds', nstolen |-> Cardinality(stolen')])
GSpec == GInit /\ [][GNext]_<<vars, hist>>
Done == \A p \in Procs : pc[p] \in {"failed", "serving", "gone"}
GenCase == Done => PrintT(<<"CASE", ToJson([start |-> start, sched |-> hist, results |-> result, stolen |-> stolen,
                                             atmostone |-> AtMostOne])>>)
\* state coverage (with VIEW GView): the first path TLC finds to every distinct state
GView == vars
GenState == hist = <<>> \/ PrintT(<<"CASE", ToJson([start |-> start, sched |-> hist, results |-> result, stolen |-> stolen,
                                                     atmostone |-> AtMostOne, done |-> Done])>>)
Bounded == \A p \in Procs : retries[p] < MaxRetries
\* the safety properties along the history (so that a generated behaviour says where it went wrong)
=============================================================================
