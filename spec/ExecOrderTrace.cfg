SPECIFICATION TSpec
CONSTANTS Actors = {1,2,3,4,5,6,7,8,9}
INVARIANTS Coherent Report
POSTCONDITION Accepted
CHECK_DEADLOCK FALSE
