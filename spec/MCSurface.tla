----------------------------------- MODULE MCSurface -----------------------------------
EXTENDS Surface, Json
SymSeq == {[k |-> "other", id |-> "-", n |-> 0]}
SymFold == {[k |-> "start", id |-> "-", n |-> 3], [k |-> "delta", id |-> "-", n |-> 1], [k |-> "delta", id |-> "-", n |-> 9],
            [k |-> "end", id |-> "-", n |-> 0], [k |-> "tstart", id |-> "t1", n |-> 0], [k |-> "tstart", id |-> "t2", n |-> 0],
            [k |-> "tout", id |-> "t1", n |-> 9], [k |-> "tend", id |-> "t1", n |-> 0], [k |-> "tend", id |-> "t2", n |-> 0],
            [k |-> "tfail", id |-> "t1", n |-> 0], [k |-> "tfail", id |-> "t2", n |-> 0]}
Emit == frames # <<>> => PrintT(<<"CASE", ToJson([frames |-> frames, cap |-> Cap, maxout |-> MaxOut,
                                                  window |-> [i \in 1..Len(Window(frames)) |-> Window(frames)[i].q],
                                                  get |-> [q \in Seqs |-> Get(frames, q)],
                                                  tools |-> ToolState(frames), outlen |-> OutLen(frames, 1, 0)])>>)
========================================================================================
