---------------------------------- MODULE ScriptThreads ----------------------------------
(* Scripted threads for C08: histories that cross the code's constants (more than 16 messages,
   hierarchical halving over several checkpoints, checkpoints created in non-ascending to_seq
   order, replies, threads whose sidecars exceed the 256 KiB tail window once the harness pads the
   messages).  The reference semantics and Eff are Threads.tla's; only the path is fixed. *)
EXTENDS Threads, Json, SequencesExt
CONSTANT EmitOps
VARIABLE sid
Msg == O("message", 1, -1, -1, -1, -1)
Ck(q) == O("checkpoint", 1, 1, q, 0, -1)
End(m, s) == O("run_ended", 1, m, s, -1, -1)
Sfx(m) == O("side_effects", 1, m, -1, -1, -1)
Rep(o, n) == [i \in 1..n |-> o]
Scripts == <<
    Rep(Msg, 18),
    Rep(Msg, 18) \o <<Ck(2), Ck(9)>>,
    Rep(Msg, 20) \o <<Ck(8), Ck(4)>> \o Rep(Msg, 2),
    Rep(Msg, 20) \o <<Ck(1), Ck(2), Ck(4), Ck(8), Ck(16)>>,
    Rep(Msg, 20) \o <<Ck(16), Ck(4), Ck(8), Ck(16), Ck(5)>> \o Rep(Msg, 3),
    <<Msg, End(1, 1), Msg, Msg, End(3, 2), End(2, 1), Sfx(2), Msg, End(2, 2), Ck(3)>> \o Rep(Msg, 17) \o <<End(10, 1)>>,
    Rep(Msg, 60),
    Rep(Msg, 40) \o <<Ck(30), Ck(10)>> \o Rep(Msg, 20)
>>
SInit == Init /\ sid \in 1..Len(Scripts)
SNext == /\ Len(hist) < Len(Scripts[sid])
         /\ LET o == Scripts[sid][Len(hist) + 1] IN
            th' = Apply(o) /\ hist' = Append(hist, [o |-> o, e |-> Eff(o)])
         /\ UNCHANGED sid
SSpec == SInit /\ [][SNext]_<<vars, sid>>
Emit == Len(hist) = Len(Scripts[sid]) =>
          PrintT(<<"CASE", ToJson([sid |-> sid, path |-> [i \in 1..Len(hist) |-> hist[i].o],
                                   lens |-> [t \in 1..Len(th) |-> Len(th[t])],
                                   trans |-> LET ops == SetToSeq({o \in AllOps : o.op \in EmitOps /\ o.t = 1}) IN
                                             [i \in 1..Len(ops) |-> [o |-> ops[i], e |-> Eff(ops[i])]]])>>)
==========================================================================================
