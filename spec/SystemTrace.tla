---------------------------- MODULE SystemTrace ----------------------------
(* Recorded executions of the real system against the monitor half of System.tla.  One event per
   observable step, in the order the process passed its hook points (one file per process, the
   recorder's mutex orders the lines; a frame's event is written while the log's writer mutex is
   still held, so the events of one log are in file order):

     reset  a new execution (one test process of the repository's suite / one harness run)
     f      a frame whose line reached the log      -> System!Frame
     c      a line reached a thread's full sidecar  -> System!CacheAppend
     base   (server processes only) frames a stream already had when the process started
     rec    an emitter buffered a frame             -> System!Recorded
     pub    an emitter published a frame            -> System!Published
     snap   a stream's snapshot file was written with n frames -> System!Snapshot
     xb/xe  a workspace-mutating execution begins / ends (tool call that needs the permit, task process) -> System!XBegin / XEnd

   The trace alone decides which action fires; every guard of System that is false in the state
   reached is recorded in `bad` with the line number; the design half of System is not used (its
   variables stay at their initial values). *)
EXTENDS System, Json, IOUtils
Rec == ndJsonDeserialize(IOEnv.TRACE)
VARIABLES l
tvars == <<vars, l>>
Ev(e) == l <= Len(Rec) /\ Rec[l].ev = e /\ l' = l + 1
TInit == Init /\ l = 1
TReset == /\ Ev("reset") /\ UNCHANGED <<bad, dvars>>
          /\ cnt' = Zero /\ msgs' = Empty /\ mwhere' = [x \in {} |-> <<"", 0>>] /\ run' = Empty /\ sess' = Empty /\ job' = Empty /\ task' = Empty
          /\ creq' = {} /\ cached' = Zero /\ recd' = {} /\ execs' = {} /\ tend' = [x \in {} |-> 0]
\* a process that serves a store another process wrote before it (a restarted `rip serve`): the stream is known
\* to hold n frames already; the recorder of the earlier process has the guards of those
TBase == /\ Ev("base") /\ LET b == Rec[l] IN
            /\ cnt' = Put(cnt, b.sk \o ":" \o b.s, b.n)
            /\ sess' = IF b.sk = "session" THEN Put(sess, b.s, "open") ELSE sess
            /\ task' = IF b.sk = "task" THEN Put(task, b.s, "spawned") ELSE task
         /\ UNCHANGED <<msgs, mwhere, run, job, creq, cached, recd, execs, tend, bad, dvars>>
TFrame == Ev("f") /\ Frame(Rec[l], l) /\ UNCHANGED dvars
TCache == Ev("c") /\ CacheAppend(Rec[l].s, Rec[l].q, l) /\ UNCHANGED dvars
TRec == Ev("rec") /\ Recorded(Rec[l].s, Rec[l].q, l) /\ UNCHANGED dvars
TPub == Ev("pub") /\ Published(Rec[l].s, Rec[l].q, l) /\ UNCHANGED dvars
TXb == Ev("xb") /\ XBegin(Rec[l].id, l) /\ UNCHANGED dvars
TXe == Ev("xe") /\ XEnd(Rec[l].id, l) /\ UNCHANGED dvars
TSnap == Ev("snap") /\ Snapshot(Rec[l].s, Rec[l].n, l) /\ UNCHANGED dvars
TNext == TSnap \/ TXb \/ TXe \/ TReset \/ TBase \/ TFrame \/ TCache \/ TRec \/ TPub
TSpec == TInit /\ [][TNext]_tvars
Report == IF l = Len(Rec) + 1 THEN PrintT(<<"BAD", ToJson(bad)>>) ELSE TRUE
Accepted == LET d == TLCGet("stats").diameter IN
            d - 1 = Len(Rec) \/ PrintT(<<"REJECTED", ToJson([at |-> d])>>)
=============================================================================
