------------------------------ MODULE MCGenStoreSeq ------------------------------
EXTENDS GenStoreSeq
OpOfA == [w \in Writers |-> "root"]
OpOfB == [w \in Writers |-> IF w = "w1" THEN "branch" ELSE "child"]
OpOfC == [w \in Writers |-> IF w = "w1" THEN "branch" ELSE "root"]
=================================================================================
