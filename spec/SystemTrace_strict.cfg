SPECIFICATION TSpec
CONSTANTS
  Strict = TRUE
  Deviation = "none"
  Runs = {}
  Jobs = {}
  Tasks = {}
  ThreadOf = {}
INVARIANT Report
POSTCONDITION Accepted
CHECK_DEADLOCK FALSE
