SPECIFICATION TSpec
CONSTANTS
  Actors <- CastActors
  Prog <- CastProg
  Linked <- CastLinked
  Cancellable <- CastCancellable
  EarlyRelease <- MCNoEarly
  CancelSkipsLock = FALSE
INVARIANTS Safe
POSTCONDITION Accepted
CHECK_DEADLOCK FALSE
