----------------------------------- MODULE Checkpoint -----------------------------------
(* C14: rewind restores exactly the checkpointed files from any later state.
   Abstract workspace (three paths, contents v1..v3 / absent / directory), the checkpoint store,
   explicit checkpoints (paths given relative or absolute), file-editing tools that take an
   automatic checkpoint of every file they can change first (write, apply_patch add / update /
   move / delete), edits made behind the tools' back (delete, mkdir) and rewinds in any order.
   Properties (checked on every step by TLC, and on the real workspace by the harness):
     RewindExact   after a successful rewind every covered path has the content it had at
                   creation (or is absent), every other path is untouched;
     FailedRewindNoop  a rewind that fails leaves the workspace as it was;
     AutoCovers    the automatic checkpoint of a tool covers every path the tool changed. *)
EXTENDS Integers, Sequences, FiniteSets, TLC

CONSTANTS Paths, Vals, MaxOps, OpKinds     \* OpKinds: the operation kinds offered (restricted for deep path-coverage runs)

Absent == "absent"
Dir == "dir"
VARIABLES fs, cps, hist, last
vars == <<fs, cps, hist, last>>
\* last = outcome of the last operation: [op, ok, before (fs), cp (index or 0), changed]

IsFile(c) == c \notin {Absent, Dir}
Rec(o, ok, cp, changed) == last' = [op |-> o, ok |-> ok, before |-> fs, cp |-> cp, changed |-> changed]
Log(o, ok) == hist' = Append(hist, [o |-> o, ok |-> ok, fs |-> fs', ncp |-> Len(cps'), fs0 |-> IF hist = <<>> THEN fs ELSE hist[1].fs0])

\* a checkpoint of a directory cannot be taken (its bytes cannot be read)
CanSnap(S) == \A p \in S : fs[p] # Dir
Snap(S) == [p \in S |-> fs[p]]

Create(S, how) ==
    LET o == [k |-> "create", paths |-> S, how |-> how] IN
    IF CanSnap(S)
    THEN /\ cps' = Append(cps, Snap(S)) /\ fs' = fs /\ Rec(o, TRUE, Len(cps) + 1, {}) /\ Log(o, TRUE)
    ELSE /\ UNCHANGED <<fs, cps>> /\ Rec(o, FALSE, 0, {}) /\ Log(o, FALSE)

\* a tool edit: automatic checkpoint of the affected paths first (when it can be taken), then the edit
Tool(o, S, ok, newfs) ==
    /\ cps' = IF CanSnap(S) THEN Append(cps, Snap(S)) ELSE cps
    /\ fs' = IF ok THEN newfs ELSE fs
    /\ Rec(o, ok, IF CanSnap(S) THEN Len(cps) + 1 ELSE 0, IF ok THEN {p \in Paths : newfs[p] # fs[p]} ELSE {})
    /\ Log(o, ok)
Write(p, v) == Tool([k |-> "write", p |-> p, v |-> v], {p}, fs[p] # Dir, [fs EXCEPT ![p] = v])
PatchAdd(p, v) == Tool([k |-> "patch_add", p |-> p, v |-> v], {p}, fs[p] = Absent, [fs EXCEPT ![p] = v])
\* an update hunk rewrites the file in place (same inode), unlike the write tool's atomic replace
PatchUpd(p, v) == Tool([k |-> "patch_upd", p |-> p, v |-> v], {p}, IsFile(fs[p]) /\ fs[p] # v, [fs EXCEPT ![p] = v])
PatchDel(p) == Tool([k |-> "patch_del", p |-> p], {p}, IsFile(fs[p]), [fs EXCEPT ![p] = Absent])
PatchMove(p, q) == Tool([k |-> "patch_move", p |-> p, q |-> q], {p, q}, IsFile(fs[p]) /\ fs[q] = Absent /\ p # q,
                        [fs EXCEPT ![q] = fs[p], ![p] = Absent])
\* edits behind the tools' back
RawDelete(p) == /\ IsFile(fs[p]) /\ fs' = [fs EXCEPT ![p] = Absent] /\ UNCHANGED cps
                /\ Rec([k |-> "raw_delete", p |-> p], TRUE, 0, {p}) /\ Log([k |-> "raw_delete", p |-> p], TRUE)
RawMkdir(p) == /\ fs[p] = Absent /\ fs' = [fs EXCEPT ![p] = Dir] /\ UNCHANGED cps
               /\ Rec([k |-> "raw_mkdir", p |-> p], TRUE, 0, {p}) /\ Log([k |-> "raw_mkdir", p |-> p], TRUE)

\* rewind: fails (and changes nothing) when a covered path is now a directory
Rewind(i) ==
    LET cp == cps[i]  o == [k |-> "rewind", i |-> i]
        ok == \A p \in DOMAIN cp : fs[p] # Dir IN
    /\ fs' = IF ok THEN [p \in Paths |-> IF p \in DOMAIN cp THEN cp[p] ELSE fs[p]] ELSE fs
    /\ UNCHANGED cps /\ Rec(o, ok, i, {}) /\ Log(o, ok)
RewindMissing == /\ UNCHANGED <<fs, cps>> /\ Rec([k |-> "rewind", i |-> 0], FALSE, 0, {}) /\ Log([k |-> "rewind", i |-> 0], FALSE)

Init == /\ fs \in [Paths -> {Absent, "v1"}] /\ cps = <<>> /\ hist = <<>>
        /\ last = [op |-> [k |-> "init"], ok |-> TRUE, before |-> fs, cp |-> 0, changed |-> {}]
Next == /\ Len(hist) < MaxOps
        /\ \/ ("create" \in OpKinds /\ \E S \in (SUBSET Paths) \ {{}} : \E how \in {"rel", "abs"} : Create(S, how))
           \/ ("write" \in OpKinds /\ \E p \in Paths, v \in Vals : Write(p, v))
           \/ ("patch_add" \in OpKinds /\ \E p \in Paths, v \in Vals : PatchAdd(p, v))
           \/ ("patch_upd" \in OpKinds /\ \E p \in Paths, v \in Vals : PatchUpd(p, v))
           \/ ("patch_del" \in OpKinds /\ \E p \in Paths : PatchDel(p))
           \/ ("raw" \in OpKinds /\ \E p \in Paths : RawDelete(p) \/ RawMkdir(p))
           \/ ("patch_move" \in OpKinds /\ \E p, q \in Paths : PatchMove(p, q))
           \/ ("rewind" \in OpKinds /\ ((\E i \in 1..Len(cps) : Rewind(i)) \/ RewindMissing))
Spec == Init /\ [][Next]_vars

RewindExact == (last.op.k = "rewind" /\ last.ok) =>
                  \A p \in Paths : IF p \in DOMAIN cps[last.cp] THEN fs[p] = cps[last.cp][p] ELSE fs[p] = last.before[p]
FailedRewindNoop == (last.op.k = "rewind" /\ ~last.ok) => fs = last.before
AutoCovers == (last.op.k \in {"write", "patch_add", "patch_upd", "patch_del", "patch_move"} /\ last.ok) =>
                  /\ last.cp # 0
                  /\ last.changed \subseteq DOMAIN cps[last.cp]
                  /\ \A p \in last.changed : cps[last.cp][p] = last.before[p]     \* so the edit can be undone
=========================================================================================
