------------------------------------ MODULE MCPatch ------------------------------------
EXTENDS Patch, Json, SequencesExt
P == {"f", "g", "d/h"}
LF2   == Text(<<"a", "b">>, "lf", TRUE)
CRLF2 == Text(<<"a", "b">>, "crlf", TRUE)
NoNL  == Text(<<"a", "b">>, "lf", FALSE)
CRLFNoNL == Text(<<"a", "b">>, "crlf", FALSE)      \* CRLF between the lines, nothing after the last one
Rep   == Text(<<"b", "a", "b">>, "lf", TRUE)
Empty == Text(<<>>, "lf", FALSE)
FChoices == {Absent, LF2, CRLF2, NoNL, CRLFNoNL, Rep, Empty, Bin, Dir}
Inits == {[p \in P |-> CASE p = "f" -> cf [] p = "g" -> cg [] OTHER -> ch] :
              cf \in FChoices, cg \in {Absent, LF2}, ch \in {Absent, NoNL}}
H(b, a) == [b |-> b, a |-> a]
HunkLists == { <<H(<<"a">>, <<"c">>)>>,                       \* replace
               <<H(<<>>, <<"c">>)>>,                          \* pure addition
               <<H(<<"a", "b">>, <<"a">>)>>,                  \* shrink
               <<H(<<"b">>, <<"b", "b">>), H(<<"b">>, <<"c">>)>>,   \* grow, then context that also occurs in the inserted text
               <<H(<<"a">>, <<"c">>), H(<<"a">>, <<"c">>)>>,  \* repeated context
               <<H(<<"b", "a">>, <<"a">>), H(<<"b">>, <<"c">>)>>,   \* shrink, then a later duplicate
               <<H(<<"c">>, <<"a">>)>>,                       \* missing context
               <<H(<<"b">>, <<"c">>), H(<<"a">>, <<"c">>)>> } \* second hunk's context lies before the cursor
Ops == {[k |-> "add", p |-> p, lines |-> l] : p \in P, l \in {<<>>, <<"a">>, <<"c", "a">>}}
  \cup {[k |-> "del", p |-> p] : p \in P}
  \cup {[k |-> "upd", p |-> p, mv |-> m, hs |-> hs] : p \in P, m \in P \cup {"none"}, hs \in HunkLists}
  \cup {[k |-> "bad", why |-> w] : w \in {"no_header", "no_footer", "bad_prefix", "abs_path", "dotdot", "empty_path", "no_hunks", "add_no_plus", "garbage_line"}}
\* a reduced alphabet for two-operation documents in the quick tier
OpsSmall == {o \in Ops : (o.k = "add" => o.lines = <<"a">>)
                      /\ (o.k = "upd" => o.hs \in {<<H(<<"a">>, <<"c">>)>>, <<H(<<"c">>, <<"a">>)>>, <<H(<<>>, <<"c">>)>>} /\ o.mv \in {"none", "g", "d/h"})
                      /\ (o.k = "bad" => o.why = "bad_prefix")}
Emit == doc # <<>> => PrintT(<<"CASE", ToJson([fs0 |-> fs0, doc |-> doc,
                                              res |-> LET r == Apply(fs0, doc) IN
                                                      [ok |-> r.ok, fs |-> r.fs, changed |-> SetToSeq(r.changed)]])>>)
========================================================================================
