SPECIFICATION Spec
CONSTANTS
  N = 4
  NB = 2
  B0 = 7
  RecordFirst = TRUE
  PreRecorded = 2
INVARIANT Emit
CHECK_DEADLOCK FALSE
