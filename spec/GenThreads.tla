-------------------------------- MODULE GenThreads --------------------------------
(* State-coverage behaviour generation for Threads: hist is hidden from the VIEW, so TLC visits
   every distinct store state once; for each it prints one operation path that reaches it and
   the predicted effect of every operation of the alphabet in that state. *)
EXTENDS Threads, Json, SequencesExt
CONSTANT EmitOps     \* operation names whose predictions are printed (the others are still transitions)
View == th
Emit == PrintT(<<"CASE", ToJson([path  |-> [i \in 1..Len(hist) |-> hist[i].o],
                                 lens  |-> [t \in 1..Len(th) |-> Len(th[t])],
                                 trans |-> LET ops == SetToSeq({o \in AllOps : o.op \in EmitOps}) IN
                                           [i \in 1..Len(ops) |-> [o |-> ops[i], e |-> Eff(ops[i])]]])>>)
====================================================================================
