SPECIFICATION Spec
CONSTANTS
  MaxResponses = 2
  MaxCalls = 2
  MaxToolCalls = 32
  DedupDone = TRUE
  Outcomes = {"done", "eof", "http500", "drop", "empty", "junk_done"}
  Calls <- CallSet
  Choices = {"auto", "none", "required", "fn_ls", "allowed_write", "allowed_hosted_only"}
  Modes = {TRUE, FALSE}
INVARIANTS ExecutedOnce BarredNeverRuns Bounded Ordered
CHECK_DEADLOCK FALSE
