SPECIFICATION Spec
CONSTANTS
  MaxResponses = 2
  MaxCalls = 2
  MaxToolCalls = 32
  DedupDone = TRUE
  Outcomes = {"done", "eof", "http500", "drop", "empty", "junk_done"}
  Calls <- CallSetSmall
  Choices = {"auto", "none", "fn_ls", "allowed_hosted_only"}
  Modes = {TRUE, FALSE}
VIEW GenView
INVARIANTS Emit
CHECK_DEADLOCK FALSE
