SPECIFICATION Spec
CONSTANTS
  MaxLen = 5
  Alphabet = {"n", "r", "D", "E", "c", "s", "x"}
INVARIANT ChunkInvariant
CHECK_DEADLOCK FALSE
