----------------------------------- MODULE SseLines -----------------------------------
(* C15, framing stage: rip-provider-openresponses SseDecoder::push / finish transcribed at the
   grain of character classes.  The chunked decoder carries (pending line tail, current event
   name, current data lines) across chunks; the reference is the same decoder fed the whole
   stream at once.  ChunkInvariant: for every stream and EVERY partition into chunks the event
   sequence is the same.  Symbols:
     "n" LF   "r" CR   "D" the field prefix data:   "E" the field prefix event:   "c" ':'
     "s" space   "x","y","z" payload characters *)
EXTENDS Integers, Sequences, FiniteSets, TLC

CONSTANTS MaxLen, Alphabet

None == <<"none">>
\* ---- helpers on symbol sequences
RECURSIVE TrimRight(_, _)
TrimRight(s, ch) == IF s # <<>> /\ s[Len(s)] = ch THEN TrimRight(SubSeq(s, 1, Len(s) - 1), ch) ELSE s
RECURSIVE TrimLeft(_, _)
TrimLeft(s, ch) == IF s # <<>> /\ s[1] = ch THEN TrimLeft(SubSeq(s, 2, Len(s)), ch) ELSE s
\* str::trim / trim_start remove every whitespace character: of the alphabet, the space and a lone CR
RECURSIVE TrimLeftWS(_)
TrimLeftWS(s) == IF s # <<>> /\ s[1] \in {"s", "r"} THEN TrimLeftWS(SubSeq(s, 2, Len(s))) ELSE s
RECURSIVE TrimRightWS(_)
TrimRightWS(s) == IF s # <<>> /\ s[Len(s)] \in {"s", "r"} THEN TrimRightWS(SubSeq(s, 1, Len(s) - 1)) ELSE s
Trim(s) == TrimLeftWS(TrimRightWS(s))
\* split at LF: <<line1, ..., lineK>> where the last element is what follows the last LF (maybe <<>>)
RECURSIVE Split(_, _, _)
Split(s, i, cur) == IF i > Len(s) THEN <<cur>>
                    ELSE IF s[i] = "n" THEN <<cur>> \o Split(s, i + 1, <<>>)
                    ELSE Split(s, i + 1, Append(cur, s[i]))
RECURSIVE Join(_)
Join(ls) == IF ls = <<>> THEN <<>> ELSE IF Len(ls) = 1 THEN ls[1] ELSE ls[1] \o <<"n">> \o Join(SubSeq(ls, 2, Len(ls)))

\* decoder state: [buf, ev, data, out]
DInit == [buf |-> <<>>, ev |-> None, data |-> <<>>, out |-> <<>>]
\* one complete line
Line(st, raw) ==
    LET line == TrimRight(raw, "r") IN
    IF line # <<>> /\ line[1] = "E" THEN
        LET v == Trim(SubSeq(line, 2, Len(line))) IN [st EXCEPT !.ev = IF v = <<>> THEN None ELSE v]
    ELSE IF line # <<>> /\ line[1] = "D" THEN
        [st EXCEPT !.data = Append(@, TrimLeftWS(SubSeq(line, 2, Len(line))))]
    ELSE IF line = <<>> THEN
        IF st.data # <<>> THEN [st EXCEPT !.out = Append(@, [ev |-> st.ev, data |-> Join(st.data)]), !.data = <<>>, !.ev = None]
        ELSE st
    ELSE st      \* comment (starts with ':') or unknown field: ignored
RECURSIVE Lines(_, _, _)
Lines(st, ls, i) == IF i > Len(ls) THEN st ELSE Lines(Line(st, ls[i]), ls, i + 1)
\* push: everything up to the last LF is processed, the rest stays pending
Push(st, chunk) ==
    LET all == st.buf \o chunk
        ls  == Split(all, 1, <<>>)
        st1 == Lines([st EXCEPT !.buf = <<>>], SubSeq(ls, 1, Len(ls) - 1), 1)
    IN [st1 EXCEPT !.buf = ls[Len(ls)]]
Finish(st) == IF st.buf = <<>> THEN st ELSE Push(st, <<"n">>)

RECURSIVE Feed(_, _, _, _)
Feed(st, s, from, C) ==
    IF from > Len(s) THEN st
    ELSE LET nexts == {c \in C : c >= from}
             to == IF nexts = {} THEN Len(s) ELSE CHOOSE c \in nexts : \A d \in nexts : c <= d
         IN Feed(Push(st, SubSeq(s, from, to)), s, to + 1, C)
Decode(s, C) == Finish(Feed(DInit, s, 1, C)).out
Reference(s) == Decode(s, {})

VARIABLES stream, cuts, done
Init == stream = <<>> /\ cuts = {} /\ done = FALSE
Grow == ~done /\ Len(stream) < MaxLen /\ \E b \in Alphabet : stream' = Append(stream, b) /\ UNCHANGED <<cuts, done>>
Cut  == ~done /\ stream # <<>> /\ \E C \in SUBSET (1..(Len(stream) - 1)) : cuts' = C /\ done' = TRUE /\ UNCHANGED stream
Next == Grow \/ Cut
Spec == Init /\ [][Next]_<<stream, cuts, done>>
ChunkInvariant == done => Decode(stream, cuts) = Reference(stream)
=======================================================================================
