---------------------------- MODULE AuthorityCli ----------------------------
(* Growth of Authority: the command-line client's loop (crates/rip-cli/src/local_authority.rs
   ensure_local_authority_with_paths) as a second kind of contender.  A client never takes the
   lock; it reads meta.json, attaches to a reachable endpoint, cleans up after a dead authority
   (keyed on the pid in META, where the server keys on the pid in the LOCK), cleans up a corrupt
   lock and otherwise spawns a server process (one of Procs starts its recovery loop).
   Checked at design level only (the loop lives in a binary crate and is not driven by the
   harness); the clean-up steps it takes are the library functions the harness does drive. *)
EXTENDS Authority

CONSTANTS Clients,
          GraceTimer  \* how the client decides that a half-written lock has been there for the grace period (1 s):
                      \*  "oracle"   : abstraction - exactly when its creator is dead
                      \*  "observer" : as implemented - lock_invalid_since starts at the first unreadable lock the client sees and
                      \*               is reset only by a readable lock, a meta file or an absent lock (finding D9d)
                      \*  "file"     : the timer is restarted when the unreadable file is not the one it was started on
VARIABLES cpc,      \* [Clients -> program counter]
          cexp,     \* [Clients -> owner the cleanup expects]
          attached, \* [Clients -> owner it attached to, or NoOne]
          spawned,  \* servers that have been started (a server only runs once it is spawned)
          armed     \* [Clients -> the half-written lock the grace timer was started on, or AbsentF]
cvars == <<cpc, cexp, attached, spawned, armed>>
allvars == <<vars, cvars>>

CInit == /\ Init
         /\ cpc = [c \in Clients |-> "k_meta"] /\ cexp = [c \in Clients |-> NoOne]
         /\ attached = [c \in Clients |-> NoOne] /\ spawned = {}
         /\ armed = [c \in Clients |-> AbsentF]
Disarm(c) == armed' = [armed EXCEPT ![c] = AbsentF]
CGoto(c, l) == cpc' = [cpc EXCEPT ![c] = l]
Keep == UNCHANGED <<start, pc, exp, holds, serving, retries, result>>

\* read meta.json, ping
KMeta(c) ==
  /\ cpc[c] = "k_meta"
  /\ IF meta # AbsentF /\ meta[2] \in serving
       THEN attached' = [attached EXCEPT ![c] = meta[2]] /\ CGoto(c, "attached") /\ UNCHANGED cexp
       ELSE IF meta # AbsentF /\ IsDead(meta[2])
         THEN cexp' = [cexp EXCEPT ![c] = meta[2]] /\ CGoto(c, "ks_check") /\ UNCHANGED attached
         ELSE IF meta # AbsentF THEN CGoto(c, "k_meta") /\ UNCHANGED <<cexp, attached>>     \* authority starting / hung: wait
         ELSE CGoto(c, "k_lock") /\ UNCHANGED <<cexp, attached>>
  /\ IF meta # AbsentF THEN Disarm(c) ELSE UNCHANGED armed
  /\ UNCHANGED <<lock, meta, stolen, spawned>> /\ Keep
\* no meta: look at the lock
\* A live creator writes its record within the grace period, so a timer started on a file whose live creator has still not
\* written cannot have run out; in every other case it may have (taken as: it has - waiting longer is the same as polling later).
KLock(c) ==
  /\ cpc[c] = "k_lock"
  /\ CASE lock = AbsentF -> CGoto(c, "k_spawn") /\ UNCHANGED cexp /\ Disarm(c)
       [] lock[1] = "partial" /\ GraceTimer = "oracle" ->
            (IF IsDead(lock[2]) THEN CGoto(c, "kc_check") ELSE CGoto(c, "k_meta")) /\ UNCHANGED <<cexp, armed>>
       [] lock[1] = "partial" /\ GraceTimer # "oracle" ->
            IF armed[c] = AbsentF \/ (GraceTimer = "file" /\ armed[c] # lock)
              THEN armed' = [armed EXCEPT ![c] = lock] /\ CGoto(c, "k_meta") /\ UNCHANGED cexp
              ELSE IF armed[c] = lock /\ Live(lock[2])
                THEN CGoto(c, "k_meta") /\ UNCHANGED <<cexp, armed>>
                ELSE cexp' = [cexp EXCEPT ![c] = lock[2]] /\ CGoto(c, "kc_check") /\ UNCHANGED armed
       [] lock[1] = "full" -> /\ Disarm(c)
                              /\ IF IsDead(lock[2]) THEN cexp' = [cexp EXCEPT ![c] = lock[2]] /\ CGoto(c, "ks_check")
                                                    ELSE CGoto(c, "k_meta") /\ UNCHANGED cexp
  /\ UNCHANGED <<lock, meta, stolen, attached, spawned>> /\ Keep
\* spawn a server process (500 ms cool-down: at most one per client here)
KSpawn(c) ==
  /\ cpc[c] = "k_spawn"
  /\ \/ \E p \in Procs \ spawned : spawned' = spawned \cup {p}
     \/ spawned = Procs /\ UNCHANGED spawned
  /\ CGoto(c, "k_meta")
  /\ UNCHANGED <<lock, meta, stolen, cexp, attached, armed>> /\ Keep
\* try_cleanup_stale_authority_files(meta.pid | lock.pid): the same file-system steps as the server's
KSCheck(c) ==
  /\ cpc[c] = "ks_check"
  /\ IF lock # AbsentF /\ lock[1] = "full" /\ lock[2] = cexp[c]
       THEN CGoto(c, "ks_rename") /\ UNCHANGED meta
       ELSE IF lock = AbsentF /\ ~OrphanMetaKept /\ meta = Meta(cexp[c])
         THEN meta' = AbsentF /\ CGoto(c, "k_meta")
         ELSE CGoto(c, "k_meta") /\ UNCHANGED meta
  /\ UNCHANGED <<lock, stolen, cexp, attached, spawned, armed>> /\ Keep
KSRename(c) ==
  /\ cpc[c] = "ks_rename"
  /\ IF lock = AbsentF \/ (~AsImplemented /\ lock # Full(cexp[c]))
       THEN CGoto(c, "k_meta") /\ UNCHANGED <<lock, stolen>>
       ELSE lock' = AbsentF /\ stolen' = Steal(c, "lock", lock, "ClientStaleRename") /\ CGoto(c, "ks_mread")
  /\ UNCHANGED <<meta, cexp, attached, spawned, armed>> /\ Keep
KSMetaRead(c) ==
  /\ cpc[c] = "ks_mread"
  /\ IF meta # AbsentF /\ meta[2] = cexp[c] THEN CGoto(c, "ks_mrename") ELSE CGoto(c, "k_meta")
  /\ UNCHANGED <<lock, meta, stolen, cexp, attached, spawned, armed>> /\ Keep
KSMetaRename(c) ==
  /\ cpc[c] = "ks_mrename"
  /\ IF meta = AbsentF \/ (~AsImplemented /\ meta # Meta(cexp[c]))
       THEN UNCHANGED <<meta, stolen>>
       ELSE meta' = AbsentF /\ stolen' = Steal(c, "meta", meta, "ClientStaleMetaRename")
  /\ CGoto(c, "k_meta")
  /\ UNCHANGED <<lock, cexp, attached, spawned, armed>> /\ Keep
\* try_cleanup_corrupt_lock_file
KCCheck(c) ==
  /\ cpc[c] = "kc_check"
  /\ IF lock # AbsentF /\ (meta = AbsentF \/ (~CorruptIgnoresMeta /\ ~Live(meta[2]))) THEN CGoto(c, "kc_rename") ELSE CGoto(c, "k_meta")
  /\ UNCHANGED <<lock, meta, stolen, cexp, attached, spawned, armed>> /\ Keep
\* the repaired design compares before it renames: with the oracle, "half-written by a dead creator"; otherwise "still the file
\* the client decided to clean"
KCRename(c) ==
  /\ cpc[c] = "kc_rename"
  /\ IF lock = AbsentF \/ (~AsImplemented /\ (IF GraceTimer = "oracle" THEN ~(lock[1] = "partial" /\ IsDead(lock[2])) ELSE lock # Partial(cexp[c])))
       THEN UNCHANGED <<lock, meta, stolen, armed>>
       ELSE /\ lock' = AbsentF /\ stolen' = Steal(c, "lock", lock, "ClientCorruptRename")
            /\ meta' = IF ~CorruptIgnoresMeta /\ meta # AbsentF /\ ~Live(meta[2]) THEN AbsentF ELSE meta
            /\ Disarm(c)
  /\ CGoto(c, "k_meta")
  /\ UNCHANGED <<cexp, attached, spawned>> /\ Keep

CStep(c) == KMeta(c) \/ KLock(c) \/ KSpawn(c) \/ KSCheck(c) \/ KSRename(c) \/ KSMetaRead(c) \/ KSMetaRename(c) \/ KCCheck(c) \/ KCRename(c)
\* a server runs only once it has been spawned
SStep(p) == p \in spawned /\ Step(p) /\ UNCHANGED cvars
CNext == (\E c \in Clients : CStep(c)) \/ (\E p \in Procs : SStep(p))
CSpec == CInit /\ [][CNext]_allvars /\ \A c \in Clients : WF_allvars(CStep(c)) /\ \A p \in Procs : WF_allvars(SStep(p))

\* ---- properties
\* a client attaches only to an authority that holds the role (or to the live resident)
AttachedToHolder == \A c \in Clients : attached[c] # NoOne => (attached[c] \in holds \/ attached[c] = Resident \/ pc[attached[c]] \in {"d_meta", "d_lock", "gone"})
\* every client eventually attaches when the previous authority is dead or absent
ClientsAttach == DeadStart => <>(\A c \in Clients : cpc[c] = "attached")
CSafe == Safe /\ AttachedToHolder
=============================================================================
