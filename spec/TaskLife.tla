------------------------------ MODULE TaskLife ------------------------------
(* C17 - the life of one background task (crates/ripd/src/tasks/mod.rs run_task, pipes.rs
   run_pipes_task / pump_output_stream, logs.rs TaskLogWriter): the runner, the child process, the
   two output pumps and a cancel request, as separately scheduled steps.  Bytes are counted, not
   represented: a stream is the number of bytes written / read / stored.

   Switches for the designs the property excludes (non-vacuity):
     SpawnFirst   FALSE: a request that fails validation ends without a spawn frame (pinned commit)
     JoinPumps    FALSE: the terminal frame does not wait for the pumps to reach end-of-file
     SkipEmpty    TRUE : a chunk whose preview is empty gets no frame (pinned commit) *)
EXTENDS Naturals, Sequences, FiniteSets, TLC

CONSTANTS Streams,      \* {"stdout", "stderr"}
          MaxWrite,     \* bytes the process may write per stream
          ReadMax,      \* largest single read (8192 in the code)
          Cap,          \* artifact cap (stored bytes per stream)
          Preview,      \* preview limit per frame (0 = every preview is empty)
          SpawnFirst, JoinPumps, SkipEmpty

VARIABLES pc,        \* runner: "new","validated","queued","locked","waiting","joining","ended"
          proc,      \* "none","running","exited","killed","spawnfail"
          written,   \* [Streams -> Nat]  bytes the process has written so far
          read,      \* [Streams -> Nat]  bytes the pump has consumed
          stored,    \* [Streams -> Nat]
          eof,       \* [Streams -> BOOLEAN]  pump finished
          cancelReq, \* "none","requested","seen"
          frames,    \* Seq of records
          valid      \* the request passes validation
vars == <<pc, proc, written, read, stored, eof, cancelReq, frames, valid>>

Min(a, b) == IF a < b THEN a ELSE b
Emit(f) == frames' = Append(frames, f)
Init == /\ pc = "new" /\ proc = "none" /\ valid \in BOOLEAN
        /\ written = [s \in Streams |-> 0] /\ read = [s \in Streams |-> 0] /\ stored = [s \in Streams |-> 0]
        /\ eof = [s \in Streams |-> FALSE] /\ cancelReq = "none" /\ frames = <<>>

\* ---- runner
Validate == /\ pc = "new"
            /\ IF valid
                 THEN pc' = "validated" /\ UNCHANGED frames
                 ELSE /\ pc' = "ended"
                      /\ frames' = IF SpawnFirst THEN <<[k |-> "spawned"], [k |-> "terminal", status |-> "failed"]>>
                                                 ELSE <<[k |-> "terminal", status |-> "failed"]>>
            /\ UNCHANGED <<proc, written, read, stored, eof, cancelReq, valid>>
EmitSpawned == /\ pc = "validated" /\ pc' = "queued" /\ Emit([k |-> "spawned"])
               /\ UNCHANGED <<proc, written, read, stored, eof, cancelReq, valid>>
AcquireLock == /\ pc = "queued" /\ pc' = "locked"
               /\ UNCHANGED <<proc, written, read, stored, eof, cancelReq, frames, valid>>
\* spawn the child (or fail: bad cwd, exec error) - a pending cancel is not looked at before
Spawn == /\ pc = "locked"
         /\ \/ /\ proc' = "running" /\ pc' = "waiting" /\ Emit([k |-> "running"])
            \/ /\ proc' = "spawnfail" /\ pc' = "ended" /\ Emit([k |-> "terminal", status |-> "failed"])
         /\ UNCHANGED <<written, read, stored, eof, cancelReq, valid>>
\* ---- the child process
Write(s) == /\ proc = "running" /\ written[s] < MaxWrite
            /\ \E n \in 1..(MaxWrite - written[s]) : written' = [written EXCEPT ![s] = @ + n]
            /\ UNCHANGED <<pc, proc, read, stored, eof, cancelReq, frames, valid>>
Exit == /\ proc = "running" /\ proc' = "exited"
        /\ UNCHANGED <<pc, written, read, stored, eof, cancelReq, frames, valid>>
\* ---- a pump: read up to ReadMax bytes, append to the log (capped), emit the frame
Pump(s) == /\ pc \in {"waiting", "joining"} \/ (~JoinPumps /\ pc = "ended")
           /\ ~eof[s] /\ read[s] < written[s]
           /\ \E n \in 1..Min(ReadMax, written[s] - read[s]) :
                LET take == Min(n, Cap - stored[s])
                    prev == Min(n, Preview) IN
                /\ read' = [read EXCEPT ![s] = @ + n]
                /\ stored' = [stored EXCEPT ![s] = @ + take]
                /\ IF SkipEmpty /\ prev = 0
                     THEN UNCHANGED frames
                     ELSE Emit([k |-> "out", s |-> s, off |-> stored[s], n |-> take, total |-> read[s] + n, prev |-> prev])
           /\ UNCHANGED <<pc, proc, written, eof, cancelReq, valid>>
PumpEof(s) == /\ ~eof[s] /\ proc \in {"exited", "killed"} /\ read[s] = written[s]
              /\ eof' = [eof EXCEPT ![s] = TRUE]
              /\ UNCHANGED <<pc, proc, written, read, stored, cancelReq, frames, valid>>
\* ---- cancel
CancelRequest == /\ cancelReq = "none" /\ pc \notin {"new", "ended"}
                 /\ cancelReq' = "requested"
                 /\ UNCHANGED <<pc, proc, written, read, stored, eof, frames, valid>>
\* select!: the child exited ...
SeeExit == /\ pc = "waiting" /\ proc = "exited" /\ pc' = "joining"
           /\ UNCHANGED <<proc, written, read, stored, eof, cancelReq, frames, valid>>
\* ... or a cancel request was seen first: record it, kill the process group
SeeCancel == /\ pc = "waiting" /\ cancelReq = "requested"
             /\ cancelReq' = "seen" /\ proc' = "killed" /\ pc' = "joining"
             /\ Emit([k |-> "cancel_requested"])
             /\ UNCHANGED <<written, read, stored, eof, valid>>
\* both pumps joined: cancelled frame (if any), terminal status
Finish == /\ pc = "joining" /\ (JoinPumps => \A s \in Streams : eof[s])
          /\ pc' = "ended"
          /\ frames' = frames \o (IF cancelReq = "seen" THEN <<[k |-> "cancelled"], [k |-> "terminal", status |-> "cancelled"]>>
                                                        ELSE <<[k |-> "terminal", status |-> "exited"]>>)
          /\ UNCHANGED <<proc, written, read, stored, eof, cancelReq, valid>>

Next == \/ Validate \/ EmitSpawned \/ AcquireLock \/ Spawn \/ Exit \/ CancelRequest \/ SeeExit \/ SeeCancel \/ Finish
        \/ \E s \in Streams : Write(s) \/ Pump(s) \/ PumpEof(s)
Spec == Init /\ [][Next]_vars /\ WF_vars(Next)

\* ---------------------------------------------------------------- properties
Kinds(k) == {i \in 1..Len(frames) : frames[i].k = k}
Terminal == Kinds("terminal")
\* opens with the spawn frame
OpensWithSpawn == frames # <<>> => frames[1].k = "spawned"
RunningAtMostOnce == Cardinality(Kinds("running")) <= 1
\* exactly one terminal frame, nothing after it
OneTerminalLast == /\ Cardinality(Terminal) <= 1
                   /\ \A i \in Terminal : i = Len(frames)
                   /\ (pc = "ended" /\ (JoinPumps \/ frames[Len(frames)].k = "terminal")) => Cardinality(Terminal) = 1
\* a cancelled status is preceded by the cancellation request
CancelRecordedFirst == \A i \in Terminal : frames[i].status = "cancelled" =>
                          \E j \in Kinds("cancel_requested") : j < i
\* the ranges of one stream are consecutive and non-overlapping, and cover the stored output
OutIdx(s) == {i \in Kinds("out") : frames[i].s = s}
RangesConsecutive == \A s \in Streams : \A i \in OutIdx(s) :
                        frames[i].off = (IF \E j \in OutIdx(s) : j < i
                                           THEN LET p == CHOOSE j \in OutIdx(s) : j < i /\ \A q \in OutIdx(s) : q < i => q <= j
                                                IN frames[p].off + frames[p].n
                                           ELSE 0)
RangesCover == pc = "ended" /\ JoinPumps => \A s \in Streams :
                  stored[s] = (IF OutIdx(s) = {} THEN 0
                               ELSE LET l == CHOOSE j \in OutIdx(s) : \A q \in OutIdx(s) : q <= j IN frames[l].off + frames[l].n)
\* the stored output is the prefix of what the process wrote, up to the cap
StoredIsPrefix == \A s \in Streams : stored[s] = Min(read[s], Cap) /\ read[s] <= written[s]
StoredComplete == pc = "ended" /\ JoinPumps /\ proc \in {"exited", "killed"} => \A s \in Streams : stored[s] = Min(written[s], Cap)
WellFormed == OpensWithSpawn /\ RunningAtMostOnce /\ OneTerminalLast /\ CancelRecordedFirst
              /\ RangesConsecutive /\ RangesCover /\ StoredIsPrefix /\ StoredComplete
Ends == <>(pc = "ended")
=============================================================================
