--------------------------- MODULE WorkspaceLock ---------------------------
(* C11 - the workspace lock of one authority (crates/ripd/src/workspace_lock.rs) and the three
   places that take it:
     session.rs  run_session, InputAction::Tool        (direct tool command)
     session.rs  run_session, InputAction::Checkpoint  (checkpoint create / rewind command)
     session.rs  run_openresponses_agent_loop          (every function call of a provider turn)
     tasks/mod.rs run_task                             (a background shell task, for its whole life)

   An actor runs a program, a sequence of operations:
     "m"  mutating tool call   (write, apply_patch, bash, ... : requires_workspace_lock)
     "c"  checkpoint command   (create / rewind; mutating, no side-effects frame)
     "r"  read-only tool call  (read, ls, grep, artifact_fetch: no lock)
     "p"  the process of a background task (mutating; may be cancelled, also while queued)

   One action per step the code takes with the lock:
     Acquire   workspace_lock.acquire() returned                    (hook ws.acquired)
     Begin     the tool handler / checkpoint hook / child process starts   (tool.exec.begin, ckpt.exec.begin, task.proc.spawned)
     End       ... returned / exited                                 (tool.exec.end, ckpt.exec.end, task.proc.exited)
     LogSE     continuity_tool_side_effects appended to the thread   (log.flushed of that frame)
     Release   the guard is dropped                                  (ws.releasing)
     RunEnd    continuity_run_ended appended                         (log.flushed of that frame)

   Switches reproduce the two designs the property excludes (non-vacuity of the invariants):
     EarlyRelease    actors that drop the guard right after End, before LogSE
     CancelSkipsLock a task cancelled while it waits for the lock goes on without it *)
EXTENDS Naturals, Sequences, FiniteSets, SequencesExt, TLC

CONSTANTS Actors,          \* set of actor ids
          Prog,            \* [Actors -> Seq({"m","c","r","p"})]
          Linked,          \* actors whose run is attached to the thread (their "m" ops owe a side-effects frame)
          Cancellable,     \* tasks that may receive a cancel request
          EarlyRelease,    \* SUBSET Actors
          CancelSkipsLock  \* BOOLEAN

None == 0   \* actors are positive integers
VARIABLES pc,        \* [Actors -> {"idle","wait","held","exec","ran","logged","ro","end"}]
          ip,        \* [Actors -> Nat]  index of the current operation
          holder,    \* Actors \cup {None}
          hasGuard,  \* [Actors -> BOOLEAN]  the actor owns the guard (differs from holder = a only under CancelSkipsLock)
          order,     \* Seq(<<a, i>>)   mutating executions in the order they began
          se,        \* Seq(<<a, i>>)   side-effects frames on the thread, in log order
          cancelled, \* set of tasks with a cancel request
          ended      \* set of actors whose run-ended frame is in the log
vars == <<pc, ip, holder, hasGuard, order, se, cancelled, ended>>

Op(a) == IF ip[a] <= Len(Prog[a]) THEN Prog[a][ip[a]] ELSE "-"
Mutating(o) == o \in {"m", "c", "p"}
OwesSE(a, i) == a \in Linked /\ Prog[a][i] = "m"

Init == /\ pc = [a \in Actors |-> "idle"]
        /\ ip = [a \in Actors |-> 1]
        /\ holder = None
        /\ hasGuard = [a \in Actors |-> FALSE]
        /\ order = <<>> /\ se = <<>> /\ cancelled = {} /\ ended = {}

\* ---- read-only tools never touch the lock
RoBegin(a) == /\ pc[a] = "idle" /\ Op(a) = "r"
              /\ pc' = [pc EXCEPT ![a] = "ro"]
              /\ UNCHANGED <<ip, holder, hasGuard, order, se, cancelled, ended>>
RoEnd(a) == /\ pc[a] = "ro"
            /\ pc' = [pc EXCEPT ![a] = "idle"] /\ ip' = [ip EXCEPT ![a] = @ + 1]
            /\ UNCHANGED <<holder, hasGuard, order, se, cancelled, ended>>

\* ---- mutating operations
Request(a) == /\ pc[a] = "idle" /\ Mutating(Op(a))
              /\ pc' = [pc EXCEPT ![a] = "wait"]
              /\ UNCHANGED <<ip, holder, hasGuard, order, se, cancelled, ended>>
Acquire(a) == /\ pc[a] = "wait" /\ holder = None
              /\ holder' = a /\ hasGuard' = [hasGuard EXCEPT ![a] = TRUE]
              /\ pc' = [pc EXCEPT ![a] = "held"]
              /\ UNCHANGED <<ip, order, se, cancelled, ended>>
Begin(a) == /\ pc[a] = "held"
            /\ pc' = [pc EXCEPT ![a] = "exec"]
            /\ order' = Append(order, <<a, ip[a]>>)
            /\ UNCHANGED <<ip, holder, hasGuard, se, cancelled, ended>>
End(a) == /\ pc[a] = "exec"
          /\ pc' = [pc EXCEPT ![a] = "ran"]
          /\ UNCHANGED <<ip, holder, hasGuard, order, se, cancelled, ended>>
\* the guard of an EarlyRelease actor is dropped here, before the frame is logged
DropEarly(a) == /\ pc[a] = "ran" /\ a \in EarlyRelease /\ hasGuard[a]
                /\ holder' = None /\ hasGuard' = [hasGuard EXCEPT ![a] = FALSE]
                /\ UNCHANGED <<pc, ip, order, se, cancelled, ended>>
LogSE(a) == /\ pc[a] = "ran" /\ OwesSE(a, ip[a])
            /\ (a \in EarlyRelease => ~hasGuard[a])
            /\ se' = Append(se, <<a, ip[a]>>)
            /\ pc' = [pc EXCEPT ![a] = "logged"]
            /\ UNCHANGED <<ip, holder, hasGuard, order, cancelled, ended>>
Release(a) == /\ \/ pc[a] = "logged"
                 \/ pc[a] = "ran" /\ ~OwesSE(a, ip[a])
              /\ holder' = IF hasGuard[a] THEN None ELSE holder
              /\ hasGuard' = [hasGuard EXCEPT ![a] = FALSE]
              /\ pc' = [pc EXCEPT ![a] = "idle"] /\ ip' = [ip EXCEPT ![a] = @ + 1]
              /\ UNCHANGED <<order, se, cancelled, ended>>
RunEnd(a) == /\ pc[a] = "idle" /\ ip[a] > Len(Prog[a]) /\ a \notin ended
             /\ ended' = ended \cup {a} /\ pc' = [pc EXCEPT ![a] = "end"]
             /\ UNCHANGED <<ip, holder, hasGuard, order, se, cancelled>>
\* ---- a cancel request for a task: recorded; the runner only looks at it after it spawned the child
Cancel(a) == /\ Op(a) = "p" /\ a \in Cancellable /\ a \notin cancelled /\ pc[a] \in {"wait", "held", "exec"}
             /\ cancelled' = cancelled \cup {a}
             /\ IF CancelSkipsLock /\ pc[a] = "wait"
                  THEN pc' = [pc EXCEPT ![a] = "held"]       \* goes on without the guard
                  ELSE pc' = pc
             /\ UNCHANGED <<ip, holder, hasGuard, order, se, ended>>

Next == \E a \in Actors : \/ RoBegin(a) \/ RoEnd(a) \/ Request(a) \/ Acquire(a) \/ Begin(a) \/ End(a)
                          \/ DropEarly(a) \/ LogSE(a) \/ Release(a) \/ RunEnd(a) \/ Cancel(a)
Spec == Init /\ [][Next]_vars /\ WF_vars(Next)

\* ---------------------------------------------------------------- properties
TypeOK == /\ pc \in [Actors -> {"idle", "wait", "held", "exec", "ran", "logged", "ro", "end"}]
          /\ holder \in Actors \cup {None}
\* no two mutating executions in progress at once
NoOverlap == \A a, b \in Actors : (a # b) => ~(pc[a] = "exec" /\ pc[b] = "exec")
\* mechanism: who is between Acquire and Release owns the lock
LockDiscipline == \A a \in Actors : pc[a] \in {"held", "exec", "ran", "logged"} => holder = a
OwedOrder == SelectSeq(order, LAMBDA p : OwesSE(p[1], p[2]))
\* the frames on the thread are the owed mutations, in the order they really happened;
\* at most the one still inside its critical section is missing
OrderAgrees == /\ IsPrefix(se, OwedOrder)
               /\ Len(OwedOrder) - Len(se) <= 1
\* weaker form that does not depend on the lock: whatever is logged is in mutation order
OrderAgreesWeak == \A i, j \in 1..Len(se) : i < j =>
                     \E k, m \in 1..Len(order) : k < m /\ order[k] = se[i] /\ order[m] = se[j]
SEOnce == \A i, j \in 1..Len(se) : se[i] = se[j] => i = j
SEAfterEnd == \A i \in 1..Len(se) : \E k \in 1..Len(order) : order[k] = se[i]
SEBeforeRunEnd == \A a \in ended : \A i \in 1..Len(Prog[a]) :
                     OwesSE(a, i) => \E k \in 1..Len(se) : se[k] = <<a, i>>
\* read-only tools are never blocked
ReadOnlyFree == \A a \in Actors : (pc[a] = "idle" /\ Op(a) = "r") => ENABLED RoBegin(a)
Safe == NoOverlap /\ LockDiscipline /\ OrderAgrees /\ SEOnce /\ SEAfterEnd /\ SEBeforeRunEnd /\ ReadOnlyFree
\* every actor finishes (no deadlock on the lock, cancelled tasks included)
AllEnd == <>(\A a \in Actors : pc[a] = "end")
=============================================================================
