SPECIFICATION Spec
CONSTANTS
  MaxLen = 4
  Alphabet = {"n", "r", "D", "E", "c", "s", "x", "y", "z"}
INVARIANT Emit
CHECK_DEADLOCK FALSE
