SPECIFICATION TSpec
INVARIANTS Report
POSTCONDITION Accepted
CHECK_DEADLOCK FALSE
