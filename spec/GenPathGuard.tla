---------------------------------- MODULE GenPathGuard ----------------------------------
EXTENDS PathGuard, Json
Emit == op # "none" => PrintT(<<"CASE", ToJson([shape |-> shape, op |-> op, refused |-> Refused(op, shape)])>>)
=========================================================================================
