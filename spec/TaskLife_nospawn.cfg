SPECIFICATION Spec
CONSTANTS
  Streams = {"stdout", "stderr"}
  MaxWrite = 2
  ReadMax = 2
  Cap = 2
  Preview = 1
  SpawnFirst = FALSE
  JoinPumps = TRUE
  SkipEmpty = FALSE
INVARIANTS WellFormed
PROPERTIES Ends
CHECK_DEADLOCK FALSE
