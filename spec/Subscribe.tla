---------------------------------- MODULE Subscribe ----------------------------------
(* C06: a stream subscriber sees every frame exactly once, in order.

   Producer of stream A, per frame i (two steps, order set by RecordFirst):
     Rec(i)  the frame is in the replayable history (session/task: in-memory buffer; thread: log + sidecar)
     Pub(i)  the frame is sent on the broadcast channel (delivered to receivers subscribed at that moment)
   session / task emitters as implemented at the pinned commit: Pub then Rec (RecordFirst = FALSE, finding D4);
   threads (and the repaired emitters): Rec then Pub.
   Subscriber (server.rs stream handlers): Sub (subscribe to the channel) then Snap (copy the history);
   it delivers the history, then every live frame of ITS stream with seq > last history seq.
   Thread streams share ONE channel: frames of another stream B travel on it too (SharedChannel). *)
EXTENDS Integers, Sequences, FiniteSets, TLC

CONSTANTS N,             \* frames of stream A
          NB,            \* frames of another stream B on the same channel (0 = private channel)
          B0,            \* seq of B's first frame (another thread may be much longer than A)
          RecordFirst,   \* TRUE: Rec then Pub;  FALSE: Pub then Rec
          PreRecorded    \* frames of A recorded and published before anything else (history exists at attach)

VARIABLES hist,      \* recorded history of A (sequence of seqs)
          chan,      \* what the subscriber's receiver got since Sub: sequence of <<stream, seq>>
          pp,        \* producer A: <<next frame, "a" | "b">>
          pb,        \* producer B: next frame index
          sp,        \* subscriber: "idle" | "subscribed" | "streaming"
          snap,      \* subscriber's copy of the history
          trace      \* the steps taken (for replay on the implementation)
vars == <<hist, chan, pp, pb, sp, snap, trace>>

Init == /\ hist = [i \in 1..PreRecorded |-> i - 1]
        /\ chan = <<>> /\ pp = <<PreRecorded, "a">> /\ pb = 0 /\ sp = "idle" /\ snap = <<>> /\ trace = <<>>

Subscribed == sp # "idle"
DoRec(i) == hist' = Append(hist, i) /\ UNCHANGED chan
DoPub(i) == chan' = (IF Subscribed THEN Append(chan, <<"A", i>>) ELSE chan) /\ UNCHANGED hist
Step(a, p) == trace' = Append(trace, [a |-> a, p |-> p])

PA == /\ pp[1] < N /\ pp[2] = "a"
      /\ (IF RecordFirst THEN DoRec(pp[1]) /\ Step("P", "rec") ELSE DoPub(pp[1]) /\ Step("P", "pub"))
      /\ pp' = <<pp[1], "b">> /\ UNCHANGED <<pb, sp, snap>>
PB == /\ pp[1] < N /\ pp[2] = "b"
      /\ (IF RecordFirst THEN DoPub(pp[1]) /\ Step("P", "pub") ELSE DoRec(pp[1]) /\ Step("P", "rec"))
      /\ pp' = <<pp[1] + 1, "a">> /\ UNCHANGED <<pb, sp, snap>>
\* another stream's frame on the shared channel
Other == /\ pb < NB
         /\ chan' = (IF Subscribed THEN Append(chan, <<"B", B0 + pb>>) ELSE chan)
         /\ pb' = pb + 1 /\ Step("Q", "other") /\ UNCHANGED <<hist, pp, sp, snap>>
Sub  == sp = "idle" /\ sp' = "subscribed" /\ Step("S", "sub") /\ UNCHANGED <<hist, chan, pp, pb, snap>>
Snap == sp = "subscribed" /\ sp' = "streaming" /\ snap' = hist /\ Step("S", "snap")
        /\ UNCHANGED <<hist, chan, pp, pb>>
Next == PA \/ PB \/ Other \/ Sub \/ Snap
Spec == Init /\ [][Next]_vars

LastOf(s) == IF s = <<>> THEN -1 ELSE s[Len(s)]
\* what the handler delivers: the history, then live frames of A above the last history seq
Delivered == snap \o [i \in 1..Len(SelectSeq(chan, LAMBDA f : f[1] = "A" /\ f[2] > LastOf(snap))) |->
                        SelectSeq(chan, LAMBDA f : f[1] = "A" /\ f[2] > LastOf(snap))[i][2]]
Quiescent == pp[1] = N /\ pb = NB /\ sp = "streaming"
ExactlyOnce == Quiescent => Delivered = [i \in 1..N |-> i - 1]
\* at every moment the delivered sequence is duplicate-free and increasing
Ordered == sp = "streaming" => \A i \in 1..(Len(Delivered) - 1) : Delivered[i] < Delivered[i + 1]
======================================================================================
