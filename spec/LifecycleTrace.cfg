SPECIFICATION Spec
INVARIANTS Report
POSTCONDITION Accepted
CHECK_DEADLOCK FALSE
