SPECIFICATION Spec
CONSTANTS
  MaxSteps = 4
  AsImplemented = TRUE
  Files = {"full", "seek", "msgidx", "mr", "mrseek", "mrmsg", "mrord", "comp", "compidx"}
  FaultKinds = {"delete", "truncate", "garbage", "empty", "rollback"}
INVARIANTS TypeOK Transparent
CHECK_DEADLOCK FALSE
