SPECIFICATION GSpec
CONSTANTS
  Writers = {"w1", "w2"}
  Root = "root"
  Child = "child"
  Sessions = {}
  MaxLog = 8
  MaxCrash = 0
  EnableBranch = TRUE
  SidecarNextSeq = TRUE
  LineageLocked = FALSE
  LockedLineage = TRUE
  SecondInput = TRUE
  Tasks = {}
  TaskGuarded = TRUE
  Cold = TRUE
  Guarded = FALSE
  OpOf <- OpOfA
INVARIANT Emit
CHECK_DEADLOCK FALSE
