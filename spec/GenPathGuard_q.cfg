SPECIFICATION Spec
CONSTANTS
  MaxComps = 2
  Comps = {"a", "sub", "new", "..", ".", "", "long", "uni", "bs_up", "bs_abs"}
  Ops = {"read", "write", "ls", "grep", "apply_patch", "ckpt_create", "ckpt_rewind", "shell_cwd", "task_cwd"}
INVARIANTS Emit GuardSound
CHECK_DEADLOCK FALSE
