SPECIFICATION Spec
CONSTANTS
  Streams = {"stdout", "stderr"}
  MaxWrite = 3
  ReadMax = 2
  Cap = 2
  Preview = 0
  SpawnFirst = TRUE
  JoinPumps = TRUE
  SkipEmpty = FALSE
INVARIANTS WellFormed
PROPERTIES Ends
CHECK_DEADLOCK FALSE
