SPECIFICATION CSpec
CONSTANTS
  Procs = {"p1", "p2"}
  Clients = {"c1", "c2"}
  Dead = "dead"
  Resident = "res"
  StartStates = {"dead_partial_meta"}
  MaxRetries = 2
  DeadlineFails = FALSE
  AsImplemented = FALSE
  OrphanMetaKept = FALSE
  CorruptIgnoresMeta = FALSE
  MayRelease = FALSE
  DropBeforeDrain = FALSE
  GraceTimer = "oracle"
INVARIANTS CSafe
PROPERTIES ClientsAttach
CHECK_DEADLOCK FALSE
