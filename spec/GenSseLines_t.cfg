SPECIFICATION Spec
CONSTANTS
  MaxLen = 5
  Alphabet = {"n", "r", "D", "E", "c", "s", "x", "y", "z"}
INVARIANT Emit
CHECK_DEADLOCK FALSE
