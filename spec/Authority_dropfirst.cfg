SPECIFICATION Spec
CONSTANTS
  Procs <- P3
  Dead = "dead"
  Resident = "res"
  StartStates <- AllStarts
  MaxRetries = 2
  DeadlineFails = TRUE
  AsImplemented = FALSE
  OrphanMetaKept = FALSE
  CorruptIgnoresMeta = FALSE
  MayRelease = TRUE
  DropBeforeDrain = TRUE
INVARIANTS AtMostOneActing
CHECK_DEADLOCK FALSE
