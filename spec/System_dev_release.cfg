SPECIFICATION Spec
CONSTANTS
  Strict = TRUE
  Deviation = "release_before_effects_frame"
  Runs <- MCRuns
  Jobs <- MCJobs
  Tasks <- MCTasks
  ThreadOf <- MCThreadOfShared
INVARIANTS FrameOrder
VIEW MCView
CHECK_DEADLOCK FALSE
