------------------------------------- MODULE Utf8 -------------------------------------
(* C15, byte stage: session.rs push_bytes (the UTF-8 carry in front of the SSE decoder) at the
   grain of byte classes: "a" ASCII, "l2" "l3" "l4" lead bytes, "c" continuation, "x" never-valid.
   Reference = whole-stream lossy decode (maximal invalid subpart -> one U+FFFD, a trailing
   incomplete sequence is kept pending).  The chunked decoder carries the undecoded tail.
   ChunkInvariant: every partition gives the reference output.
   AsImplemented = TRUE transcribes the pinned commit (finding D8): an invalid unit at the START
   of the buffer is consumed one byte at a time instead of by its error length. *)
EXTENDS Integers, Sequences, FiniteSets, TLC
CONSTANTS MaxLen, AsImplemented, Classes
Need(b) == CASE b = "l2" -> 1 [] b = "l3" -> 2 [] b = "l4" -> 3 [] OTHER -> 0
Unit(s, i) ==
  LET b == s[i] IN
  IF b = "a" THEN [kind |-> "ok", len |-> 1]
  ELSE IF b \in {"c", "x"} THEN [kind |-> "bad", len |-> 1]
  ELSE LET n == Need(b)
           RECURSIVE Cnt(_)
           Cnt(j) == IF j < n /\ i + j + 1 <= Len(s) /\ s[i + j + 1] = "c" THEN Cnt(j + 1) ELSE j
           k == Cnt(0)
       IN IF k = n THEN [kind |-> "ok", len |-> n + 1]
          ELSE IF i + k + 1 > Len(s) THEN [kind |-> "inc", len |-> k + 1]
          ELSE [kind |-> "bad", len |-> k + 1]
Out(u, b) == IF u.kind = "bad" THEN "R" ELSE IF b = "a" THEN "A" ELSE "U"
RECURSIVE Ref(_, _)
Ref(s, i) == IF i > Len(s) THEN <<>>
             ELSE LET u == Unit(s, i) IN
                  IF u.kind = "inc" THEN <<>> ELSE <<Out(u, s[i])>> \o Ref(s, i + u.len)
RECURSIVE Push(_, _)
Push(buf, atStart) ==
  IF buf = <<>> THEN [out |-> <<>>, carry |-> <<>>]
  ELSE LET u == Unit(buf, 1) IN
       IF u.kind = "inc" THEN [out |-> <<>>, carry |-> buf]
       ELSE IF u.kind = "ok" THEN
              LET r == Push(SubSeq(buf, u.len + 1, Len(buf)), FALSE) IN [out |-> <<Out(u, buf[1])>> \o r.out, carry |-> r.carry]
       ELSE LET take == IF AsImplemented /\ atStart THEN 1 ELSE u.len
                r == Push(SubSeq(buf, take + 1, Len(buf)), AsImplemented /\ atStart) IN
            [out |-> <<"R">> \o r.out, carry |-> r.carry]
VARIABLES stream, cuts, done
Init == stream = <<>> /\ cuts = {} /\ done = FALSE
Grow == ~done /\ Len(stream) < MaxLen /\ \E b \in Classes : stream' = Append(stream, b) /\ UNCHANGED <<cuts, done>>
Cut == ~done /\ stream # <<>> /\ \E C \in SUBSET (1..(Len(stream) - 1)) : cuts' = C /\ done' = TRUE /\ UNCHANGED stream
Next == Grow \/ Cut
Spec == Init /\ [][Next]_<<stream, cuts, done>>
RECURSIVE Feed(_, _, _, _)
Feed(s, from, carry, CC) ==
  IF from > Len(s) THEN <<>>
  ELSE LET nexts == {c \in CC : c >= from}
           to == IF nexts = {} THEN Len(s) ELSE CHOOSE c \in nexts : \A d \in nexts : c <= d
           r == Push(carry \o SubSeq(s, from, to), TRUE) IN
       r.out \o Feed(s, to + 1, r.carry, CC)
ChunkInvariant == done => Feed(stream, 1, <<>>, cuts) = Feed(stream, 1, <<>>, {})
MatchesLossy == done => Feed(stream, 1, <<>>, cuts) = Ref(stream, 1)
=======================================================================================
