--------------------------- MODULE ReplicasTrace ---------------------------
(* One event per stream of a recorded scenario: the frames of each copy, as digests of their
   canonical JSON, in the order of that copy.  The predicates of Replicas are evaluated on them. *)
EXTENDS Naturals, Sequences, SequencesExt, TLC, Json, IOUtils
Rec == ndJsonDeserialize(IOEnv.TRACE)
VARIABLES l, bad
TInit == l = 1 /\ bad = {}
RangeS(q) == {q[i] : i \in 1..Len(q)}
Checks(r) == {<<r.live = r.log, "LiveIsLog">>,
              <<r.late = r.log, "LateSubscriberIsLog">>,
              \* after a restart with a damaged sidecar (last line cut short = crash after the log flush; first / middle line lost;
              \* last line twice; only the newest lines left) the thread still reads as the log
              <<r.has_fault => r.late_after_fault = r.log, "LateSubscriberAfterSidecarFaultIsLog">>,
              \* while a stream is idle in the middle of its life, what its live subscriber holds is in the log file (Replicas!NothingExtra at Quiet)
              <<RangeS(r.quiet_live) \subseteq RangeS(r.quiet_log), "QuietLiveIsInLog">>,
              <<r.replayed = r.log, "ReplayedIsRawLog">>,
              <<r.has_sidecar => (IsPrefix(r.sidecar, r.log) /\ r.sidecar_settled => r.sidecar = r.log), "SidecarIsLog">>,
              <<r.has_snapshot => r.snapshot = r.log, "SnapshotIsLog">>,
              <<RangeS(r.live) \subseteq RangeS(r.log) /\ (r.has_snapshot => RangeS(r.snapshot) \subseteq RangeS(r.log))
                /\ (r.has_sidecar => RangeS(r.sidecar) \subseteq RangeS(r.log)), "NothingExtra">>,
              <<r.seqs = [i \in 1..Len(r.seqs) |-> i - 1], "SeqContiguous">>,
              <<r.ended => r.has_snapshot \/ r.kind = "thread", "SnapshotWritten">>}
TStream == /\ l <= Len(Rec) /\ l' = l + 1
           /\ LET r == Rec[l] IN bad' = bad \cup {<<r.case, r.stream, c[2]>> : c \in {d \in Checks(r) : ~d[1]}}
TSpec == TInit /\ [][TStream]_<<l, bad>>
Report == IF l = Len(Rec) + 1 THEN PrintT(<<"BAD", ToJson(bad)>>) ELSE TRUE
Accepted == LET d == TLCGet("stats").diameter IN
            d - 1 = Len(Rec) \/ PrintT(<<"REJECTED", ToJson([at |-> d])>>)
=============================================================================
