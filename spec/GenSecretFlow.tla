--------------------------- MODULE GenSecretFlow ---------------------------
EXTENDS SecretFlow, Json
GenCase == PrintT(<<"CASE", ToJson([key |-> key, hdr |-> hdr, select |-> select, envkey |-> envkey, openai |-> openai, bad |-> bad, endpoint_known |-> EndpointKnown,
                                    has |-> HasKey, source |-> Source, headers |-> HeaderNames, eff |-> EffectiveKey, doctor |-> DoctorReport])>>)
=============================================================================
