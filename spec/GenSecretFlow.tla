--------------------------- MODULE GenSecretFlow ---------------------------
EXTENDS SecretFlow, Json
GenCase == PrintT(<<"CASE", ToJson([key |-> key, hdr |-> hdr, select |-> select, envkey |-> envkey, openai |-> openai,
                                    has |-> HasKey, source |-> Source, headers |-> HeaderNames, eff |-> EffectiveKey, doctor |-> DoctorReport])>>)
=============================================================================
