---------------------------------- MODULE GenCache ----------------------------------
EXTENDS StoreCache, Json, SequencesExt
View == st
Emit == PrintT(<<"CASE", ToJson([path |-> hist, st |-> st, transparent |-> Transparent,
                                 culprits |-> SetToSeq(Culprits)])>>)
======================================================================================
