SPECIFICATION Spec
CONSTANTS
  Streams = {"s1", "t1", "k1"}
  Threads = {"t1"}
  MaxFrames = 3
  AppendMayFail = TRUE
INVARIANTS Same
CHECK_DEADLOCK FALSE
