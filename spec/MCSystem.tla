------------------------------ MODULE MCSystem ------------------------------
EXTENDS System
MCRuns == {"r1", "r2"}
MCJobs == {"j1"}
MCTasks == {"k1"}
MCThreadOf == [a \in {"r1", "r2", "j1", "k1"} |-> IF a = "r2" THEN "T2" ELSE "T1"]
MCThreadOfShared == [a \in {"r1", "r2", "j1", "k1"} |-> "T1"]
\* the design has no lineage actor: `mwhere` (where a message's frame sits) is only read by the lineage guards and
\* never influences a step here, so it is hidden from the fingerprint
MCView == <<cnt, msgs, run, sess, job, task, creq, cached, recd, execs, tend, bad, dvars>>
=============================================================================
