------------------------------ MODULE MCSystem ------------------------------
EXTENDS System
MCRuns == {"r1", "r2"}
MCJobs == {"j1"}
MCTasks == {"k1"}
MCThreadOf == [a \in {"r1", "r2", "j1", "k1"} |-> IF a = "r2" THEN "T2" ELSE "T1"]
MCThreadOfShared == [a \in {"r1", "r2", "j1", "k1"} |-> "T1"]
=============================================================================
