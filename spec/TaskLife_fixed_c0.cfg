SPECIFICATION Spec
CONSTANTS
  Streams = {"stdout", "stderr"}
  MaxWrite = 3
  ReadMax = 2
  Cap = 0
  Preview = 1
  SpawnFirst = TRUE
  JoinPumps = TRUE
  SkipEmpty = FALSE
INVARIANTS WellFormed
PROPERTIES Ends
CHECK_DEADLOCK FALSE
