SPECIFICATION Spec
INVARIANTS GenCase
CHECK_DEADLOCK FALSE
