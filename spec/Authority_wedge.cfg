SPECIFICATION Spec
CONSTANTS
  Procs <- P3
  Dead = "dead"
  Resident = "res"
  StartStates <- AllStarts
  MaxRetries = 2
  DeadlineFails = TRUE
  AsImplemented = FALSE
  OrphanMetaKept = FALSE
  CorruptIgnoresMeta = TRUE
  MayRelease = TRUE
  DropBeforeDrain = FALSE
INVARIANTS Safe HolderOwnsLock LiveResidentKept
PROPERTIES Usable
CHECK_DEADLOCK FALSE
