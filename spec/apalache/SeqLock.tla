------------------------------- MODULE SeqLock -------------------------------
(* The numbering protocol of one stream (ContinuityStore's next_seq mutex, TaskEmitter's seq lock),
   for ANY number of writers and ANY log length: a writer takes the mutex, chooses next, writes the
   line, advances next, releases.  `ok` is the GapFree step predicate of LogTrace / System.tla
   (the seq of every line written equals the number of lines before it).  Apalache proves that
   IndInv is inductive (Init => IndInv at length 0; IndInv /\ Next => IndInv' at length 1) and
   implies ok - unbounded in the number of frames, which TLC's bounded runs of StoreSeq cannot give.
   `Narrow = TRUE` is the seeded change C01-1 / C06-2 (the mutex is dropped between choosing and
   writing): Apalache then reports that the invariant is not inductive. *)
EXTENDS Integers
CONSTANTS
  \* @type: Set(Str);
  Writers,
  \* @type: Bool;
  Narrow
VARIABLES
  \* @type: Int;
  next,
  \* @type: Int;
  len,
  \* @type: Str;
  holder,
  \* @type: Str -> Str;
  pc,
  \* @type: Str -> Int;
  seq,
  \* @type: Bool;
  ok
vars == <<next, len, holder, pc, seq, ok>>

ConstInit3 == Writers = {"w1", "w2", "w3"} /\ Narrow = FALSE
ConstInit3Narrow == Writers = {"w1", "w2", "w3"} /\ Narrow = TRUE

Init == /\ next = 0 /\ len = 0 /\ holder = "" /\ ok = TRUE
        /\ pc = [w \in Writers |-> "idle"] /\ seq = [w \in Writers |-> 0]

Lock(w)   == /\ pc[w] = "idle" /\ holder = "" /\ holder' = w /\ pc' = [pc EXCEPT ![w] = "locked"]
             /\ UNCHANGED <<next, len, seq, ok>>
Choose(w) == /\ pc[w] = "locked" /\ seq' = [seq EXCEPT ![w] = next] /\ pc' = [pc EXCEPT ![w] = "chosen"]
             /\ holder' = (IF Narrow THEN "" ELSE holder)
             /\ UNCHANGED <<next, len, ok>>
Write(w)  == /\ pc[w] = "chosen" /\ ok' = (ok /\ seq[w] = len) /\ len' = len + 1
             /\ pc' = [pc EXCEPT ![w] = "written"] /\ UNCHANGED <<next, holder, seq>>
Advance(w) == /\ pc[w] = "written" /\ next' = seq[w] + 1 /\ holder' = "" /\ pc' = [pc EXCEPT ![w] = "idle"]
              /\ UNCHANGED <<len, seq, ok>>
\* the process dies anywhere; the restarted authority recovers next from the truth log (the repaired D1)
Crash == /\ holder' = "" /\ pc' = [w \in Writers |-> "idle"] /\ next' = len /\ UNCHANGED <<len, seq, ok>>
Next == Crash \/ \E w \in Writers : Lock(w) \/ Choose(w) \/ Write(w) \/ Advance(w)

TypeOK == /\ next \in Int /\ len \in Int /\ holder \in Writers \cup {""} /\ ok \in BOOLEAN
          /\ pc \in [Writers -> {"idle", "locked", "chosen", "written"}] /\ seq \in [Writers -> Int]
IndInv == /\ TypeOK /\ ok /\ len >= 0
          /\ \A w \in Writers : pc[w] # "idle" => holder = w
          /\ holder # "" => pc[holder] # "idle"
          /\ (holder = "" \/ pc[holder] \in {"locked", "chosen"}) => next = len
          /\ \A w \in Writers : pc[w] = "chosen" => seq[w] = len
          /\ \A w \in Writers : pc[w] = "written" => (seq[w] = len - 1 /\ next = len - 1)
IndInit == IndInv
GapFree == ok
=============================================================================
