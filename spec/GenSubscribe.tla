--------------------------------- MODULE GenSubscribe ---------------------------------
EXTENDS Subscribe, Json
Emit == Quiescent => PrintT(<<"CASE", ToJson([sched |-> trace, delivered |-> Delivered,
                                               ok |-> (Delivered = [i \in 1..N |-> i - 1])])>>)
=======================================================================================
