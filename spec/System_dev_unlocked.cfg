SPECIFICATION Spec
CONSTANTS
  Strict = TRUE
  Deviation = "cancelled_queued_task_runs_unlocked"
  Runs <- MCRuns
  Jobs <- MCJobs
  Tasks <- MCTasks
  ThreadOf <- MCThreadOfShared
INVARIANTS NoOverlap
VIEW MCView
CHECK_DEADLOCK FALSE
