SPECIFICATION TSpec
INVARIANT Good
POSTCONDITION Accepted
CHECK_DEADLOCK FALSE
