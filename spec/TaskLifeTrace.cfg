SPECIFICATION TSpec
CONSTANTS
  Streams = {"stdout", "stderr"}
  MaxWrite = 0
  ReadMax = 0
  Cap = 0
  Preview = 0
  SpawnFirst = TRUE
  JoinPumps = TRUE
  SkipEmpty = FALSE
INVARIANTS Report
POSTCONDITION Accepted
CHECK_DEADLOCK FALSE
