------------------------------------ MODULE RunLoop ------------------------------------
(* C07 / C16: the run lifecycle and the tool loop of ripd/src/session.rs as a function of the
   provider's behaviour.  A provider script is a sequence of responses (one per request); a
   response has an outcome and a sequence of function-call items.  Run(cfg, script) folds the
   agent loop over the script and yields what the properties constrain:
     reason      the run's terminal reason
     nreq        number of requests sent
     executed    the calls executed, in order  (<<call id, tool>>)
     answered    per follow-up request the call ids answered, in order
     thread      the frame kinds the run appends to its thread, in order
   Deviations of the pinned commit are switches:
     DedupDone = FALSE   a repeated output_item.done for one call id is collected twice (D18) *)
EXTENDS Integers, Sequences, FiniteSets, TLC

CONSTANTS MaxResponses, MaxCalls, MaxToolCalls, DedupDone, Outcomes, Calls, Choices, Modes

\* a call item: [cid, tool, idx (output_index), dup (done event sent twice)]
\* a response: [outcome, rid (carries a response id), calls]
\* outcomes: "done" (ends with [DONE]), "eof" (clean end without [DONE]), "http500", "drop" (connection reset
\*           mid-body), "empty" (200 with an empty body), "junk_done" (malformed + schema-invalid events, then [DONE])
ReadOnly == {"read", "ls", "grep", "artifact_fetch"}
Allowed(choice, tool) ==
    CASE choice \in {"none", "allowed_hosted_only"} -> FALSE       \* an allow-list without any function entry bars every function
      [] choice = "fn_ls" -> tool = "ls"
      [] choice = "allowed_write" -> tool = "write"
      [] OTHER -> TRUE                                  \* auto, required
\* collected calls of one response: a repeated done event (same call id at the same output position) counts once;
\* two different items that share a call id (gateways that emit a constant id) are two calls; order = output_index (stable)
RECURSIVE Dedup(_, _, _)
Dedup(cs, i, seen) == IF i > Len(cs) THEN <<>>
                      ELSE IF <<cs[i].cid, cs[i].idx>> \in seen THEN Dedup(cs, i + 1, seen)
                      ELSE <<cs[i]>> \o Dedup(cs, i + 1, seen \cup {<<cs[i].cid, cs[i].idx>>})
RECURSIVE Expand(_, _)
Expand(cs, i) == IF i > Len(cs) THEN <<>>
                 ELSE (IF cs[i].dup THEN <<cs[i], cs[i]>> ELSE <<cs[i]>>) \o Expand(cs, i + 1)
RECURSIVE InsertSorted(_, _)
InsertSorted(sorted, c) == IF sorted = <<>> THEN <<c>>
                           ELSE IF c.idx < sorted[1].idx THEN <<c>> \o sorted
                           ELSE <<sorted[1]>> \o InsertSorted(SubSeq(sorted, 2, Len(sorted)), c)
RECURSIVE SortIdx(_, _, _)
SortIdx(cs, i, acc) == IF i > Len(cs) THEN acc ELSE SortIdx(cs, i + 1, InsertSorted(acc, cs[i]))
Collected(r) == LET ex == Expand(r.calls, 1)
                    d  == IF DedupDone THEN Dedup(ex, 1, {}) ELSE ex IN
                SortIdx(d, 1, <<>>)
Streams(o) == o \in {"done", "eof", "junk_done"}       \* the body was consumed to a normal end

\* the loop: st = [k (next response), prev (has a response id), count, executed, answered, thread, nreq]
RECURSIVE Loop(_, _, _)
Loop(cfg, script, st) ==
    IF st.count >= MaxToolCalls THEN [st EXCEPT !.reason = "max_tool_calls_exceeded"]
    ELSE IF st.k > Len(script) THEN [st EXCEPT !.reason = "script_exhausted"]
    ELSE LET r == script[st.k]
             st1 == [st EXCEPT !.nreq = @ + 1, !.k = @ + 1] IN
         IF ~Streams(r.outcome) THEN [st1 EXCEPT !.reason = "provider_error"]
         ELSE LET prev == r.rid \/ st.prev
                  calls == Collected(r) IN
              IF calls = <<>> THEN [st1 EXCEPT !.reason = "completed", !.prev = prev]
              ELSE IF ~prev /\ ~cfg.stateless THEN [st1 EXCEPT !.reason = "provider_error", !.prev = prev]
              ELSE LET RECURSIVE Exec(_, _)
                       Exec(i, s) ==
                           IF i > Len(calls) THEN s
                           ELSE IF s.count >= MaxToolCalls THEN [s EXCEPT !.reason = "max_tool_calls_exceeded"]
                           ELSE LET c == calls[i]
                                    ok == Allowed(cfg.choice, c.tool)
                                    s2 == [s EXCEPT !.count = @ + 1,
                                                    !.executed = IF ok THEN Append(@, <<c.cid, c.tool>>) ELSE @,
                                                    !.thread = IF ok /\ c.tool \notin ReadOnly /\ cfg.linked THEN Append(@, "side_effects") ELSE @,
                                                    !.cur = Append(@, c.cid), !.curk = Append(@, <<c.cid, c.idx>>)] IN
                                Exec(i + 1, s2)
                       s3 == Exec(1, [st1 EXCEPT !.prev = prev, !.cur = <<>>, !.curk = <<>>]) IN
                   IF s3.reason # "" THEN [s3 EXCEPT !.answeredk = Append(@, s3.curk)]
                   ELSE Loop(cfg, script, [s3 EXCEPT !.answered = Append(@, s3.cur), !.answeredk = Append(@, s3.curk)])

Run(cfg, script) ==
    LET st0 == [k |-> 1, prev |-> FALSE, count |-> 0, executed |-> <<>>, answered |-> <<>>, cur |-> <<>>, curk |-> <<>>, answeredk |-> <<>>,
                thread |-> IF cfg.linked THEN <<"message", "run_spawned", "selection_decided", "context_compiled">> ELSE <<>>,
                nreq |-> 0, reason |-> ""]
        fin == Loop(cfg, script, st0)
        th  == IF ~cfg.linked THEN <<>>
               \* a request beyond the script is answered by the provider's default (a clean, empty [DONE] response): the run completes
               ELSE fin.thread \o (IF fin.reason \in {"completed", "script_exhausted"} /\ fin.prev THEN <<"cursor_updated">> ELSE <<>>)
                               \o <<"run_ended">> IN
    [reason |-> fin.reason, nreq |-> fin.nreq, executed |-> fin.executed, answered |-> fin.answered, thread |-> th, groups |-> fin.answeredk]

VARIABLES script, cfg
Init == script = <<>> /\ cfg \in [choice : Choices, stateless : Modes, linked : {TRUE}]
AddResponse == Len(script) < MaxResponses
               /\ \E o \in Outcomes, rid \in BOOLEAN, n \in 0..MaxCalls :
                    \E cs \in [1..n -> Calls] :
                       script' = Append(script, [outcome |-> o, rid |-> rid, calls |-> cs]) /\ UNCHANGED cfg
Next == AddResponse
Spec == Init /\ [][Next]_<<script, cfg>>

(* ---- the properties, as statements about Run ---- *)
R == Run(cfg, script)
RECURSIVE Flatten(_, _)
Flatten(ss, i) == IF i > Len(ss) THEN <<>> ELSE ss[i] \o Flatten(ss, i + 1)
\* C16: every executed call is answered, by call id, in the request that follows; nothing is executed twice;
\*      a tool the configured tool choice bars is never executed; the number of tool calls is bounded
NoDupSeq(s) == \A i, j \in 1..Len(s) : i # j => s[i] # s[j]
ExecutedOnce == \A g \in 1..Len(R.groups) : NoDupSeq(R.groups[g])     \* within one response a call item is executed and answered once
BarredNeverRuns == \A i \in 1..Len(R.executed) : Allowed(cfg.choice, R.executed[i][2])
Bounded == Len(R.executed) <= MaxToolCalls
\* C07: the thread records selection, compilation, side effects, cursor, run end in that order, run end exactly once and last
IndexOf(s, x) == CHOOSE i \in 1..Len(s) : s[i] = x
Ordered == cfg.linked /\ script # <<>> =>
              /\ R.thread[Len(R.thread)] = "run_ended"
              /\ Cardinality({i \in 1..Len(R.thread) : R.thread[i] = "run_ended"}) = 1
              /\ IndexOf(R.thread, "selection_decided") < IndexOf(R.thread, "context_compiled")
              /\ \A i \in 1..Len(R.thread) : R.thread[i] \in {"side_effects", "cursor_updated"} => i > IndexOf(R.thread, "context_compiled")
              /\ \A i, j \in 1..Len(R.thread) : (R.thread[i] = "cursor_updated" /\ R.thread[j] = "side_effects") => j < i
========================================================================================
