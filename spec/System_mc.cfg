SPECIFICATION Spec
CONSTANTS
  Strict = TRUE
  Deviation = "none"
  Runs <- MCRuns
  Jobs <- MCJobs
  Tasks <- MCTasks
  ThreadOf <- MCThreadOfShared
INVARIANTS MonitorAccepts NoOverlap HolderExecutes FrameOrder OwedBeforeRunEnd
PROPERTIES EveryoneFinishes RunsEnd
VIEW MCView
CHECK_DEADLOCK FALSE
