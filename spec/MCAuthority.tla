---------------------------- MODULE MCAuthority ----------------------------
EXTENDS Authority, Json
AllStarts == {"none", "dead_lock", "dead_lock_meta", "dead_partial", "dead_meta", "dead_partial_meta", "live_serving", "live_starting"}
DeadStarts == {"none", "dead_lock", "dead_lock_meta", "dead_partial"}
P2 == {"p1", "p2"}
P3 == {"p1", "p2", "p3"}
\* which stealing actions exist, and from which start states (one line per distinct combination)
Probe == stolen = {} \/ PrintT(<<"STEAL", ToJson([start |-> start, acts |-> {t[4] : t \in stolen}, n |-> Cardinality(holds)])>>)
=============================================================================
