SPECIFICATION Spec
CONSTANTS
  MaxFrames = 8
  MaxThreads = 1
  MaxOps = 6
  EmitOps = {"compile"}
  PathOps = {"message","run_ended","checkpoint","side_effects"}
VIEW View
INVARIANTS Emit CutPointsAreStrideMessages AutoIdempotent ReadOnlyQuiet LineageSound BundleSound
CHECK_DEADLOCK FALSE
