SPECIFICATION Spec
CONSTANTS
  Cap = 2
  MaxOut = 8
  Seqs = {0}
  Symbols <- SymFold
  MaxLen = 4
  AsImplemented = FALSE
INVARIANTS Emit WindowBounded OutputBounded
CHECK_DEADLOCK FALSE
