--------------------------- MODULE TaskLifeTrace ---------------------------
(* Recorded task streams against the frame-level part of TaskLife: each frame of the real stream is
   appended to `frames` and the structural predicates of TaskLife (OpensWithSpawn,
   RunningAtMostOnce, CancelRecordedFirst, RangesConsecutive, nothing after the terminal frame)
   are evaluated on every prefix; the end event carries what the harness measured on disk (stored
   bytes, byte-for-byte comparison with what the process wrote, paging) and closes the case with
   RangesCover / StoredComplete.  A false predicate is recorded in `bad` (case, position, name). *)
EXTENDS TaskLife, Json, IOUtils
Rec == ndJsonDeserialize(IOEnv.TRACE)
VARIABLES l, case, bad, cap
tvars == <<vars, l, case, bad, cap>>
S2 == {"stdout", "stderr"}
TInit == /\ Init /\ valid = TRUE /\ l = 1 /\ case = "" /\ bad = {} /\ cap = 0
Ev(e) == l <= Len(Rec) /\ Rec[l].ev = e /\ l' = l + 1
Flags(fs) == bad' = bad \cup {<<case, l, f[2]>> : f \in {g \in fs : ~g[1]}}
TReset == /\ Ev("reset") /\ case' = Rec[l].case /\ cap' = Rec[l].cap /\ UNCHANGED bad
          /\ pc' = "new" /\ proc' = "none" /\ valid' = TRUE
          /\ written' = [s \in Streams |-> 0] /\ read' = [s \in Streams |-> 0] /\ stored' = [s \in Streams |-> 0]
          /\ eof' = [s \in Streams |-> FALSE] /\ cancelReq' = "none" /\ frames' = <<>>
FrameOf(r) == IF r.k = "out" THEN [k |-> "out", s |-> r.s, off |-> r.off, n |-> r.n, total |-> r.total, prev |-> r.prev]
              ELSE IF r.k = "terminal" THEN [k |-> "terminal", status |-> r.status]
              ELSE [k |-> r.k]
TFrame == /\ Ev("frame") /\ UNCHANGED <<case, cap>>
          /\ LET r == Rec[l]
                 afterTerminal == Terminal # {}
             IN /\ frames' = Append(frames, FrameOf(r))
                /\ stored' = IF r.k = "out" THEN [stored EXCEPT ![r.s] = r.off + r.n] ELSE stored
                /\ read' = IF r.k = "out" THEN [read EXCEPT ![r.s] = r.total] ELSE read
                /\ Flags({<<~afterTerminal, "FrameAfterTerminal">>, <<r.seq_ok, "SeqContiguous">>,
                          <<r.data_ok, "PreviewIsPrefixOfRange">>,
                          <<r.k # "out" \/ r.off = stored[r.s], "RangesConsecutive">>,
                          <<r.k # "out" \/ r.n = (IF cap - stored[r.s] < r.total - read[r.s] THEN cap - stored[r.s] ELSE r.total - read[r.s]), "RangeIsCappedChunk">>})
          /\ UNCHANGED <<pc, proc, written, eof, cancelReq, valid>>
TEnd == /\ Ev("end") /\ UNCHANGED <<case, cap>>
        /\ LET r == Rec[l] IN
           /\ pc' = "ended"
           /\ written' = [s \in Streams |-> r.expected[s]]
           /\ Flags({<<OpensWithSpawn, "OpensWithSpawn">>, <<RunningAtMostOnce, "RunningAtMostOnce">>,
                     <<Cardinality(Terminal) = 1 /\ (\A i \in Terminal : i = Len(frames)), "OneTerminalLast">>,
                     <<CancelRecordedFirst, "CancelRecordedFirst">>,
                     <<\A s \in Streams : r.stored[s] = stored[s], "RangesCoverStoredOutput">>,
                     <<r.complete => \A s \in Streams : r.stored[s] = (IF r.expected[s] < cap THEN r.expected[s] ELSE cap), "StoredComplete">>,
                     <<r.bytes_ok, "StoredIsPrefixOfProcessOutput">>, <<r.pages_ok, "PagesReproduceStoredOutput">>,
                     <<r.status_ok, "StatusAgreesWithFrames">>, <<r.snapshot_ok, "SnapshotHasAllFrames">>})
           /\ UNCHANGED <<proc, read, stored, eof, cancelReq, frames, valid>>
TNext == TReset \/ TFrame \/ TEnd
TSpec == TInit /\ [][TNext]_tvars
Report == IF l = Len(Rec) + 1 THEN PrintT(<<"BAD", ToJson(bad)>>) ELSE TRUE
Accepted == LET d == TLCGet("stats").diameter IN
            d - 1 = Len(Rec) \/ PrintT(<<"REJECTED", ToJson([at |-> d])>>)
=============================================================================
