------------------------------- MODULE GenStoreSeq -------------------------------
(* Behaviour generation for the gate scheduler (direction A, path coverage).
   Every writer performs exactly one operation; the seq mutex is NOT enforced here
   (Guarded = FALSE) so that TLC enumerates every interleaving of the hook points, including
   the ones the implementation's locking must forbid.  A shadow mutex records whether the
   interleaving respects the implemented locking discipline ("legal"): append_* hold the
   seq mutex from choose to advance; create_continuity and the lineage append take it only
   briefly to publish next = 1 / next = 2 (so they block while an append_* is in flight).  One JSON line per
   complete behaviour: the schedule, its legality and the truth log the design predicts. *)
EXTENDS StoreSeq, Json

CONSTANT OpOf        \* writer -> "root" | "child" | "branch"
CONSTANT LockedLineage
VARIABLES hist, todo, smtx, legal
gvars == <<vars, hist, todo, smtx, legal>>

GInit == Init /\ hist = <<>> /\ todo = [w \in Writers |-> TRUE] /\ smtx = None /\ legal = TRUE

Rec(w, p) == hist' = Append(hist, [a |-> w, p |-> p])

GPre(w) == /\ todo[w] /\ OpOf[w] \in {"root", "child"}
           /\ Pre(w, IF OpOf[w] = "root" THEN Root ELSE Child)
           /\ todo' = [todo EXCEPT ![w] = FALSE]
           /\ legal' = (legal /\ smtx = None) /\ smtx' = w
           /\ Rec(w, "log.pre")
GLoad(w) == /\ todo[w] /\ OpOf[w] \in {"root", "child"}
            /\ Load(w, IF OpOf[w] = "root" THEN Root ELSE Child)
            /\ todo' = [todo EXCEPT ![w] = FALSE]
            /\ legal' = (legal /\ smtx = None) /\ smtx' = w
            /\ Rec(w, "nextseq.loaded")
GPreLoaded(w) == PreLoaded(w) /\ Rec(w, "log.pre") /\ UNCHANGED <<todo, smtx, legal>>
GFlush(w) == Flush(w) /\ Rec(w, "log.flushed") /\ UNCHANGED <<todo, smtx, legal>>
GCache(w) == Cache(w) /\ Rec(w, "cache.exit") /\ UNCHANGED <<todo, smtx, legal>>
GFin(w)   == Fin(w) /\ Rec(w, "api.return") /\ smtx' = None /\ UNCHANGED <<todo, legal>>
\* LockedLineage = TRUE (the code since the fix of D15): branch / handoff take the seq mutex before the creation frame and
\* hold it until the lineage frame is appended; FALSE (pinned commit): both frames are written outside the mutex.
GCreate(w) == /\ todo[w] /\ OpOf[w] = "branch" /\ CreatePre(w)
              /\ todo' = [todo EXCEPT ![w] = FALSE]
              /\ Rec(w, "log.pre")
              /\ IF LockedLineage THEN legal' = (legal /\ smtx = None) /\ smtx' = w ELSE UNCHANGED <<smtx, legal>>
GLinPre(w) == /\ LineagePre(w) /\ Rec(w, "log.pre") /\ UNCHANGED <<todo, smtx>>
              /\ legal' = IF LockedLineage THEN legal ELSE (legal /\ smtx = None)
GLinFin(w) == /\ LineageFin(w) /\ Rec(w, "api.return") /\ UNCHANGED todo
              /\ IF LockedLineage THEN smtx' = None /\ UNCHANGED legal ELSE legal' = (legal /\ smtx = None) /\ UNCHANGED smtx

GNext == \E w \in Writers : GPre(w) \/ GLoad(w) \/ GPreLoaded(w) \/ GFlush(w) \/ GCache(w) \/ GFin(w)
                            \/ GCreate(w) \/ GLinPre(w) \/ GLinFin(w)
GSpec == GInit /\ [][GNext]_gvars

Done == \A w \in Writers : ~todo[w] /\ pc[w] = "idle"
\* a writer whose operation can never start (message to a child nobody creates) counts as done
Stuck == \A w \in Writers : pc[w] = "idle" /\ (todo[w] => (OpOf[w] = "child" /\ Child \notin exists
                                  /\ \A v \in Writers : OpOf[v] # "branch" \/ ~todo[v]))
Emit == (Done \/ (Stuck /\ ~ENABLED GNext)) =>
          PrintT(<<"CASE", ToJson([sched |-> hist, legal |-> legal,
                                   log |-> [i \in 1..Len(log) |-> <<log[i].s, log[i].q>>],
                                   gapfree |-> GapFree])>>)
=================================================================================
