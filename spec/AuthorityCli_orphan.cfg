SPECIFICATION CSpec
CONSTANTS
  Procs = {"p1", "p2"}
  Clients = {"c1", "c2"}
  Dead = "dead"
  Resident = "res"
  StartStates = {"none", "dead_lock", "dead_lock_meta", "dead_partial", "dead_meta", "live_serving", "live_starting"}
  MaxRetries = 2
  DeadlineFails = FALSE
  AsImplemented = FALSE
  OrphanMetaKept = TRUE
  CorruptIgnoresMeta = FALSE
  MayRelease = FALSE
  DropBeforeDrain = FALSE
  GraceTimer = "oracle"
INVARIANTS CSafe
PROPERTIES ClientsAttach
CHECK_DEADLOCK FALSE
