SPECIFICATION Spec
CONSTANTS
  Cap = 2
  MaxOut = 8
  Seqs = {0, 1, 2, 5, 9}
  Symbols <- SymSeq
  MaxLen = 4
  AsImplemented = FALSE
INVARIANTS Emit WindowBounded LookupSound
CHECK_DEADLOCK FALSE
