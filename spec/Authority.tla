----------------------------- MODULE Authority -----------------------------
(* C18 - the authority role of a store: crates/ripd/src/local_authority.rs (lock.json / meta.json,
   AuthorityLockGuard::try_acquire, write_meta, Drop, try_cleanup_stale_authority_files,
   try_cleanup_corrupt_lock_file) and the recovery loop of crates/ripd/src/server.rs
   (acquire_authority_lock_with_recovery).  One action per file-system call, in the order the code
   makes them; the program counters are named after the hook points at which the harness can park
   a contender.

   Files:  lock, meta \in {Absent} \cup owners, plus "partial" locks (created, record not written).
   Owners: the contenders (live processes) and Dead, a previous authority that crashed.

   AsImplemented = TRUE  : stale / corrupt cleanup check the file, then rename whatever is there.
   AsImplemented = FALSE : the rename is atomic with its check (what an OS-level lock would give);
                           TLC proves the properties for this design. *)
EXTENDS Naturals, FiniteSets, Sequences, TLC

CONSTANTS Procs,          \* contenders (live processes running the recovery loop)
          Dead,           \* owner id of the crashed previous authority
          Resident,       \* owner id of an authority that is alive and not a contender (or "none")
          StartStates,    \* subset of {"none","dead_lock","dead_lock_meta","dead_partial","dead_meta","live_serving","live_starting"}
          MaxRetries,     \* bound on the retry loop (the code's 2 s deadline)
          DeadlineFails,  \* TRUE: the deadline may expire at any retry; FALSE: retries only (behaviour generation)
          AsImplemented,
          MayRelease,     \* BOOLEAN: a serving contender may shut down (Drop)
          DropBeforeDrain, \* BOOLEAN: deviation - the files are dropped at the shutdown signal, requests in flight are served afterwards
          OrphanMetaKept,     \* TRUE (pinned commit): stale cleanup does nothing when lock.json is missing, even if the dead
                              \* owner's meta.json is still there; FALSE: it removes that meta file and reports success
          CorruptIgnoresMeta  \* TRUE (pinned commit): corrupt cleanup gives up whenever meta.json exists;
                              \* FALSE: it gives up only if the meta's owner is alive, and removes a dead owner's meta

Absent == "absent"
NoOne == "noone"
\* a file value is <<kind, owner>>; kind \in {"full","partial"} for lock, "meta" for meta
AbsentF == <<Absent, NoOne>>
Full(o) == <<"full", o>>
Partial(o) == <<"partial", o>>
Meta(o) == <<"meta", o>>

VARIABLES start,     \* the leftover state this behaviour started from
          lock, meta,
          pc,        \* [Procs -> program counter]
          exp,       \* [Procs -> owner the cleanup expects (pid read from the lock)]
          holds,     \* set of contenders that own a guard
          serving,   \* set of owners whose endpoint answers
          retries,   \* [Procs -> Nat]
          result,    \* [Procs -> "-" | "ok" | "err"]
          stolen     \* set of <<thief, what, owner, action>>: files of a live owner removed by someone else
vars == <<start, lock, meta, pc, exp, holds, serving, retries, result, stolen>>

Live(o) == o \in Procs \/ (o = Resident /\ Resident # "none")
IsDead(o) == o = Dead

InitFiles(s) ==
  CASE s = "none"           -> lock = AbsentF /\ meta = AbsentF /\ serving = {}
    [] s = "dead_lock"      -> lock = Full(Dead) /\ meta = AbsentF /\ serving = {}
    [] s = "dead_lock_meta" -> lock = Full(Dead) /\ meta = Meta(Dead) /\ serving = {}
    [] s = "dead_partial"   -> lock = Partial(Dead) /\ meta = AbsentF /\ serving = {}
    [] s = "dead_meta"      -> lock = AbsentF /\ meta = Meta(Dead) /\ serving = {}      \* a cleaner died between its two renames
    [] s = "dead_partial_meta" -> lock = Partial(Dead) /\ meta = Meta(Dead) /\ serving = {}   \* ... and the next authority died while writing its lock
    [] s = "live_serving"   -> lock = Full(Resident) /\ meta = Meta(Resident) /\ serving = {Resident}
    [] s = "live_starting"  -> lock = Full(Resident) /\ meta = AbsentF /\ serving = {}

Init == /\ start \in StartStates /\ InitFiles(start)
        /\ pc = [p \in Procs |-> "start"] /\ exp = [p \in Procs |-> NoOne]
        /\ holds = {} /\ retries = [p \in Procs |-> 0] /\ result = [p \in Procs |-> "-"]
        /\ stolen = {}

Goto(p, l) == pc' = [pc EXCEPT ![p] = l]
Fail(p) == pc' = [pc EXCEPT ![p] = "failed"] /\ result' = [result EXCEPT ![p] = "err"]
\* "sleep 20 ms and try again", unless the 2 s deadline has passed (any time, as far as the model knows)
Retry(p) == \/ /\ retries[p] < MaxRetries
               /\ pc' = [pc EXCEPT ![p] = "start"] /\ retries' = [retries EXCEPT ![p] = @ + 1] /\ UNCHANGED result
            \/ /\ DeadlineFails \/ retries[p] >= MaxRetries
               /\ Fail(p) /\ UNCHANGED retries
\* taking a file away from its owner: remember it when the owner is alive and is not the thief
Steal(p, what, f, act) == IF f # AbsentF /\ Live(f[2]) /\ f[2] # p THEN stolen \cup {<<p, what, f[2], act>>} ELSE stolen

\* ---- AuthorityLockGuard::try_acquire: open(create_new) ...
TryCreate(p) ==
  /\ pc[p] = "start"
  /\ IF lock = AbsentF
       THEN lock' = Partial(p) /\ Goto(p, "created")        \* hook auth.acquire.created
       ELSE lock' = lock /\ Goto(p, "r_meta")
  /\ UNCHANGED <<start, meta, exp, holds, serving, retries, result, stolen>>
\* ... write the record through the open descriptor (goes to the renamed / unlinked file if the
\* lock was taken away meanwhile) and return the guard
WriteRecord(p) ==
  /\ pc[p] = "created"
  /\ lock' = IF lock = Partial(p) THEN Full(p) ELSE lock
  /\ holds' = holds \cup {p} /\ result' = [result EXCEPT ![p] = "ok"]
  /\ Goto(p, "held")                                          \* hook auth.acquire.written
  /\ UNCHANGED <<start, meta, exp, serving, retries, stolen>>
\* serve(): bind, write_meta (atomic_write_file: tmp, remove, rename), start answering
WriteMeta(p) ==
  /\ pc[p] = "held"
  /\ meta' = Meta(p) /\ stolen' = Steal(p, "meta", meta, "WriteMeta")
  /\ serving' = serving \cup {p}
  /\ Goto(p, "serving")                                       \* hook auth.meta.written
  /\ UNCHANGED <<start, lock, exp, holds, retries, result>>
\* Drop: remove meta.json, remove lock.json - whatever they contain
DropEnter(p) == /\ pc[p] = "serving" /\ MayRelease
                \* the owner's drain of requests in flight belongs to pc = "serving": Drop is what it does last
                /\ holds' = holds \ {p} /\ serving' = (IF DropBeforeDrain THEN serving ELSE serving \ {p})
                /\ Goto(p, "d_meta")                          \* hook auth.drop.enter
                /\ UNCHANGED <<start, lock, meta, exp, retries, result, stolen>>
DropMeta(p) == /\ pc[p] = "d_meta"
               /\ meta' = AbsentF /\ stolen' = Steal(p, "meta", meta, "DropMeta")
               /\ Goto(p, "d_lock")                           \* hook auth.drop.meta
               /\ UNCHANGED <<start, lock, exp, holds, serving, retries, result>>
DropLock(p) == /\ pc[p] = "d_lock"
               /\ lock' = AbsentF /\ stolen' = Steal(p, "lock", lock, "DropLock")
               /\ Goto(p, IF DropBeforeDrain THEN "draining" ELSE "gone")   \* hook auth.drop.lock
               /\ UNCHANGED <<start, meta, exp, holds, serving, retries, result>>
Drained(p) == /\ pc[p] = "draining" /\ serving' = serving \ {p} /\ Goto(p, "gone")
              /\ UNCHANGED <<start, lock, meta, exp, holds, retries, result, stolen>>

\* ---- recovery loop: read meta.json and ping its endpoint
ReadMeta(p) ==
  /\ pc[p] = "r_meta"
  /\ IF meta # AbsentF /\ meta[2] \in serving
       THEN Fail(p)                                           \* "store already has an authority"
       ELSE Goto(p, "r_lock") /\ UNCHANGED result             \* hook auth.rec.meta
  /\ UNCHANGED <<start, lock, meta, exp, holds, serving, retries, stolen>>
\* read lock.json, check the pid
ReadLock(p) ==
  /\ pc[p] = "r_lock"
  /\ CASE lock = AbsentF -> Retry(p) /\ UNCHANGED exp
       [] lock[1] = "partial" ->
            \* invalid json: wait; after the 1 s grace period clean up.  Timing assumption of the
            \* code: a live writer finishes its record within the grace period.
            IF IsDead(lock[2]) THEN Goto(p, "c_check") /\ UNCHANGED <<retries, result, exp>>
                               ELSE Retry(p) /\ UNCHANGED exp
       [] lock[1] = "full" ->
            IF IsDead(lock[2])
              THEN Goto(p, "s_check") /\ exp' = [exp EXCEPT ![p] = lock[2]] /\ UNCHANGED <<retries, result>>
              ELSE Fail(p) /\ UNCHANGED <<retries, exp>>      \* pid alive
  /\ UNCHANGED <<start, lock, meta, holds, serving, stolen>>  \* hook auth.rec.lock
\* ---- try_cleanup_stale_authority_files(expected pid)
StaleCheck(p) ==
  /\ pc[p] = "s_check"
  /\ IF lock # AbsentF /\ lock[1] = "full" /\ lock[2] = exp[p]
       THEN Goto(p, "s_rename") /\ UNCHANGED <<result, meta, retries>>            \* hook auth.stale.checked
       ELSE IF lock = AbsentF /\ ~OrphanMetaKept /\ meta = Meta(exp[p])
         THEN meta' = AbsentF /\ Goto(p, "start") /\ UNCHANGED <<result, retries>>   \* orphan meta removed: cleaned
         ELSE Fail(p) /\ UNCHANGED <<meta, retries>>                               \* cleanup returned false -> Err
  /\ UNCHANGED <<start, lock, exp, holds, serving, stolen>>
StaleRename(p) ==
  /\ pc[p] = "s_rename"
  /\ IF lock = AbsentF
       THEN Fail(p) /\ UNCHANGED <<lock, stolen>>
       ELSE IF AsImplemented \/ lock = Full(exp[p])
         THEN lock' = AbsentF /\ stolen' = Steal(p, "lock", lock, "StaleRename") /\ Goto(p, "s_mread") /\ UNCHANGED result   \* hook auth.stale.renamed
         ELSE Fail(p) /\ UNCHANGED <<lock, stolen>>
  /\ UNCHANGED <<start, meta, exp, holds, serving, retries>>
StaleMetaRead(p) ==
  /\ pc[p] = "s_mread"
  /\ IF meta # AbsentF /\ meta[2] = exp[p] THEN Goto(p, "s_mrename") ELSE Goto(p, "s_done")   \* hook auth.stale.metaread
  /\ UNCHANGED <<start, lock, meta, exp, holds, serving, retries, result, stolen>>
StaleMetaRename(p) ==
  /\ pc[p] = "s_mrename"
  /\ IF meta = AbsentF \/ (~AsImplemented /\ meta # Meta(exp[p]))
       THEN UNCHANGED <<meta, stolen>>
       ELSE meta' = AbsentF /\ stolen' = Steal(p, "meta", meta, "StaleMetaRename")
  /\ Goto(p, "s_done")                                         \* hook auth.stale.meta
  /\ UNCHANGED <<start, lock, exp, holds, serving, retries, result>>
StaleDone(p) == /\ pc[p] = "s_done" /\ Goto(p, "start")        \* cleaned -> continue
                /\ UNCHANGED <<start, lock, meta, exp, holds, serving, retries, result, stolen>>
\* ---- try_cleanup_corrupt_lock_file
CorruptCheck(p) ==
  /\ pc[p] = "c_check"
  /\ IF lock # AbsentF /\ (meta = AbsentF \/ (~CorruptIgnoresMeta /\ ~Live(meta[2])))
       THEN Goto(p, "c_rename") /\ UNCHANGED <<retries, result>>   \* hook auth.corrupt.checked
       ELSE Retry(p)                                           \* cleanup returned false: keep waiting
  /\ UNCHANGED <<start, lock, meta, exp, holds, serving, stolen>>
CorruptRename(p) ==
  /\ pc[p] = "c_rename"
  /\ IF lock = AbsentF
       THEN Retry(p) /\ UNCHANGED <<lock, meta, stolen>>
       ELSE IF AsImplemented \/ (lock[1] = "partial" /\ IsDead(lock[2]))
         THEN /\ lock' = AbsentF /\ Goto(p, "start") /\ UNCHANGED <<retries, result>>   \* hook auth.corrupt.renamed
              \* the repaired cleanup also removes the meta file of the dead owner it saw
              /\ IF ~CorruptIgnoresMeta /\ meta # AbsentF /\ ~Live(meta[2])
                   THEN meta' = AbsentF /\ stolen' = Steal(p, "lock", lock, "CorruptRename")
                   ELSE meta' = meta /\ stolen' = Steal(p, "lock", lock, "CorruptRename")
         ELSE Retry(p) /\ UNCHANGED <<lock, meta, stolen>>
  /\ UNCHANGED <<start, exp, holds, serving>>

Step(p) == \/ TryCreate(p) \/ WriteRecord(p) \/ WriteMeta(p) \/ DropEnter(p) \/ DropMeta(p) \/ DropLock(p) \/ Drained(p)
           \/ ReadMeta(p) \/ ReadLock(p) \/ StaleCheck(p) \/ StaleRename(p) \/ StaleMetaRead(p)
           \/ StaleMetaRename(p) \/ StaleDone(p) \/ CorruptCheck(p) \/ CorruptRename(p)
Next == \E p \in Procs : Step(p)
Spec == Init /\ [][Next]_vars /\ \A p \in Procs : WF_vars(Step(p))

\* ---------------------------------------------------------------- properties
AtMostOne == Cardinality(holds) + (IF Resident # "none" /\ start \in {"live_serving", "live_starting"} THEN 1 ELSE 0) <= 1
NeverStealLive == stolen = {}
\* the lock file of a holder is its own
HolderOwnsLock == \A p \in holds : lock = Full(p)
\* whoever still answers requests for the store acts as its authority: it owns the lock, and nobody else holds the role
ServingOwnsLock == \A p \in serving \ {Resident} : lock = Full(p)
AtMostOneActing == Cardinality(holds \cup (serving \ {Resident})) + (IF Resident # "none" /\ start \in {"live_serving", "live_starting"} THEN 1 ELSE 0) <= 1
Safe == AtMostOne /\ NeverStealLive
\* a store whose previous authority crashed becomes usable again: some contender gets the role
DeadStart == start \in {"none", "dead_lock", "dead_lock_meta", "dead_partial", "dead_meta", "dead_partial_meta"}
Usable == DeadStart => <>(\E p \in Procs : result[p] = "ok")
\* nobody succeeds against a live resident authority
Settled == \A p \in Procs : pc[p] \in {"failed", "serving", "gone"}
LiveResidentKept == (start \in {"live_serving", "live_starting"} /\ Settled) =>
                      /\ \A p \in Procs : result[p] = "err"
                      /\ lock = Full(Resident)
=============================================================================
