SPECIFICATION Spec
CONSTANTS MaxTotal = 6 MaxP = 4 MaxA = 5 Handover = "own"
INVARIANTS Faithful
CHECK_DEADLOCK FALSE
