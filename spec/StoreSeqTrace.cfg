SPECIFICATION TSpec
CONSTANTS
  Writers = {"w1", "w2", "w3"}
  Root = "T0"
  Child = "T1"
  Sessions = {}
  MaxLog = 100
  MaxCrash = 0
  EnableBranch = TRUE
  SidecarNextSeq = TRUE
  LineageLocked = TRUE
  SecondInput = TRUE
  Tasks = {}
  TaskGuarded = TRUE
  Cold = FALSE
  Guarded = TRUE
INVARIANTS TypeOK GapFree AckedOnce MutexHeld
POSTCONDITION Accepted
CHECK_DEADLOCK FALSE
