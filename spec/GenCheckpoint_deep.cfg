SPECIFICATION Spec
CONSTANTS
  Paths = {"f"}
  Vals = {"v2", "v3"}
  OpKinds = {"create", "patch_upd", "rewind"}
  MaxOps = 5
INVARIANTS Emit RewindExact FailedRewindNoop AutoCovers
CHECK_DEADLOCK FALSE
