SPECIFICATION Spec
CONSTANTS
  MaxFrames = 8
  MaxThreads = 1
  MaxOps = 6
  EmitOps = {"checkpoint","cut_points","status","auto","schedule"}
  PathOps = {"message","checkpoint","auto","schedule","run_ended"}
VIEW View
INVARIANTS Emit CutPointsAreStrideMessages AutoIdempotent ReadOnlyQuiet LineageSound BundleSound
CHECK_DEADLOCK FALSE
