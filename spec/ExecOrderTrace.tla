--------------------------- MODULE ExecOrderTrace ---------------------------
(* Implementation traces against ExecOrder.  Every event of the trace is applied with its Do..
   action (so the state follows what the implementation did) and the guard of the guarded
   specification is evaluated at that step: a false guard is recorded in `bad` with the case id,
   the trace position and the name of the guard, and printed at the end.  One TLC run validates
   many cases (separated by reset events). *)
EXTENDS ExecOrder, TLC, Json, IOUtils
Rec == ndJsonDeserialize(IOEnv.TRACE)
VARIABLES l, case, bad
tvars == <<eovars, l, case, bad>>
TInit == EOInit /\ l = 1 /\ case = "" /\ bad = {}
Ev(e) == l <= Len(Rec) /\ Rec[l].ev = e /\ l' = l + 1
Flag(ok, what) == bad' = IF ok THEN bad ELSE bad \cup {<<case, l, what>>}
TReset == /\ Ev("reset") /\ case' = Rec[l].case /\ UNCHANGED bad
          /\ exec' = {} /\ cur' = [a \in Actors |-> 0] /\ order' = <<>> /\ fin' = {} /\ owed' = {} /\ se' = <<>> /\ ended' = {}
TBegin == /\ Ev("Begin") /\ UNCHANGED case
          /\ LET r == Rec[l] IN
             IF r.a \in exec \/ r.a \in ended
               THEN Flag(FALSE, "BeginWhileOwnExecutionOpenOrAfterRunEnd") /\ UNCHANGED eovars
               ELSE DoBegin(r.a, r.k, r.owes) /\ Flag(CanBegin(r.a), "NoOverlap")
TEnd == /\ Ev("End") /\ UNCHANGED case
        /\ LET r == Rec[l] IN
           IF r.a \in exec THEN DoEnd(r.a) /\ UNCHANGED bad
                           ELSE Flag(FALSE, "EndWithoutBegin") /\ UNCHANGED eovars
TFrame == /\ Ev("Frame") /\ UNCHANGED case
          /\ LET r == Rec[l] IN
             /\ DoFrame(r.a, r.k)
             /\ Flag(CanFrame(r.a, r.k) /\ r.paths_ok,
                     IF <<r.a, r.k>> \notin owed THEN "FrameNotOwed"
                     ELSE IF <<r.a, r.k>> \in Range(se) THEN "FrameTwice"
                     ELSE IF <<r.a, r.k>> \notin fin THEN "FrameBeforeToolFinished"
                     ELSE IF ~r.paths_ok THEN "FrameListsWrongFiles"
                     ELSE "FrameOrder")
TRunEnd == /\ Ev("RunEnd") /\ UNCHANGED case
           /\ LET r == Rec[l] IN
              IF r.a \in ended THEN Flag(FALSE, "RunEndTwice") /\ UNCHANGED eovars
              ELSE DoRunEnd(r.a) /\ Flag(CanRunEnd(r.a) /\ r.a \notin exec, "FrameBeforeRunEnd")
TNext == TReset \/ TBegin \/ TEnd \/ TFrame \/ TRunEnd
TSpec == TInit /\ [][TNext]_tvars
\* the recorded guards and the state predicates must agree: a state predicate of the property that
\* fails while `bad` holds nothing for this case would be an error of the trace specification
Coherent == (\A b \in bad : b[1] # case) => Property
Report == IF l = Len(Rec) + 1 THEN PrintT(<<"BAD", ToJson(bad)>>) ELSE TRUE
Accepted == LET d == TLCGet("stats").diameter IN
            d - 1 = Len(Rec) \/ PrintT(<<"REJECTED", ToJson([at |-> d])>>)
=============================================================================
