SPECIFICATION Spec
CONSTANTS
  MaxOps = 2
  Paths <- P
  InitChoices <- Inits
  OpSet <- Ops
INVARIANTS Emit StylePreserved AllOrNothing
CHECK_DEADLOCK FALSE
