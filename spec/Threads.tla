--------------------------------- MODULE Threads ---------------------------------
(* Continuity threads as frame sequences, and the reference semantics ("Truth") of every
   capability over them: what each operation answers and which frames it appends.

   One function, Eff(th, o), gives for an operation descriptor o in a store state th
     ok    - whether the call succeeds,
     resp  - the part of the answer the properties constrain,
     new   - the frames appended to thread o.t (kinds and the attributes that matter),
     child - the frames of a newly created thread (branch / handoff), or <<>>.
   The next-state relation applies Eff; the behaviour generator prints, for every distinct
   reachable store state, one operation path reaching it and Eff of EVERY operation in that
   state (one implementation test per transition of the state graph).

   Used by C02 (read-only / no-op capabilities append nothing; every appended frame is one the
   model predicts), C09 (compaction), C10 (branch / handoff), and as oracle vocabulary for C04
   and C08.  Transcribed from the truth (fallback) paths of ripd/src/continuities.rs and the
   contracts in docs/03_contracts (DESIGN.md Appendix B). *)
EXTENDS Integers, Sequences, FiniteSets, TLC

CONSTANTS MaxFrames,     \* bound on the length of a thread
          MaxThreads,    \* bound on the number of threads
          MaxOps,        \* bound on the length of the operation path
          PathOps        \* operation names used as transitions (the state space is built from these)

\* a frame: kind k and two integer attributes (meaning depends on k, -1 = unused)
F(k, a, b) == [k |-> k, a |-> a, b |-> b]
\*  "created"            -
\*  "msg"                -
\*  "spawned" / "ended"  a = seq of the message frame it names, b = session number
\*  "sfx"                a = seq of the message frame of the run
\*  "cursor"             a = provider key (0,1), b = 1 set / 0 rotated
\*  "ckpt"               a = to_seq
\*  "jobsp"              -                       (identity = its own seq)
\*  "jobend"             a = seq of the jobsp frame it ends, b = number of checkpoints created
\*  "decision"           a = 0 scheduled / 1 skipped_inflight, b = seq of the job's jobsp frame or -1
\*  "branched"/"handoff" a = cut seq in the parent, b = seq of the named parent message or -1

VARIABLES th, hist
vars == <<th, hist>>

Max(S) == CHOOSE x \in S : \A y \in S : y <= x
Min(S) == CHOOSE x \in S : \A y \in S : x <= y
Clamp(x, lo, hi) == IF x < lo THEN lo ELSE IF x > hi THEN hi ELSE x
SeqOfSet(S) == LET RECURSIVE Go(_)
                   Go(R) == IF R = {} THEN <<>> ELSE <<Min(R)>> \o Go(R \ {Min(R)})
               IN Go(S)

(* ------------------------------ Truth: reference semantics ------------------------------ *)
Idx(T, k)    == {i \in 1..Len(T) : T[i].k = k}             \* 1-based positions; seq = position - 1
MsgSeqs(T)   == SeqOfSet({i - 1 : i \in Idx(T, "msg")})    \* seqs of the message frames, ascending
Count(T)     == Cardinality(Idx(T, "msg"))
HeadSeq(T)      == Len(T) - 1
LatestCkFor(T, q) == LET S == {i \in Idx(T, "ckpt") : T[i].a = q} IN IF S = {} THEN -1 ELSE Max(S) - 1

\* cut points: the (k*stride)-th messages, latest first, at most clamp(limit,1,32)
CutPoints(T, stride, limit) ==
    LET n   == Count(T)
        lat == (n \div stride) * stride
        lim == Clamp(limit, 1, 32)
        ords == {lat - i * stride : i \in 0..(lim - 1)} \cap (1..n)
        desc == LET a == SeqOfSet(ords) IN [i \in 1..Len(a) |-> a[Len(a) + 1 - i]]
    IN [i \in 1..Len(desc) |->
          LET q == MsgSeqs(T)[desc[i]] IN
          [ord |-> desc[i], to_seq |-> q, ck |-> LatestCkFor(T, q) # -1, latest |-> LatestCkFor(T, q)]]

Planned(T, stride, maxNew) ==
    LET cps  == CutPoints(T, stride, 32)
        open == SelectSeq(cps, LAMBDA c : ~c.ck)
        k    == Clamp(maxNew, 1, 32)
    IN SubSeq(open, 1, IF Len(open) < k THEN Len(open) ELSE k)
PlanOrds(p) == [i \in 1..Len(p) |-> <<p[i].ord, p[i].to_seq>>]

\* newest summarizer job without an end frame (-1 = none); jobs are identified by their spawn seq
Inflight(T) ==
    LET open == {i \in Idx(T, "jobsp") : ~\E j \in Idx(T, "jobend") : T[j].a = i - 1}
    IN IF open = {} THEN -1 ELSE Max(open) - 1

\* status: latest checkpoint = maximal (to_seq, seq); next cut point = first planned
LatestCk(T) == LET S == Idx(T, "ckpt") IN
    IF S = {} THEN -1
    ELSE LET best == CHOOSE i \in S : \A j \in S : T[j].a < T[i].a \/ (T[j].a = T[i].a /\ j <= i) IN best - 1
LastOf(T, k) == LET S == Idx(T, k) IN IF S = {} THEN -1 ELSE Max(S) - 1
Status(T, stride) ==
    LET p == Planned(T, stride, 1) IN
    [count |-> Count(T), latest_ck |-> LatestCk(T),
     next |-> IF p = <<>> THEN <<>> ELSE <<p[1].ord, p[1].to_seq>>,
     last_decision |-> LastOf(T, "decision"), last_job_end |-> LastOf(T, "jobend")]

\* provider cursors: active = newest cursor frame; per key its newest frame; rotate target = key of newest
CursorStatus(T) ==
    LET S == Idx(T, "cursor") IN
    [active |-> IF S = {} THEN -1 ELSE Max(S) - 1,
     cursors |-> SeqOfSet({Max({i \in S : T[i].a = key}) - 1 : key \in {T[i].a : i \in S}})]

\* last message at or before seq q (-1 = none)
LastMsgAtOrBefore(T, q) == LET S == {i \in Idx(T, "msg") : i - 1 <= q} IN IF S = {} THEN -1 ELSE Max(S) - 1
\* greatest seq among a message and the run frames that name it
RelatedMax(T, m) == Max({m} \cup {i - 1 : i \in {j \in Idx(T, "spawned") \cup Idx(T, "ended") : T[j].a = m}})

\* ---- context compilation (C08): cut point, hierarchical checkpoint selection, bundle
CompileCut(T, m) == LET later == {i - 1 : i \in Idx(T, "msg")} \cap ((m + 1)..Len(T)) IN
                    IF later = {} THEN HeadSeq(T) ELSE Max({m, Min(later) - 1})
CumTo(T, fs) == {T[i].a : i \in Idx(T, "ckpt")} \cap (0..fs)
RECURSIVE Hier(_, _, _, _)
Hier(U, cur, sel, n) == IF n >= 3 \/ cur <= 1 THEN sel
                        ELSE LET thr == cur \div 2  C == {u \in U : u <= thr} IN
                             IF thr = 0 \/ C = {} THEN sel
                             ELSE LET c == Max(C) IN IF c >= cur THEN sel ELSE Hier(U, c, sel \cup {c}, n + 1)
SelectCk(T, fs) == LET U == CumTo(T, fs) IN IF U = {} THEN <<>> ELSE SeqOfSet(Hier(U, Max(U), {Max(U)}, 1))
RecentMsgs(T, fs, after, limit) ==
    LET all == SeqOfSet({i - 1 : i \in Idx(T, "msg")} \cap ((after + 1)..fs)) IN
    IF Len(all) <= limit THEN all ELSE SubSeq(all, Len(all) - limit + 1, Len(all))
\* the run that ended for message m at or before the cut: session number of the LAST such frame, 0 = none
ReplyOf(T, m, fs) == LET E == {i \in Idx(T, "ended") : T[i].a = m /\ i - 1 <= fs} IN IF E = {} THEN 0 ELSE T[Max(E)].b
Compile(T, m) ==
    LET fs   == CompileCut(T, m)
        refs == SelectCk(T, fs)
        msgs == RecentMsgs(T, fs, IF refs = <<>> THEN -1 ELSE refs[Len(refs)], 16) IN
    [from_seq |-> fs, refs |-> refs, msgs |-> msgs, replies |-> [i \in 1..Len(msgs) |-> ReplyOf(T, msgs[i], fs)],
     strategy |-> IF refs = <<>> THEN "recent_messages_v1" ELSE IF Len(refs) = 1 THEN "summaries_recent_messages_v1"
                  ELSE "hierarchical_summaries_recent_messages_v1"]

(* ------------------------------ operations ------------------------------ *)
\* descriptor: [op, t, x, y, z, w]; t = thread number, 0 = a thread id nobody created
O(op, t, x, y, z, w) == [op |-> op, t |-> t, x |-> x, y |-> y, z |-> z, w |-> w]
Known(t) == t \in 1..Len(th)
Fail(why) == [ok |-> FALSE, resp |-> why, new |-> <<>>, child |-> <<>>]
Ok(resp, new) == [ok |-> TRUE, resp |-> resp, new |-> new, child |-> <<>>]

\* checkpoint frames + bracket for a plan (executor order: ascending to_seq)
PlanFrames(plan) == LET asc == [i \in 1..Len(plan) |-> plan[Len(plan) + 1 - i]] IN
                    [i \in 1..Len(asc) |-> F("ckpt", asc[i].to_seq, -1)]

EffCheckpoint(T, o) ==
    \* x: 0 = to_message (y = message seq), 1 = to_seq (y), 2 = stride (y), 3 = neither, 4 = both; z = 1: no summary given
    IF o.z = 1 THEN Fail("summary_required")
    ELSE IF o.x = 4 THEN Fail("both_selectors")
    ELSE IF Count(T) = 0 THEN Fail("no_messages")
    ELSE IF o.x \in {0, 1} THEN
        IF o.y \in {i - 1 : i \in Idx(T, "msg")} THEN Ok([to_seq |-> o.y], <<F("ckpt", o.y, -1)>>)
        ELSE Fail(IF o.x = 0 THEN "message_not_found" ELSE "not_a_message_boundary")
    ELSE LET stride == IF o.x = 3 THEN 10000 ELSE o.y IN
        IF stride = 0 THEN Fail("stride_zero")
        ELSE LET target == (Count(T) \div stride) * stride IN
             IF target = 0 THEN Fail("stride_not_reached")
             ELSE LET q == MsgSeqs(T)[target] IN Ok([to_seq |-> q], <<F("ckpt", q, -1)>>)

EffAuto(T, o) ==
    \* x = stride, y = max_new, z = 1 dry run
    IF o.x = 0 THEN Fail("invalid_stride")
    ELSE LET plan == Planned(T, o.x, o.y) IN
         IF plan = <<>> \/ o.z = 1
         THEN Ok([status |-> "noop", count |-> Count(T), planned |-> PlanOrds(plan), created |-> 0], <<>>)
         ELSE Ok([status |-> "completed", count |-> Count(T), planned |-> PlanOrds(plan), created |-> Len(plan)],
                 <<F("jobsp", -1, -1)>> \o PlanFrames(plan) \o <<F("jobend", Len(T), Len(plan))>>)

EffSchedule(T, o) ==
    \* x = stride, y = max_new, z = flags: bit0 dry_run, bit1 execute, bit2 block_on_inflight
    LET dry == (o.z % 2) = 1   exec == ((o.z \div 2) % 2) = 1   block == ((o.z \div 4) % 2) = 1 IN
    IF o.x = 0 THEN Fail("invalid_stride")
    ELSE LET plan == Planned(T, o.x, o.y)
             base == [count |-> Count(T), planned |-> PlanOrds(plan), created |-> 0] IN
         IF plan = <<>> THEN Ok([decision |-> "noop"] @@ base, <<>>)
         ELSE IF dry THEN Ok([decision |-> "dry_run"] @@ base, <<>>)
         ELSE IF block /\ Inflight(T) # -1
              THEN Ok([decision |-> "skipped_inflight"] @@ base, <<F("decision", 1, -1)>>)
         ELSE IF exec
              THEN Ok([decision |-> "completed", count |-> Count(T), planned |-> PlanOrds(plan), created |-> Len(plan)],
                      <<F("jobsp", -1, -1), F("decision", 0, Len(T))>> \o PlanFrames(plan)
                        \o <<F("jobend", Len(T), Len(plan))>>)
              ELSE Ok([decision |-> "scheduled"] @@ base, <<F("jobsp", -1, -1), F("decision", 0, Len(T))>>)

\* branch / handoff cut resolution.  x: 0 none, 1 from_seq (y), 2 from_message (y = frame seq; must be a message),
\* 3 both, 4 unknown message id.  handoff only: z: 0 text summary, 1 artifact id that does not exist, 2 neither,
\* 3 text + artifact id that does not exist, 4 id of an existing artifact (the summary of the thread's newest checkpoint),
\* 5 blank text (accepted: the bundle written for it is the resolvable summary), 6 blank artifact id and no text (names nothing)
LineageCut(T, o) ==
    IF o.x = 3 THEN [ok |-> FALSE, why |-> "both_selectors"]
    ELSE IF o.x = 1 THEN
        IF o.y > HeadSeq(T) THEN [ok |-> FALSE, why |-> "from_seq_out_of_range"]
        ELSE [ok |-> TRUE, cut |-> o.y, msg |-> LastMsgAtOrBefore(T, o.y)]
    ELSE IF o.x = 4 THEN [ok |-> FALSE, why |-> "message_not_found"]
    ELSE IF o.x = 2 THEN
        IF o.y \notin {i - 1 : i \in Idx(T, "msg")} THEN [ok |-> FALSE, why |-> "message_not_found"]
        ELSE [ok |-> TRUE, cut |-> RelatedMax(T, o.y), msg |-> o.y]
    ELSE [ok |-> TRUE, cut |-> HeadSeq(T), msg |-> LastMsgAtOrBefore(T, HeadSeq(T))]

EffLineage(T, o, kind) ==
    IF kind = "handoff" /\ o.z = 2 THEN Fail("summary_required")
    ELSE LET c == LineageCut(T, o) IN
         IF ~c.ok THEN Fail(c.why)
         ELSE IF kind = "handoff" /\ o.z \in {1, 3, 6} THEN Fail("summary_artifact_not_found")   \* a handoff always carries a resolvable summary
         ELSE [ok |-> TRUE, resp |-> [cut |-> c.cut, msg |-> c.msg], new |-> <<>>,
               child |-> <<F("created", -1, -1), F(kind, c.cut, c.msg)>>]

Eff(o) ==
    IF ~Known(o.t) THEN
        \* nothing may be written for a thread that does not exist, whatever the capability
        Fail("unknown_thread")
    ELSE LET T == th[o.t] IN
    CASE o.op = "message"        -> Ok([seq |-> Len(T)], <<F("msg", -1, -1)>>)
      [] o.op = "run_spawned"    -> Ok([seq |-> Len(T)], <<F("spawned", o.x, o.y)>>)
      [] o.op = "run_ended"      -> Ok([seq |-> Len(T)], <<F("ended", o.x, o.y)>>)
      [] o.op = "side_effects"   -> Ok([seq |-> Len(T)], <<F("sfx", o.x, -1)>>)
      [] o.op = "cursor_update"  -> Ok([seq |-> Len(T)], <<F("cursor", o.x, 1)>>)
      [] o.op = "checkpoint"     -> EffCheckpoint(T, o)
      [] o.op = "cut_points"     -> IF o.x = 0 THEN Fail("invalid_stride")
                                    ELSE Ok([count |-> Count(T), cps |-> CutPoints(T, o.x, o.y)], <<>>)
      [] o.op = "status"         -> IF o.x = 0 THEN Fail("invalid_stride") ELSE Ok(Status(T, o.x), <<>>)
      [] o.op = "auto"           -> EffAuto(T, o)
      [] o.op = "schedule"       -> EffSchedule(T, o)
      [] o.op = "cursor_status"  -> Ok(CursorStatus(T), <<>>)
      [] o.op = "cursor_rotate"  -> LET S == {i \in Idx(T, "cursor") : o.x = -1 \/ T[i].a = o.x} IN
                                    IF S = {} THEN Ok([rotated |-> FALSE], <<>>)
                                    ELSE Ok([rotated |-> TRUE, key |-> T[Max(S)].a], <<F("cursor", T[Max(S)].a, 0)>>)
      [] o.op = "selection_status" -> Ok([n |-> 0], <<>>)
      [] o.op = "replay"         -> Ok([len |-> Len(T)], <<>>)
      [] o.op = "compile"        -> IF o.x \in {i - 1 : i \in Idx(T, "msg")} THEN Ok(Compile(T, o.x), <<>>) ELSE Fail("message_not_found")
      [] o.op = "branch"         -> EffLineage(T, o, "branched")
      [] o.op = "handoff"        -> EffLineage(T, o, "handoff")
      [] OTHER                   -> Fail("unknown_op")

\* the operation alphabet offered in a state (every request-parameter class of every capability)
Strides == {0, 1, 2, 3}
OpsFor(t) ==
    LET T == IF Known(t) THEN th[t] ELSE <<>>
        msgs == {i - 1 : i \in Idx(T, "msg")}
        seqs == 0..(Len(T)) IN
       {O("message", t, -1, -1, -1, -1)}
  \cup {O("run_spawned", t, m, 1, -1, -1) : m \in msgs}
  \cup {O("run_ended", t, m, s, -1, -1) : m \in msgs, s \in {1, 2}}
  \cup {O("side_effects", t, m, -1, -1, -1) : m \in msgs}
  \cup {O("cursor_update", t, key, -1, -1, -1) : key \in {0, 1}}
  \cup {O("checkpoint", t, 0, m, 0, -1) : m \in msgs}
  \cup {O("checkpoint", t, 1, q, 0, -1) : q \in seqs}
  \cup {O("checkpoint", t, 2, s, 0, -1) : s \in Strides}
  \cup {O("checkpoint", t, x, 1, z, -1) : x \in {3, 4}, z \in {0, 1}}
  \cup {O("cut_points", t, s, lim, -1, -1) : s \in Strides, lim \in {0, 1, 2, 33}}
  \cup {O("status", t, s, -1, -1, -1) : s \in Strides}
  \cup {O("auto", t, s, mx, dry, -1) : s \in Strides, mx \in {0, 1, 2, 33}, dry \in {0, 1}}
  \cup {O("schedule", t, s, mx, z, -1) : s \in Strides, mx \in {1, 2}, z \in 0..7}
  \cup {O("cursor_status", t, -1, -1, -1, -1), O("selection_status", t, -1, -1, -1, -1), O("replay", t, -1, -1, -1, -1)}
  \cup {O("compile", t, m, -1, -1, -1) : m \in msgs \cup {0}}
  \cup {O("cursor_rotate", t, key, -1, -1, -1) : key \in {-1, 0, 1}}
  \cup {O(kind, t, 0, -1, z, -1) : kind \in {"branch", "handoff"}, z \in {0, 1, 2, 3}}
  \cup {O("handoff", t, 0, -1, z, -1) : z \in {5, 6}}
  \cup {O("handoff", t, 0, -1, 4, -1) : z \in IF Idx(T, "ckpt") = {} THEN {} ELSE {4}}
  \cup {O(kind, t, 1, q, 0, -1) : kind \in {"branch", "handoff"}, q \in 0..(Len(T) + 1)}
  \cup {O(kind, t, 2, q, 0, -1) : kind \in {"branch", "handoff"}, q \in 0..(Len(T) - 1)}
  \cup {O(kind, t, x, 1, 0, -1) : kind \in {"branch", "handoff"}, x \in {3, 4}}
AllOps == UNION {OpsFor(t) : t \in 0..Len(th)}

Apply(o) ==
    LET e == Eff(o) IN
    IF ~e.ok THEN th
    ELSE LET th1 == IF e.new = <<>> THEN th ELSE [th EXCEPT ![o.t] = @ \o e.new] IN
         IF e.child = <<>> THEN th1 ELSE Append(th1, e.child)

Fits(o) == LET e == Eff(o) IN
           /\ (Known(o.t) => Len(th[o.t]) + Len(e.new) <= MaxFrames)
           /\ (e.child # <<>> => Len(th) < MaxThreads)

Init == th = << <<F("created", -1, -1)>> >> /\ hist = <<>>
Step(o) == /\ Len(hist) < MaxOps /\ Fits(o)
           /\ th' = Apply(o)
           /\ hist' = Append(hist, [o |-> o, e |-> Eff(o)])
\* only state-changing operations are transitions; the others are predictions evaluated in place
Next == \E o \in AllOps : o.op \in PathOps /\ Eff(o).ok /\ (Eff(o).new # <<>> \/ Eff(o).child # <<>>) /\ Step(o)
Spec == Init /\ [][Next]_vars

(* ------------------------------ properties of the reference semantics ------------------------------ *)
\* C09: a cut point is exactly a (k*stride)-th message
CutPointsAreStrideMessages ==
    \A t \in 1..Len(th), s \in {1, 2, 3} :
        LET cps == CutPoints(th[t], s, 32) IN
        \A i \in 1..Len(cps) : cps[i].ord % s = 0 /\ MsgSeqs(th[t])[cps[i].ord] = cps[i].to_seq
\* C09: repeating auto-compaction with nothing new to do appends nothing (idempotence of the design)
AutoIdempotent ==
    \A t \in 1..Len(th), s \in {1, 2, 3} :
        LET o == O("auto", t, s, 33, 0, -1)  e == Eff(o) IN
        (e.ok /\ Len(th[t]) + Len(e.new) <= MaxFrames) =>
            LET T2 == th[t] \o e.new IN Planned(T2, s, 33) = <<>>
\* C02: read-only capabilities never append
ReadOnlyOps == {"cut_points", "status", "cursor_status", "selection_status", "replay", "compile"}
\* C08: the bundle holds at most 16 messages, all at or before the cut and after the newest selected summary, oldest first
BundleSound ==
    \A o \in AllOps : o.op = "compile" /\ Eff(o).ok =>
        LET r == Eff(o).resp  T == th[o.t] IN
        /\ Len(r.msgs) <= 16 /\ Len(r.refs) <= 3
        /\ r.from_seq \in o.x..HeadSeq(T)
        /\ \A i \in 1..Len(r.msgs) : T[r.msgs[i] + 1].k = "msg" /\ r.msgs[i] <= r.from_seq
                                       /\ (r.refs # <<>> => r.msgs[i] > r.refs[Len(r.refs)])
        /\ \A i \in 1..(Len(r.msgs) - 1) : r.msgs[i] < r.msgs[i + 1]
        /\ \A i \in 1..(Len(r.refs) - 1) : r.refs[i] < r.refs[i + 1]
        /\ o.x \in {r.msgs[i] : i \in 1..Len(r.msgs)} \/ (r.refs # <<>> /\ o.x <= r.refs[Len(r.refs)])
        \* no message between the anchor and the cut: the cut is the last frame before the next message
        /\ ~\E q \in (o.x + 1)..r.from_seq : T[q + 1].k = "msg"
ReadOnlyQuiet == \A o \in AllOps : o.op \in ReadOnlyOps => Eff(o).new = <<>> /\ Eff(o).child = <<>>
\* C10: lineage never touches the parent, the cut lies within it and names the last message at or before it
LineageSound ==
    \A o \in AllOps : o.op \in {"branch", "handoff"} /\ Eff(o).ok =>
        LET e == Eff(o)  T == th[o.t] IN
        /\ e.new = <<>> /\ Len(e.child) = 2 /\ e.child[1].k = "created"
        /\ e.resp.cut \in 0..HeadSeq(T)
        /\ (e.resp.msg # -1 => T[e.resp.msg + 1].k = "msg" /\ e.resp.msg <= e.resp.cut)
        /\ (o.x # 2 => e.resp.msg = LastMsgAtOrBefore(T, e.resp.cut))
====================================================================================
