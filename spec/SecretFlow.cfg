SPECIFICATION Spec
INVARIANTS PrecedenceHolds NoLeak
CHECK_DEADLOCK FALSE
