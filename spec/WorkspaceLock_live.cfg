SPECIFICATION Spec
CONSTANTS
  Actors <- MCActorsS
  Prog <- MCProgS
  Linked <- MCLinkedS
  Cancellable <- MCCancellableS
  EarlyRelease <- MCNoEarly
  CancelSkipsLock = FALSE
INVARIANTS TypeOK Safe
PROPERTIES AllEnd
CHECK_DEADLOCK FALSE
