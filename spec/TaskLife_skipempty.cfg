SPECIFICATION Spec
CONSTANTS
  Streams = {"stdout", "stderr"}
  MaxWrite = 2
  ReadMax = 2
  Cap = 2
  Preview = 0
  SpawnFirst = TRUE
  JoinPumps = TRUE
  SkipEmpty = TRUE
INVARIANTS WellFormed
PROPERTIES Ends
CHECK_DEADLOCK FALSE
