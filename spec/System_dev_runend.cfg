SPECIFICATION Spec
CONSTANTS
  Strict = TRUE
  Deviation = "run_ended_before_session_ended"
  Runs <- MCRuns
  Jobs <- MCJobs
  Tasks <- MCTasks
  ThreadOf <- MCThreadOfShared
INVARIANTS MonitorAccepts
VIEW MCView
CHECK_DEADLOCK FALSE
