SPECIFICATION Spec
CONSTANTS
  MaxSteps = 3
  AsImplemented = TRUE
  Files = {"full", "seek", "msgidx", "mr", "mrseek", "mrmsg", "mrord", "comp", "compidx"}
  FaultKinds = {"delete", "truncate", "garbage", "empty", "rollback"}
VIEW View
INVARIANTS TypeOK Emit
CHECK_DEADLOCK FALSE
