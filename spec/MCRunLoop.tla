----------------------------------- MODULE MCRunLoop -----------------------------------
EXTENDS RunLoop, Json
C(cid, tool, idx, dup) == [cid |-> cid, tool |-> tool, idx |-> idx, dup |-> dup]
CallSet == {C("c1", "write", 0, FALSE), C("c2", "ls", 1, FALSE), C("c1", "write", 1, TRUE), C("c3", "nope", 0, FALSE)}
CallSetSmall == {C("c1", "write", 1, FALSE), C("c2", "ls", 0, FALSE), C("c1", "write", 0, TRUE)}
\* one script per distinct predicted run (and last response kind, so that every outcome is the last one of some script)
GenView == <<cfg, R, IF script = <<>> THEN "" ELSE script[Len(script)].outcome>>
Emit == script # <<>> => PrintT(<<"CASE", ToJson([cfg |-> cfg, script |-> script, run |-> R])>>)
========================================================================================
