------------------------------- MODULE LogDeltaTrace -------------------------------
(* Trace validation for C02 on byte-level observations: one event per API call with the length
   of events.jsonl before/after, whether the old content is an exact prefix of the new one,
   whether the file ends with a newline and every added line parses as one frame.
     AppendOnly    : the model's length only grows and equals the observed length chain
     WholeFrames   : nl /\ lines_ok
     ReadOnlyQuiet : a call the model classifies read-only (or whose append was made to fail)
                     adds nothing *)
EXTENDS Integers, Sequences, TLC, Json, IOUtils
Rec == ndJsonDeserialize(IOEnv.TRACE)
VARIABLES l, len, good
tvars == <<l, len, good>>
TInit == l = 1 /\ len = 0 /\ good = TRUE
\* reset: a new history (length 0), or - `damaged` - the harness itself rewrote the log as a crash would have left it: the
\* length is unknown (-1) until the next observation
TReset == l <= Len(Rec) /\ Rec[l].ev = "reset" /\ l' = l + 1 /\ len' = (IF "damaged" \in DOMAIN Rec[l] THEN -1 ELSE 0) /\ good' = TRUE
TCall == /\ l <= Len(Rec) /\ Rec[l].ev = "call" /\ l' = l + 1
         /\ LET r == Rec[l] IN
            /\ len' = r.len_after
            /\ good' = /\ (r.len_before = len \/ len = -1)   \* nothing touched the log between calls
                       /\ r.prefix_ok /\ r.len_after >= r.len_before      \* AppendOnly
                       /\ (r.len_after > r.len_before => r.nl /\ r.lines_ok)   \* WholeFrames (of what was added)
                       /\ (r.ro => r.len_after = r.len_before)             \* ReadOnlyQuiet
                       /\ (~r.ok /\ ~r.failed_append => r.len_after = r.len_before)  \* refused requests are quiet
TNext == TReset \/ TCall
TSpec == TInit /\ [][TNext]_tvars
Good == good \/ (PrintT(<<"BADCALL", ToJson([at |-> l - 1, ev |-> Rec[l - 1]])>>) /\ FALSE)
Accepted == LET d == TLCGet("stats").diameter IN
            d - 1 = Len(Rec) \/ PrintT(<<"REJECTED", ToJson([at |-> d])>>)
====================================================================================
