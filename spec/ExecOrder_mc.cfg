SPECIFICATION EOSpec
CONSTANTS Actors = {1,2}
INVARIANTS Property
CONSTRAINT EOBound
CHECK_DEADLOCK FALSE
