SPECIFICATION GSpec
CONSTANTS
  Procs <- P2
  Dead = "dead"
  Resident = "res"
  StartStates <- AllStarts
  MaxRetries = 2
  DeadlineFails = FALSE
  AsImplemented = TRUE
  OrphanMetaKept = FALSE
  CorruptIgnoresMeta = FALSE
  MayRelease = FALSE
  DropBeforeDrain = FALSE
INVARIANTS GenCase
CONSTRAINT Bounded
CHECK_DEADLOCK FALSE
