--------------------------------- MODULE StoreSeq ---------------------------------
(* The store's truth log and every family of writer that appends to it, at the grain of the
   code's critical-section steps (rip-log/src/lib.rs EventLog::append, ripd/src/continuities.rs
   append_* / create_continuity / branch / handoff, session.rs emit_event, tasks/mod.rs
   TaskEmitter::emit).  One action per hook point of the instrumented build:

     Pre(w)    lock the seq mutex, choose seq (loading it on first use)   -> "log.pre"
     Flush(w)  the frame's line is on disk                               -> "log.flushed"
     Cache(w)  the per-thread sidecar line is on disk                    -> "cache.exit"
     Fin(w)    publish, advance next seq, unlock, return (acknowledge)   -> "api.return"

   Properties: C01 (GapFree), C02 (AppendOnly), C05 (the same after Crash/Restart, AckedOnce).
   The switches name deliberate deviations of the implementation (DESIGN.md section 6). *)
EXTENDS Integers, Sequences, FiniteSets, TLC

CONSTANTS Writers,          \* continuity writers (threads of control calling the store API)
          Root, Child,      \* the two continuity streams; Root exists initially
          Sessions,         \* session streams (one run = one private counter)
          MaxLog,           \* bound on Len(log) for model checking
          MaxCrash,         \* number of crashes explored
          EnableBranch,     \* branch/handoff creates Child
          SidecarNextSeq,   \* TRUE = as implemented: next seq is recovered from the sidecar tail (D1)
          LineageLocked,    \* FALSE = as implemented: creation + lineage frame (literal seq 1) outside the mutex (D15)
          SecondInput,      \* TRUE = as implemented (D12): a session accepts a second input
          Guarded,          \* TRUE = as implemented: the seq mutex is held from choose to advance
          Tasks,            \* task streams; each has two pumps (stdout/stderr) sharing one seq mutex
          TaskGuarded,      \* TRUE = as implemented: the task seq mutex is held from numbering to the log append
          Cold              \* TRUE: the authority starts with an empty next-seq map (after a restart)

None == "none"
Threads == {Root, Child}

VARIABLES log,      \* truth log: sequence of [s |-> stream, q |-> seq]
          side,     \* full sidecar per thread: sequence of seqs
          next,     \* in-memory next seq per thread, -1 = not loaded
          mtx,      \* holder of the seq mutex
          pc, cur,  \* per writer: program counter, current [t, q]
          exists,   \* threads whose creation frame is in the log
          up,       \* authority process is running
          acked,    \* acknowledged appends <<stream, seq>>
          crashes,
          runs,     \* per session: sequence of private counters of the runs started on it
          tseq,     \* per task: the shared seq counter
          tmtx,     \* per task: holder of the task seq mutex (a pump or None)
          pump      \* per <<task, pump>>: -1 idle, n = numbered frame n not yet in the log
vars == <<log, side, next, mtx, pc, cur, exists, up, acked, crashes, runs, tseq, tmtx, pump>>
Pumps == {"out", "err"}

Proj(s)     == SelectSeq(log, LAMBDA f : f.s = s)
TruthLen(s) == Len(Proj(s))
LastOf(sq)  == sq[Len(sq)]
LoadNext(t) == IF SidecarNextSeq /\ side[t] # <<>> THEN LastOf(side[t]) + 1 ELSE TruthLen(t)

Init == /\ log = <<[s |-> Root, q |-> 0]>>
        /\ side = [t \in Threads |-> IF t = Root THEN <<0>> ELSE <<>>]
        /\ next = [t \in Threads |-> IF t = Root /\ ~Cold THEN 1 ELSE -1]
        /\ mtx = None
        /\ pc = [w \in Writers |-> "idle"]
        /\ cur = [w \in Writers |-> [t |-> Root, q |-> -1]]
        /\ exists = {Root}
        /\ up = TRUE
        /\ acked = {<<Root, 0>>}
        /\ crashes = 0
        /\ runs = [s \in Sessions |-> <<>>]
        /\ tseq = [k \in Tasks |-> 0]
        /\ tmtx = [k \in Tasks |-> None]
        /\ pump = [k \in Tasks |-> [p \in Pumps |-> -1]]

Room == Len(log) < MaxLog

(* ---- the append_* family: one critical section under the seq mutex ---- *)
\* first use of a thread after a restart: the next seq is loaded while the mutex is held  -> "nextseq.loaded"
Load(w, t) ==
    /\ up /\ pc[w] = "idle" /\ t \in exists /\ Room /\ next[t] = -1
    /\ (Guarded => mtx = None)
    /\ cur' = [cur EXCEPT ![w] = [t |-> t, q |-> LoadNext(t)]]
    /\ mtx' = IF Guarded THEN w ELSE mtx
    /\ pc' = [pc EXCEPT ![w] = "loaded"]
    /\ UNCHANGED <<log, side, next, exists, up, acked, crashes, runs, tseq, tmtx, pump>>

PreLoaded(w) ==
    /\ pc[w] = "loaded"
    /\ next' = [next EXCEPT ![cur[w].t] = cur[w].q]
    /\ pc' = [pc EXCEPT ![w] = "pre"]
    /\ UNCHANGED <<log, side, mtx, cur, exists, up, acked, crashes, runs, tseq, tmtx, pump>>

Pre(w, t) ==
    /\ up /\ pc[w] = "idle" /\ t \in exists /\ Room /\ next[t] # -1
    /\ (Guarded => mtx = None)
    /\ cur'  = [cur EXCEPT ![w] = [t |-> t, q |-> next[t]]]
    /\ mtx' = IF Guarded THEN w ELSE mtx
    /\ pc' = [pc EXCEPT ![w] = "pre"]
    /\ UNCHANGED <<log, side, next, exists, up, acked, crashes, runs, tseq, tmtx, pump>>

Flush(w) ==
    /\ pc[w] \in {"pre", "lin_pre", "cr_pre"}
    /\ log' = Append(log, [s |-> cur[w].t, q |-> cur[w].q])
    /\ pc' = [pc EXCEPT ![w] = CASE pc[w] = "pre" -> "flushed"
                                 [] pc[w] = "lin_pre" -> "lin_flushed"
                                 [] OTHER -> "cr_flushed"]
    /\ UNCHANGED <<side, next, mtx, cur, exists, up, acked, crashes, runs, tseq, tmtx, pump>>

Cache(w) ==
    /\ pc[w] \in {"flushed", "lin_flushed", "cr_flushed"}
    /\ side' = [side EXCEPT ![cur[w].t] = Append(@, cur[w].q)]
    /\ pc' = [pc EXCEPT ![w] = CASE pc[w] = "flushed" -> "cached"
                                 [] pc[w] = "lin_flushed" -> "lin_cached"
                                 [] OTHER -> "cr_cached"]
    \* the creation frame is published right after its cache append: clients can now name the child
    /\ exists' = IF pc[w] = "cr_flushed" THEN exists \cup {Child} ELSE exists
    /\ UNCHANGED <<log, next, mtx, cur, up, acked, crashes, runs, tseq, tmtx, pump>>

Fin(w) ==
    /\ pc[w] = "cached"
    /\ next' = [next EXCEPT ![cur[w].t] = cur[w].q + 1]
    /\ mtx' = IF Guarded THEN None ELSE mtx
    /\ acked' = acked \cup {<<cur[w].t, cur[w].q>>}
    /\ pc' = [pc EXCEPT ![w] = "idle"]
    /\ UNCHANGED <<log, side, cur, exists, up, crashes, runs, tseq, tmtx, pump>>

(* ---- branch / handoff: create_continuity (seq 0, no mutex), then the lineage frame ---- *)
CreatePre(w) ==
    /\ EnableBranch /\ up /\ pc[w] = "idle" /\ Child \notin exists /\ TruthLen(Child) = 0   \* ids are fresh UUIDs
    /\ \A v \in Writers : pc[v] \notin {"cr_pre", "cr_flushed", "cr_cached", "lin_pre", "lin_flushed", "lin_cached"}
    /\ Len(log) < MaxLog - 1
    /\ (LineageLocked => mtx = None)
    /\ mtx' = IF LineageLocked THEN w ELSE mtx
    /\ cur' = [cur EXCEPT ![w] = [t |-> Child, q |-> 0]]
    /\ pc' = [pc EXCEPT ![w] = "cr_pre"]
    /\ UNCHANGED <<log, side, next, exists, up, acked, crashes, runs, tseq, tmtx, pump>>

\* index save + next := 1, then immediately the lineage frame is prepared with the literal seq 1
LineagePre(w) ==
    /\ pc[w] = "cr_cached"
    /\ next' = [next EXCEPT ![Child] = 1]
    /\ cur' = [cur EXCEPT ![w] = [t |-> Child, q |-> 1]]
    /\ pc' = [pc EXCEPT ![w] = "lin_pre"]
    /\ UNCHANGED <<log, side, mtx, exists, up, acked, crashes, runs, tseq, tmtx, pump>>

LineageFin(w) ==
    /\ pc[w] = "lin_cached"
    /\ next' = [next EXCEPT ![Child] = 2]
    /\ mtx' = IF LineageLocked THEN None ELSE mtx
    /\ acked' = acked \cup {<<Child, 0>>, <<Child, 1>>}
    /\ pc' = [pc EXCEPT ![w] = "idle"]
    /\ UNCHANGED <<log, side, cur, exists, up, crashes, runs, tseq, tmtx, pump>>

(* ---- session streams: each run threads a private counter through its emits ---- *)
StartRun(s) ==
    /\ up /\ Room
    /\ (runs[s] = <<>> \/ SecondInput)
    /\ Len(runs[s]) < 2
    /\ runs' = [runs EXCEPT ![s] = Append(@, 0)]
    /\ UNCHANGED <<log, side, next, mtx, pc, cur, exists, up, acked, crashes, tseq, tmtx, pump>>

SessionEmit(s, r) ==
    /\ up /\ Room /\ r \in 1..Len(runs[s]) /\ runs[s][r] < 2
    /\ log' = Append(log, [s |-> s, q |-> runs[s][r]])
    /\ runs' = [runs EXCEPT ![s][r] = @ + 1]
    /\ UNCHANGED <<side, next, mtx, pc, cur, exists, up, acked, crashes, tseq, tmtx, pump>>

(* ---- crash / restart: memory is lost, files stay ---- *)
Crash ==
    /\ up /\ crashes < MaxCrash
    /\ up' = FALSE /\ crashes' = crashes + 1 /\ mtx' = None
    /\ pc' = [w \in Writers |-> "idle"]
    /\ next' = [t \in Threads |-> -1]
    /\ runs' = [s \in Sessions |-> IF runs[s] = <<>> THEN <<>> ELSE <<2>>]  \* finished: a restarted authority never resumes a run
    /\ tmtx' = [k \in Tasks |-> None] /\ pump' = [k \in Tasks |-> [p \in Pumps |-> -1]]
    /\ tseq' = [k \in Tasks |-> 99]      \* tasks do not survive a restart
    /\ exists' = {t \in Threads : TruthLen(t) > 0}   \* a child exists after a crash iff its creation frame is on disk
    /\ UNCHANGED <<log, side, cur, acked>>

Restart == ~up /\ up' = TRUE /\ UNCHANGED <<log, side, next, mtx, pc, cur, exists, acked, crashes, runs, tseq, tmtx, pump>>

(* ---- task streams: TaskEmitter::emit = lock the task's seq mutex, number the frame, publish,
        record, append to the log, unlock; the two output pumps of a task share the mutex ---- *)
PumpNumber(k, p) ==
    /\ up /\ Room /\ pump[k][p] = -1 /\ tseq[k] < 3
    /\ (TaskGuarded => tmtx[k] = None)
    /\ pump' = [pump EXCEPT ![k][p] = tseq[k]]
    /\ tseq' = [tseq EXCEPT ![k] = @ + 1]
    /\ tmtx' = IF TaskGuarded THEN [tmtx EXCEPT ![k] = p] ELSE tmtx
    /\ UNCHANGED <<log, side, next, mtx, pc, cur, exists, up, acked, crashes, runs>>

PumpAppend(k, p) ==
    /\ up /\ pump[k][p] # -1
    /\ log' = Append(log, [s |-> k, q |-> pump[k][p]])
    /\ pump' = [pump EXCEPT ![k][p] = -1]
    /\ tmtx' = IF TaskGuarded THEN [tmtx EXCEPT ![k] = None] ELSE tmtx
    /\ UNCHANGED <<side, next, mtx, pc, cur, exists, up, acked, crashes, runs, tseq>>

Next == \/ \E w \in Writers : \/ \E t \in Threads : Pre(w, t) \/ Load(w, t)
                              \/ PreLoaded(w) \/ Flush(w) \/ Cache(w) \/ Fin(w)
                              \/ CreatePre(w) \/ LineagePre(w) \/ LineageFin(w)
        \/ \E s \in Sessions : StartRun(s) \/ \E r \in 1..2 : SessionEmit(s, r)
        \/ \E k \in Tasks, p \in Pumps : PumpNumber(k, p) \/ PumpAppend(k, p)
        \/ Crash \/ Restart

Spec == Init /\ [][Next]_vars

(* ---- properties ---- *)
Streams == {log[i].s : i \in 1..Len(log)}
GapFree == \A s \in Streams : \A i \in 1..TruthLen(s) : Proj(s)[i].q = i - 1       \* C01
AckedOnce == \A a \in acked :
                Cardinality({i \in 1..Len(log) : log[i].s = a[1] /\ log[i].q = a[2]}) = 1   \* C05
IsPrefixOf(a, b) == Len(a) <= Len(b) /\ SubSeq(b, 1, Len(a)) = a
AppendOnly == [][IsPrefixOf(log, log')]_log                                           \* C02
TypeOK == /\ mtx \in Writers \cup {None}
          /\ \A w \in Writers : pc[w] \in {"idle", "loaded", "pre", "flushed", "cached", "cr_pre", "cr_flushed",
                                            "cr_cached", "lin_pre", "lin_flushed", "lin_cached"}
MutexHeld == Guarded => \A w \in Writers : pc[w] \in {"loaded", "pre", "flushed", "cached"} => mtx = w
====================================================================================
