SPECIFICATION Spec
CONSTANTS
  MaxResponses = 1
  MaxCalls = 2
  MaxToolCalls = 32
  DedupDone = FALSE
  Outcomes = {"done", "eof", "http500", "drop", "empty", "junk_done"}
  Calls <- CallSet
  Choices = {"auto", "none", "required", "fn_ls", "allowed_write", "allowed_hosted_only"}
  Modes = {FALSE}
INVARIANTS ExecutedOnce BarredNeverRuns Bounded Ordered
CHECK_DEADLOCK FALSE
