---------------------------------- MODULE GenCheckpoint ----------------------------------
EXTENDS Checkpoint, Json
View == <<fs, cps>>
Emit == hist # <<>> => PrintT(<<"CASE", ToJson([fs0 |-> hist[1].fs0, steps |-> hist])>>)
==========================================================================================
