SPECIFICATION Spec
CONSTANTS
  Actors <- MCActors
  Prog <- MCProg
  Linked <- MCLinked
  Cancellable <- MCCancellable
  EarlyRelease <- MCNoEarly
  CancelSkipsLock = FALSE
INVARIANTS TypeOK Safe HoldBlocks
PROPERTIES Refines
CHECK_DEADLOCK FALSE
