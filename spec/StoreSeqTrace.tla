------------------------------ MODULE StoreSeqTrace ------------------------------
(* Trace validation (direction B) of gate-scheduled executions against StoreSeq.
   The recorded events are the hook points of the instrumented build; each is matched with
   the StoreSeq action of the same name and the logged seq must be the seq the action chooses.
   All StoreSeq invariants are evaluated by TLC in every state of the real execution. *)
EXTENDS StoreSeq, Json, IOUtils

Rec == ndJsonDeserialize(IOEnv.TRACE)
VARIABLE l
tvars == <<vars, l>>

W(a) == IF a = 1 THEN "w1" ELSE IF a = 2 THEN "w2" ELSE "w3"
IsEv(e) == l <= Len(Rec) /\ Rec[l].ev = e /\ l' = l + 1

TInit == Init /\ l = 1

TReset == /\ IsEv("reset")
          /\ LET n == Rec[l].n IN
             /\ log' = [i \in 1..n |-> [s |-> Root, q |-> i - 1]]
             /\ side' = [t \in Threads |-> IF t = Root THEN [i \in 1..n |-> i - 1] ELSE <<>>]
             /\ next' = [t \in Threads |-> IF t = Root /\ ~Rec[l].cold THEN n ELSE -1]
             /\ acked' = {<<Root, i - 1>> : i \in 1..n}
          /\ mtx' = None /\ pc' = [w \in Writers |-> "idle"]
          /\ cur' = [w \in Writers |-> [t |-> Root, q |-> -1]]
          /\ exists' = {Root} /\ up' = TRUE /\ crashes' = 0
          /\ runs' = [s \in Sessions |-> <<>>]
          /\ UNCHANGED <<tseq, tmtx, pump>>

TPre == /\ IsEv("log.pre")
        /\ LET w == W(Rec[l].actor)  t == Rec[l].stream  q == Rec[l].seq IN
           \/ (t \in Threads /\ Pre(w, t) /\ cur'[w].q = q)
           \/ (PreLoaded(w) /\ cur[w].t = t /\ cur[w].q = q)
           \/ (t = Child /\ q = 0 /\ CreatePre(w))
           \/ (t = Child /\ q = 1 /\ LineagePre(w))

TLoad == IsEv("nextseq.loaded") /\ LET w == W(Rec[l].actor) IN
            Load(w, Rec[l].stream) /\ cur'[w].q = Rec[l].value
TFlush == IsEv("log.flushed") /\ LET w == W(Rec[l].actor) IN
            Flush(w) /\ cur[w].t = Rec[l].stream /\ cur[w].q = Rec[l].seq
TCache == IsEv("cache.exit") /\ Cache(W(Rec[l].actor))
TFin   == IsEv("api.return") /\ LET w == W(Rec[l].actor) IN
            \/ (Rec[l].ok /\ (Fin(w) \/ LineageFin(w)))
            \/ (~Rec[l].ok /\ pc[w] = "idle" /\ UNCHANGED vars)
\* points that are finer than the model's actions: consumed, no state change
Silent == {"op.start", "log.enter", "log.body", "cache.enter", "cache.full.body", "cache.mr.body", "cache.comp.body", "cache.full.flushed", "cache.seek", "cache.msgidx",
           "cache.mr.flushed", "cache.mr.seek", "cache.mr.msgidx", "cache.mr.ord", "cache.comp.flushed",
           "cache.comp.idx", "index.tmp", "index.renamed", "rebuild.enter",
           "rebuild.truncated", "rebuild.exit"}
TSilent == l <= Len(Rec) /\ Rec[l].ev \in Silent /\ l' = l + 1 /\ UNCHANGED vars

TNext == TReset \/ TPre \/ TLoad \/ TFlush \/ TCache \/ TFin \/ TSilent
TSpec == TInit /\ [][TNext]_tvars

Accepted == LET d == TLCGet("stats").diameter IN
            \/ d - 1 = Len(Rec)
            \/ PrintT(<<"REJECTED", ToJson([at |-> d, ev |-> IF d <= Len(Rec) THEN Rec[d] ELSE [ev |-> "eof"]])>>)
=================================================================================
