SPECIFICATION Spec
CONSTANTS
  MaxLen = 6
  AsImplemented = FALSE
  Classes = {"a", "l2", "l3", "l4", "c", "x"}
INVARIANTS ChunkInvariant MatchesLossy
CHECK_DEADLOCK FALSE
