---------------------------------- MODULE GenSseLines ----------------------------------
EXTENDS SseLines, Json
\* one line per stream (the partitions are enumerated by the harness on the concrete bytes as well)
Emit == (~done /\ stream # <<>>) => PrintT(<<"CASE", ToJson([stream |-> stream, ref |-> Reference(stream)])>>)
========================================================================================
