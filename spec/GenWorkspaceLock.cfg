SPECIFICATION Spec
CONSTANTS
  Actors <- CastActors
  Prog <- CastProg
  Linked <- CastLinked
  Cancellable <- CastCancellable
  EarlyRelease <- MCNoEarly
  CancelSkipsLock = FALSE
INVARIANTS GenHold HoldBlocks
CONSTRAINT OneMoves
CHECK_DEADLOCK FALSE
