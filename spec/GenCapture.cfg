SPECIFICATION Spec
CONSTANTS MaxTotal = 5 MaxP = 3 MaxA = 4 Handover = "own"
INVARIANTS GenCase
CHECK_DEADLOCK FALSE
