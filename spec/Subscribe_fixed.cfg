SPECIFICATION Spec
CONSTANTS
  N = 3
  NB = 1
  B0 = 5
  RecordFirst = TRUE
  PreRecorded = 0
INVARIANTS ExactlyOnce Ordered
CHECK_DEADLOCK FALSE
