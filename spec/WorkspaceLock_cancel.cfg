SPECIFICATION Spec
CONSTANTS
  Actors <- MCActors
  Prog <- MCProg
  Linked <- MCLinked
  Cancellable <- MCCancellable
  EarlyRelease <- MCNoEarly
  CancelSkipsLock = TRUE
INVARIANTS NoOverlap
CHECK_DEADLOCK FALSE
