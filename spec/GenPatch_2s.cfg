SPECIFICATION Spec
CONSTANTS
  MaxOps = 2
  Paths <- P
  InitChoices <- Inits
  OpSet <- OpsSmall
INVARIANTS Emit StylePreserved AllOrNothing
CHECK_DEADLOCK FALSE
