----------------------------- MODULE SecretFlow -----------------------------
(* C19 - where a provider secret comes from and where it may go.
   Configuration space of crates/ripd/src/config.rs resolve_openresponses_config: three layers
   (global, custom, project; later layers win, objects merge deeply), the api_key of the selected
   provider given inline or as {env: NAME}, environment fall-backs, secret header values; the way
   the provider is selected (route, endpoint match via env or per-request override, no match).
   Resolve computes what the code must use and what /config/doctor must report; the flow relation
   lists the only places a secret may reach.  TLC checks the precedence rules against an
   independent statement of them and enumerates the space for replay. *)
EXTENDS Naturals, Sequences, FiniteSets, TLC

Layers == <<"global", "custom", "project">>
KeyKinds == {"absent", "inline", "env_set", "env_unset", "env_empty"}
Select == {"route", "env_endpoint", "override", "nomatch"}
EnvKey == {"unset", "set", "empty"}

VARIABLES key,      \* [1..3 -> KeyKinds]   api_key of the provider in each layer
          hdr,      \* [1..3 -> BOOLEAN]    layer defines a secret header (name x-secret-<layer>)
          select,   \* how the provider / endpoint is chosen
          envkey,   \* RIP_OPENRESPONSES_API_KEY
          openai,   \* the endpoint mentions openai.com and OPENAI_API_KEY is set
          bad       \* <<0, "none">> or <<layer, kind>>: one malformed layer (it still contains a secret)
                    \*   "badjson"   not JSON: the layer is skipped and reported as invalid
                    \*   "misplaced" / "hdrstring"  valid JSON of the wrong shape (api_key one level too high, headers a
                    \*   string): the merged configuration fails the schema and the default (empty) one is used
vars == <<key, hdr, select, envkey, openai, bad>>

Init == /\ key \in [1..3 -> KeyKinds] /\ hdr \in [1..3 -> BOOLEAN]
        /\ select \in Select /\ envkey \in EnvKey /\ openai \in BOOLEAN
        /\ bad \in {<<0, "none">>} \cup ((1..3) \X {"badjson", "misplaced", "hdrstring"})
        /\ (bad[1] # 0 => (openai = FALSE /\ hdr = [i \in 1..3 |-> FALSE]))       \* keeps the space small
Next == UNCHANGED vars
Spec == Init /\ [][Next]_vars

\* ---- the code's resolution
SchemaBroken == bad[2] \in {"misplaced", "hdrstring"}
Skipped(i) == bad = <<i, "badjson">>
ProviderKnown == select # "nomatch" /\ ~SchemaBroken
\* with the default configuration a route cannot name an endpoint: there is no provider to talk to
EndpointKnown == ~(select = "route" /\ (SchemaBroken \/ Skipped(1)))
\* deep merge: the last layer that mentions api_key wins (also when it cannot be resolved)
Defining == {i \in 1..3 : key[i] # "absent" /\ ~Skipped(i)}
Winner == IF Defining = {} THEN 0 ELSE CHOOSE i \in Defining : \A j \in Defining : j <= i
WinnerResolves == Winner # 0 /\ key[Winner] \in {"inline", "env_set"}
FromProvider == ProviderKnown /\ WinnerResolves
EffectiveKey ==
  IF FromProvider THEN <<"layer", Winner, key[Winner]>>
  ELSE IF envkey = "set" THEN <<"env", "RIP_OPENRESPONSES_API_KEY">>
  ELSE IF openai THEN <<"env", "OPENAI_API_KEY">>
  ELSE <<"none">>
HasKey == EffectiveKey # <<"none">>
\* api_key_source as the code reports it
Source ==
  IF FromProvider THEN (IF key[Winner] = "inline" THEN "inline" ELSE "env:layer")
  ELSE IF envkey = "set" THEN "env:RIP_OPENRESPONSES_API_KEY"
  ELSE IF openai THEN "env:OPENAI_API_KEY"
  ELSE "none"
HeaderNames == IF ProviderKnown THEN {i \in 1..3 : hdr[i] /\ ~Skipped(i)} ELSE {}

\* ---- independent statement of the precedence rules (docs/03_contracts/config.md)
\* project beats custom beats global; an unresolvable reference falls through to the environment
RuleKey ==
  LET Has(i) == key[i] # "absent" /\ bad # <<i, "badjson">>
      pick == IF Has(3) THEN 3 ELSE IF Has(2) THEN 2 ELSE IF Has(1) THEN 1 ELSE 0
  IN IF select # "nomatch" /\ bad[2] \notin {"misplaced", "hdrstring"} /\ pick # 0 /\ key[pick] \in {"inline", "env_set"} THEN <<"layer", pick, key[pick]>>
     ELSE IF envkey = "set" THEN <<"env", "RIP_OPENRESPONSES_API_KEY">>
     ELSE IF openai THEN <<"env", "OPENAI_API_KEY">>
     ELSE <<"none">>
PrecedenceHolds == EffectiveKey = RuleKey

\* ---- flows: a secret value may reach the provider and nothing else
Secrets == {<<"key", i>> : i \in {j \in 1..3 : key[j] # "absent"}} \cup (IF bad[1] # 0 THEN {<<"malformed", bad[1]>>} ELSE {}) \cup {<<"hdr", i>> : i \in {j \in 1..3 : hdr[j]}}
           \cup (IF envkey = "set" THEN {<<"envkey">>} ELSE {}) \cup (IF openai THEN {<<"openai">>} ELSE {})
Sinks == {"frames", "artifacts", "snapshots", "caches", "request_dump", "doctor", "process_output", "http_responses"}
\* as implemented: the Authorization header and the configured headers go to the provider only
MayReach(s) == {"provider"}
NoLeak == \A s \in Secrets : MayReach(s) \cap Sinks = {}
\* diagnostics say only whether a key is present and where it came from
\* (the doctor resolves without a request: an endpoint given only as a per-request override is unknown to it)
DoctorSees == select # "override" /\ EndpointKnown
DoctorReport == IF DoctorSees THEN [has_api_key |-> HasKey, api_key_source |-> Source, headers |-> HeaderNames]
                              ELSE [has_api_key |-> FALSE, api_key_source |-> "none", headers |-> {}]
=============================================================================
