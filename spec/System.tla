------------------------------- MODULE System -------------------------------
(* The composition: ONE truth log shared by every writer family of the authority - continuity
   (thread) streams, session streams, task streams, compaction jobs - together with the
   workspace lock, the rebuildable sidecar behind the log and the emitters' record / publish
   order.  The module has two halves that share one set of variables:

   MONITOR  `Frame(f, pos)` / `CacheAppend` / `Recorded` / `Published` consume one observable
            event of the real system (a frame whose line reached the log, a sidecar line, an
            emitter step) and evaluate every guard the listed properties put on that event in the
            state reached so far (C01 numbering, C07 life cycles, C09 jobs, C10 lineage position,
            C17 task life cycle, C05 "truth first", C06 "recorded before published").  A false
            guard is recorded in `bad`.  SystemTrace.tla drives these actions from recorded
            executions (the repository's own test-suite run with the hooks on, and the harness's
            runs); nothing but the trace decides which action fires.

   DESIGN   the actors below (clients posting messages, the run task of a message, a compaction
            job, a background task) emit their frames THROUGH the monitor actions, in program
            order, interleaved in every way TLC finds, contending for the one workspace permit.
            TLC checks that the design never trips a guard (`bad = {}`), that mutating executions
            never overlap and that side-effects frames follow the order of the mutations.

   `Strict` selects the exact predecessor sets of the life cycle (TRUE: design, whole-system
   executions) or their prefix-closed, stage-monotone weakening (FALSE: executions in which a test
   drives one layer alone, so that stages another layer would have produced are absent). *)
EXTENDS Integers, Sequences, FiniteSets, TLC

CONSTANTS Strict,          \* BOOLEAN
          Deviation,       \* design half: "none", or a named deviation that TLC must refute (non-vacuity of the invariants)
          Runs, Jobs, Tasks, ThreadOf   \* design half only: run ids, job ids, task ids, run/job -> thread

VARIABLES cnt,     \* stream key -> frames of that stream in the log (truth)
          msgs,    \* message id -> "posted" | "spawned"
          mwhere,  \* message id -> <<thread, seq>> of its frame
          run,     \* run id -> stage
          sess,    \* session stream -> "none" | "open" | "ended"
          job,     \* job id -> "none" | "spawned" | "ended"
          task,    \* task stream -> "none" | "spawned" | "running" | "terminal"
          creq,    \* task streams with a recorded cancel request
          cached,  \* stream id -> lines in its full sidecar
          recd,    \* <<stream, seq>> recorded in an emitter's late-join buffer
          execs,   \* workspace-mutating executions in progress (tool call ids, task ids)
          tend,    \* <<task, output stream>> -> end of the stored range of its last output frame
          bad      \* violated guards: <<position, name>>
mvars == <<cnt, msgs, mwhere, run, sess, job, task, creq, cached, recd, execs, tend, bad>>

Get(f, k, d) == IF k \in DOMAIN f THEN f[k] ELSE d
Put(f, k, v) == [x \in DOMAIN f \cup {k} |-> IF x = k THEN v ELSE f[x]]
Empty == [x \in {} |-> "none"]
Zero == [x \in {} |-> 0]

MInit == /\ cnt = Zero /\ msgs = Empty /\ mwhere = [x \in {} |-> <<"", 0>>] /\ run = Empty /\ sess = Empty /\ job = Empty /\ task = Empty
         /\ creq = {} /\ cached = Zero /\ recd = {} /\ execs = {} /\ tend = [x \in {} |-> 0] /\ bad = {}

Rank == [none |-> 0, spawned |-> 1, selected |-> 2, compiled |-> 3, effects |-> 4, cursor |-> 5, ended |-> 6]
Flags(pos, fs) == bad' = bad \cup {<<pos, f[2]>> : f \in {g \in fs : ~g[1]}}
Key(f) == f.sk \o ":" \o f.s

\* ------------------------------------------------------------------ run stages (thread frames naming a run)
Pred(stage) == CASE stage = "selected" -> {"spawned"}
                 [] stage = "compiled" -> {"selected"}
                 [] stage = "effects"  -> {"spawned", "compiled", "effects"}
                 [] stage = "cursor"   -> {"compiled", "effects"}
StageOk(cur, stage) == IF Strict THEN cur \in Pred(stage)
                       ELSE IF stage = "effects" THEN Rank[cur] <= Rank[stage] ELSE Rank[cur] < Rank[stage]
StageName(stage) == CASE stage = "selected" -> "SelectionOnceAfterSpawn"
                      [] stage = "compiled" -> "CompiledOnceAfterSelection"
                      [] stage = "effects"  -> "SideEffectsAfterCompileBeforeCursorAndEnd"
                      [] stage = "cursor"   -> "CursorOnceAfterEffectsBeforeEnd"
StageOf(t) == CASE t = "sel" -> "selected" [] t = "comp" -> "compiled" [] t = "fx" -> "effects" [] t = "cur" -> "cursor"

\* ------------------------------------------------------------------ one frame whose line reached the log
\* f = [sk, s, seq, t, r, m, j, st, tid, pt, ps, pm]: stream kind, stream id, seq, frame type (short), run id,
\* message id, job id, task status, tool call id, and for lineage frames the source thread, the cut's seq and
\* message id, and for task output frames the output stream and the stored range (os, off, nb) ("" / 0 / -1 where a field does not apply).
Frame(f, pos) ==
  LET k == Key(f)
      n == Get(cnt, k, 0)
      numbering == {<<f.seq = n, "SeqIsCountOfStreamFramesBefore">>}
      isC == f.sk = "continuity"  isS == f.sk = "session"  isT == f.sk = "task"
      r == f.r
      cur == Get(run, r, "none")
      shape ==
        IF isC THEN {<<(f.t = "created") = (n = 0), "ThreadOpensWithCreationOnly">>,
                     <<f.t \in {"branched", "handoff"} => n = 1, "LineageIsSecondFrame">>,
                     \* the recorded cut lies within the source thread as it is, and names one of its messages at or before the cut
                     <<(f.t \in {"branched", "handoff"} /\ Get(cnt, "continuity:" \o f.pt, 0) > 0) => f.ps < Get(cnt, "continuity:" \o f.pt, 0), "LineageCutWithinSource">>,
                     <<(f.t \in {"branched", "handoff"} /\ f.pm \in DOMAIN mwhere) => (mwhere[f.pm][1] = f.pt /\ mwhere[f.pm][2] <= f.ps), "LineageNamesSourceMessageAtOrBeforeCut">>,
                     <<(Strict /\ f.t \in {"branched", "handoff"} /\ f.pm # "") => f.pm \in DOMAIN mwhere, "LineageNamesSourceMessageAtOrBeforeCut">>,
                     \* a compaction checkpoint's cut is a message of this thread, identified by that message's seq and id (C09)
                     <<(f.t = "ckpt" /\ f.pm \in DOMAIN mwhere) => mwhere[f.pm] = <<f.s, f.ps>>, "CheckpointNamesItsCutMessage">>,
                     <<(Strict /\ f.t = "ckpt" /\ f.pm # "") => f.pm \in DOMAIN mwhere, "CheckpointNamesItsCutMessage">>}
        ELSE IF isS THEN {<<(f.t = "ss") = (Get(sess, f.s, "none") = "none"), "SessionStartsOnceFirst">>,
                          <<Get(sess, f.s, "none") # "ended", "NothingAfterSessionEnd">>}
        ELSE IF isT THEN {<<(f.t = "tspawn") = (Get(task, f.s, "none") = "none"), "TaskOpensWithSpawnOnly">>,
                          <<Get(task, f.s, "none") # "terminal", "FrameAfterTerminal">>,
                          <<(f.t = "tstatus" /\ f.st = "running") => Get(task, f.s, "none") # "running", "RunningAtMostOnce">>,
                          <<(f.t = "tcancelled" \/ (f.t = "tstatus" /\ f.st = "cancelled")) => f.s \in creq, "CancelRecordedFirst">>,
                          \* the stored ranges of one output stream are consecutive: each starts where the previous one ended
                          <<(f.t = "tout" /\ f.off >= 0) => f.off = Get(tend, <<f.s, f.os>>, 0), "RangesConsecutive">>}
        ELSE {}
      life ==
        IF ~isC THEN {}
        ELSE IF f.t = "msg" THEN {<<f.m \notin DOMAIN msgs, "MessageIdFresh">>}
        ELSE IF f.t = "rs" THEN {<<IF Strict THEN Get(msgs, f.m, "none") = "posted" ELSE Get(msgs, f.m, "none") # "spawned", "OneRunSpawnedPerMessage">>,
                                 <<cur = "none", "RunSpawnedOnce">>}
        ELSE IF f.t \in {"sel", "comp", "fx", "cur"} /\ r # "" THEN {<<StageOk(cur, StageOf(f.t)), StageName(StageOf(f.t))>>,
                                                                     <<f.t = "fx" => f.tid \notin execs, "SideEffectsAfterTheToolFinished">>}
        ELSE IF f.t = "re" THEN {<<IF Strict THEN cur \in {"spawned", "selected", "compiled", "effects", "cursor"} ELSE cur # "ended", "RunEndedOnceAfterSpawn">>,
                                 <<IF Strict THEN Get(sess, r, "none") = "ended" ELSE Get(sess, r, "none") # "open", "RunEndedFollowsItsSessionEnded">>}
        ELSE IF f.t = "js" THEN {<<Get(job, f.j, "none") = "none", "JobSpawnedOnce">>}
        ELSE IF f.t = "je" THEN {<<IF Strict THEN Get(job, f.j, "none") = "spawned" ELSE Get(job, f.j, "none") # "ended", "JobEndedAtMostOnceAfterSpawn">>}
        ELSE IF r # "" THEN {<<cur # "ended", "NothingOfARunAfterItsEnd">>}
        ELSE {}
  IN /\ Flags(pos, numbering \cup shape \cup life)
     /\ cnt' = Put(cnt, k, n + 1)
     /\ msgs' = IF isC /\ f.t = "msg" THEN Put(msgs, f.m, "posted")
                ELSE IF isC /\ f.t = "rs" /\ f.m # "" THEN Put(msgs, f.m, "spawned") ELSE msgs
     /\ mwhere' = IF isC /\ f.t = "msg" THEN Put(mwhere, f.m, <<f.s, n>>) ELSE mwhere
     /\ run' = IF ~isC \/ r = "" THEN run
               ELSE IF f.t = "rs" THEN Put(run, r, "spawned")
               ELSE IF f.t \in {"sel", "comp", "fx", "cur"} THEN Put(run, r, StageOf(f.t))
               ELSE IF f.t = "re" THEN Put(run, r, "ended") ELSE run
     /\ sess' = IF ~isS THEN sess ELSE IF f.t = "se" THEN Put(sess, f.s, "ended") ELSE Put(sess, f.s, IF Get(sess, f.s, "none") = "ended" THEN "ended" ELSE "open")
     /\ job' = IF isC /\ f.t = "js" THEN Put(job, f.j, "spawned") ELSE IF isC /\ f.t = "je" THEN Put(job, f.j, "ended") ELSE job
     /\ task' = IF ~isT THEN task
                ELSE IF f.t = "tstatus" /\ f.st \in {"exited", "cancelled", "failed"} THEN Put(task, f.s, "terminal")
                ELSE IF f.t = "tstatus" /\ f.st = "running" THEN Put(task, f.s, IF Get(task, f.s, "none") = "terminal" THEN "terminal" ELSE "running")
                ELSE Put(task, f.s, IF Get(task, f.s, "none") \in {"none"} THEN "spawned" ELSE Get(task, f.s, "none"))
     /\ creq' = IF isT /\ f.t = "tcancelreq" THEN creq \cup {f.s} ELSE creq
     /\ UNCHANGED <<cached, recd, execs>>
     /\ tend' = IF isT /\ f.t = "tout" /\ f.off >= 0 THEN Put(tend, <<f.s, f.os>>, f.off + f.nb) ELSE tend

\* a workspace-mutating execution (a tool call that needs the permit, a task's process) begins / ends
XBegin(id, pos) == /\ Flags(pos, {<<execs = {}, "NoOverlap">>}) /\ execs' = execs \cup {id}
                   /\ UNCHANGED <<cnt, msgs, mwhere, run, sess, job, task, creq, cached, recd, tend>>
XEnd(id, pos) == /\ execs' = execs \ {id} /\ UNCHANGED <<cnt, msgs, mwhere, run, sess, job, task, creq, cached, recd, tend, bad>>

\* a line of frame seq q of continuity stream s reached the full sidecar: the truth log has it already,
\* and the sidecar grows one frame at a time
CacheAppend(s, q, pos) ==
  /\ Flags(pos, {<<q < Get(cnt, "continuity:" \o s, 0), "CacheNeverAheadOfTruth">>})
  /\ cached' = Put(cached, s, q + 1)
  /\ UNCHANGED <<cnt, msgs, mwhere, run, sess, job, task, creq, recd, execs, tend>>

\* an emitter put frame <<s, q>> into its late-join buffer / handed it to the live channel
Recorded(s, q, pos) == /\ recd' = recd \cup {<<s, q>>} /\ UNCHANGED <<cnt, msgs, mwhere, run, sess, job, task, creq, cached, execs, tend, bad>>
Published(s, q, pos) == /\ Flags(pos, {<<<<s, q>> \in recd, "RecordedBeforePublished">>})
                        /\ UNCHANGED <<cnt, msgs, mwhere, run, sess, job, task, creq, cached, recd, execs, tend>>

\* the per-stream snapshot (sessions, tasks) was written with n frames: it holds every frame of the stream that is in the log
Snapshot(s, n, pos) ==
  LET inlog == Get(cnt, "session:" \o s, 0) + Get(cnt, "task:" \o s, 0) IN
  /\ Flags(pos, {<<IF Strict THEN inlog = n ELSE inlog \in {0, n}, "SnapshotHasEveryLoggedFrame">>})
  /\ UNCHANGED <<cnt, msgs, mwhere, run, sess, job, task, creq, cached, recd, execs, tend>>

\* ================================================================== DESIGN half
VARIABLES pc,      \* actor -> program counter
          holder,  \* who holds the workspace permit ("" = free)
          owed,    \* sequence of runs whose mutation finished, in mutation order
          fxlog    \* sequence of runs whose side-effects frame reached the log
dvars == <<pc, holder, owed, fxlog>>
vars == <<mvars, dvars>>

Actors == Runs \cup Jobs \cup Tasks
Th(a) == ThreadOf[a]
F(sk, s, t, r, m, j, st) == [sk |-> sk, s |-> s, seq |-> Get(cnt, sk \o ":" \o s, 0), t |-> t, r |-> r, m |-> m, j |-> j, st |-> st, tid |-> IF t = "fx" THEN r ELSE "", pt |-> "", ps |-> 0, pm |-> "", os |-> "", off |-> -1, nb |-> 0]
Go(a, from, to) == pc[a] = from /\ pc' = [pc EXCEPT ![a] = to]
Keep == UNCHANGED <<holder, owed, fxlog>>
ThreadOpen(t) == Get(cnt, "continuity:" \o t, 0) > 0

Init == /\ MInit /\ pc = [a \in Actors |-> "idle"] /\ holder = "" /\ owed = <<>> /\ fxlog = <<>>

\* a thread is created by whoever needs it first (ensure)
CreateThread(a) == /\ pc[a] = "idle" /\ ~ThreadOpen(Th(a))
                   /\ Frame(F("continuity", Th(a), "created", "", "", "", ""), 0) /\ UNCHANGED dvars

\* ---- a message and its run (the message id is the run id prefixed: one message per run)
M(r) == "m-" \o r
Post(r)      == Go(r, "idle", "posted") /\ ThreadOpen(Th(r)) /\ Frame(F("continuity", Th(r), "msg", "", M(r), "", ""), 0) /\ Keep
Spawn(r)     == Go(r, "posted", "spawned") /\ Frame(F("continuity", Th(r), "rs", r, M(r), "", ""), 0) /\ Keep
SessStart(r) == Go(r, "spawned", "started") /\ Frame(F("session", r, "ss", "", "", "", ""), 0) /\ Keep
Select(r)    == Go(r, "started", "selected") /\ Frame(F("continuity", Th(r), "sel", r, M(r), "", ""), 0) /\ Keep
Compile(r)   == Go(r, "selected", "compiled") /\ Frame(F("continuity", Th(r), "comp", r, "", "", ""), 0) /\ Keep
\* one mutating tool call: wait for the permit, execute, log tool_ended, append the side-effects
\* frame on the thread, and only then give the permit back
Acquire(r)   == /\ Go(r, "compiled", "locked") /\ holder = "" /\ holder' = r
                /\ Frame(F("session", r, "sf", "", "", "", ""), 0) /\ UNCHANGED <<owed, fxlog>>
ExecBegin(r) == /\ Go(r, "locked", "exec") /\ XBegin(r, 0) /\ UNCHANGED <<holder, owed, fxlog>>
ExecEnd(r)   == /\ Go(r, "exec", "ran0") /\ XEnd(r, 0) /\ owed' = Append(owed, r) /\ UNCHANGED <<holder, fxlog>>
ToolEnded(r) == /\ Go(r, "ran0", "ran") /\ Frame(F("session", r, "sf", "", "", "", ""), 0) /\ Keep
Effects(r)   == /\ Go(r, "ran", "fx") /\ fxlog' = Append(fxlog, r)
                /\ Frame(F("continuity", Th(r), "fx", r, "", "", ""), 0) /\ UNCHANGED <<holder, owed>>
Release(r)   == /\ Go(r, "fx", "tooled") /\ holder = r /\ holder' = "" /\ UNCHANGED <<mvars, owed, fxlog>>
\* deviations (each one is a seeded change some sub-agent really wrote; TLC must find a counterexample)
EarlyRelease(r) == /\ Deviation = "release_before_effects_frame" /\ Go(r, "ran", "ran_free") /\ holder = r /\ holder' = ""
                   /\ UNCHANGED <<mvars, owed, fxlog>>
LateEffects(r)  == /\ Deviation = "release_before_effects_frame" /\ Go(r, "ran_free", "tooled") /\ fxlog' = Append(fxlog, r)
                   /\ Frame(F("continuity", Th(r), "fx", r, "", "", ""), 0) /\ UNCHANGED <<holder, owed>>
EndBeforeSession(r) == /\ Deviation = "run_ended_before_session_ended" /\ pc[r] \in {"compiled", "tooled"} /\ pc' = [pc EXCEPT ![r] = "done"]
                       /\ Frame(F("continuity", Th(r), "re", r, M(r), "", ""), 0) /\ Keep
UnlockedTask(k) == /\ Deviation = "cancelled_queued_task_runs_unlocked" /\ Go(k, "queued", "running") /\ k \in creq
                   /\ Frame(F("task", k, "tstatus", "", "", "", "running"), 0) /\ Keep
UnlockedProc(k) == /\ Deviation = "cancelled_queued_task_runs_unlocked" /\ Go(k, "running", "proc") /\ holder # k /\ XBegin(k, 0) /\ Keep
SessEnd(r)   == /\ pc[r] \in {"compiled", "tooled"} /\ pc' = [pc EXCEPT ![r] = "sessended0"]
                /\ Frame(F("session", r, "se", "", "", "", ""), 0) /\ Keep
SessSnap(r)  == Go(r, "sessended0", "sessended") /\ Snapshot(r, Get(cnt, "session:" \o r, 0), 0) /\ Keep
Cursor(r)    == Go(r, "sessended", "cursored") /\ Frame(F("continuity", Th(r), "cur", r, "", "", ""), 0) /\ Keep
RunEnd(r)    == /\ pc[r] \in {"sessended", "cursored"} /\ pc' = [pc EXCEPT ![r] = "done"]
                /\ Frame(F("continuity", Th(r), "re", r, M(r), "", ""), 0) /\ Keep

\* ---- a compaction job on a thread: spawn frame, a checkpoint, end frame
JobSpawn(j) == Go(j, "idle", "spawned") /\ ThreadOpen(Th(j)) /\ Frame(F("continuity", Th(j), "js", "", "", j, ""), 0) /\ Keep
JobCkpt(j)  == Go(j, "spawned", "ckpt") /\ Frame(F("continuity", Th(j), "ckpt", "", "", "", ""), 0) /\ Keep
JobEnd(j)   == /\ pc[j] \in {"spawned", "ckpt"} /\ pc' = [pc EXCEPT ![j] = "done"]
               /\ Frame(F("continuity", Th(j), "je", "", "", j, ""), 0) /\ Keep

\* ---- a background task: spawn frame, wait for the permit (a cancel may arrive while it waits),
\* running, output, terminal status; the permit goes back after the terminal frame
TSpawn(k)   == Go(k, "idle", "queued") /\ Frame(F("task", k, "tspawn", "", "", "", ""), 0) /\ Keep
TAcquire(k) == /\ Go(k, "queued", "locked") /\ holder = "" /\ holder' = k /\ UNCHANGED <<mvars, owed, fxlog>>
TProc(k)    == /\ Go(k, "locked", "proc") /\ XBegin(k, 0) /\ Keep
TRunning(k) == /\ Go(k, "proc", "running") /\ Frame(F("task", k, "tstatus", "", "", "", "running"), 0) /\ Keep
TOutput(k)  == /\ pc[k] \in {"running", "exited"} /\ Get(cnt, "task:" \o k, 0) < 5 /\ Frame(F("task", k, "tout", "", "", "", ""), 0) /\ UNCHANGED dvars
TCancelReq(k) == /\ pc[k] \in {"queued", "running", "exited"} /\ k \notin creq
                 /\ Frame(F("task", k, "tcancelreq", "", "", "", ""), 0) /\ UNCHANGED dvars
TProcExit(k) == /\ pc[k] \in {"running", "proc"} /\ k \in execs /\ pc' = [pc EXCEPT ![k] = "exited"] /\ XEnd(k, 0) /\ Keep
TExit(k)    == /\ Go(k, "exited", IF holder = k THEN "ended" ELSE "done")
               /\ Frame(F("task", k, "tstatus", "", "", "", IF k \in creq THEN "cancelled" ELSE "exited"), 0) /\ Keep
TCancelledQueued(k) == /\ Go(k, "queued", "done") /\ k \in creq
                       /\ Frame(F("task", k, "tstatus", "", "", "", "cancelled"), 0) /\ Keep
TRelease(k) == /\ Go(k, "ended", "done") /\ holder = k /\ holder' = "" /\ UNCHANGED <<mvars, owed, fxlog>>

Next == \/ \E a \in Actors : CreateThread(a)
        \/ \E r \in Runs : \/ Post(r) \/ Spawn(r) \/ SessStart(r) \/ Select(r) \/ Compile(r) \/ Acquire(r) \/ ExecBegin(r)
                           \/ ExecEnd(r) \/ ToolEnded(r) \/ Effects(r) \/ Release(r) \/ SessEnd(r) \/ SessSnap(r) \/ Cursor(r) \/ RunEnd(r)
        \/ \E r \in Runs : EarlyRelease(r) \/ LateEffects(r) \/ EndBeforeSession(r)
        \/ \E k \in Tasks : UnlockedTask(k) \/ UnlockedProc(k)
        \/ \E j \in Jobs : JobSpawn(j) \/ JobCkpt(j) \/ JobEnd(j)
        \/ \E k \in Tasks : TSpawn(k) \/ TAcquire(k) \/ TProc(k) \/ TRunning(k) \/ TOutput(k) \/ TCancelReq(k) \/ TProcExit(k) \/ TExit(k) \/ TCancelledQueued(k) \/ TRelease(k)
Fair == /\ \A a \in Actors : WF_vars(CreateThread(a))
        /\ \A r \in Runs : WF_vars(Post(r) \/ Spawn(r) \/ SessStart(r) \/ Select(r) \/ Compile(r) \/ ExecBegin(r) \/ ExecEnd(r) \/ ToolEnded(r) \/ Effects(r) \/ Release(r) \/ SessEnd(r) \/ SessSnap(r) \/ RunEnd(r))
                           /\ SF_vars(Acquire(r))
        \* fairness is asked only of steps the system takes by itself; posting more work
        \* (JobSpawn) and cancelling (TCancelReq) are the environment's choice
        /\ \A j \in Jobs : WF_vars(JobEnd(j))
        /\ \A k \in Tasks : WF_vars(TSpawn(k) \/ TProc(k) \/ TRunning(k) \/ TProcExit(k) \/ TExit(k) \/ TRelease(k) \/ TCancelledQueued(k)) /\ SF_vars(TAcquire(k))
Spec == Init /\ [][Next]_vars /\ Fair

\* ------------------------------------------------------------------ what TLC checks on the design
MonitorAccepts == bad = {}
NoOverlap == Cardinality(execs) <= 1
HolderExecutes == execs \subseteq {holder}
\* side-effects frames reach the thread in the order the mutations finished
IsPrefix(a, b) == Len(a) <= Len(b) /\ \A i \in 1..Len(a) : a[i] = b[i]
FrameOrder == IsPrefix(fxlog, owed)
\* at the end of a run every owed frame has been written (its run is ended => it is in fxlog)
OwedBeforeRunEnd == \A i \in 1..Len(owed) : Get(run, owed[i], "none") = "ended" => \E n \in 1..Len(fxlog) : fxlog[n] = owed[i]
GapFree == \A k \in DOMAIN cnt : cnt[k] >= 0   \* numbering itself is the monitor's first guard
Completed == \A a \in Actors : pc[a] = "done"
\* liveness: every actor finishes (no actor can be starved of the permit for ever, every run and
\* every task reaches its terminal frame)
EveryoneFinishes == <>[](\A a \in Runs \cup Tasks : pc[a] = "done")
RunsEnd == \A r \in Runs : (pc[r] = "posted") ~> (Get(run, r, "none") = "ended")
=============================================================================
