SPECIFICATION TSpec
INVARIANT GapFreeStep
POSTCONDITION Accepted
CHECK_DEADLOCK FALSE
