----------------------------------- MODULE PathGuard -----------------------------------
(* C13: no path argument can reach outside the workspace root.
   A path string is modelled by its shape: an anchoring (relative, absolute outside the root,
   absolute inside the root), a sequence of components and an optional trailing slash.
   Components: "a" existing file, "sub" existing directory, "new" missing name, ".." , ".",
   "" (empty component = doubled slash), "long" (300 characters), "uni" (non-ASCII name),
   "bs_up" / "bs_abs" (one component containing backslashes: sub\..\..\a.txt, \<outside>\a.txt - ordinary
   file names on this platform, so they are NOT refused and must stay inside the root).
   Refused(op, s) is the guard every path-taking operation is meant to implement
   (rip-tools builtins resolve_path, rip-workspace safe_join / parse_rel_path / to_relative,
   tasks cwd).  The property itself is effect based and is evaluated by the harness on a
   sentinel tree around the root:
     - nothing outside the root is created, modified or deleted, ever;
     - a refused request changes nothing anywhere (workspace, checkpoint store);
     - no content from outside the root appears in any output. *)
EXTENDS Integers, Sequences, FiniteSets, TLC

CONSTANTS MaxComps, Comps, Ops

\* abs_sib: an absolute path into a SIBLING directory whose name starts with the root's name (<root>-private/...)
Anchors == {"rel", "abs_out", "abs_in", "abs_sib"}
VARIABLES shape, op
Init == shape = [anchor |-> "rel", comps |-> <<>>, trail |-> FALSE] /\ op = "none"
Grow == op = "none" /\ Len(shape.comps) < MaxComps
        /\ \E c \in Comps : shape' = [shape EXCEPT !.comps = Append(@, c)] /\ UNCHANGED op
Anchor == op = "none" /\ shape.comps = <<>> /\ shape.anchor = "rel"
          /\ \E a \in Anchors \ {"rel"} : shape' = [shape EXCEPT !.anchor = a] /\ UNCHANGED op
Trail == op = "none" /\ ~shape.trail /\ shape.comps # <<>> /\ shape' = [shape EXCEPT !.trail = TRUE] /\ UNCHANGED op
Choose == op = "none" /\ \E o \in Ops : op' = o /\ UNCHANGED shape
Next == Grow \/ Anchor \/ Trail \/ Choose
Spec == Init /\ [][Next]_<<shape, op>>

HasDotDot(s) == \E i \in 1..Len(s.comps) : s.comps[i] = ".."
Empty(s) == s.comps = <<>> /\ s.anchor = "rel"
\* the guard: absolute or parent-directory segments are refused.  Checkpoint creation accepts an absolute
\* path that lies inside the root (it is stored relative to the root); a rewind takes an id, not a path.
Refused(o, s) ==
    CASE o = "ckpt_create" -> HasDotDot(s) \/ s.anchor \in {"abs_out", "abs_sib"}
      [] o = "ckpt_rewind" -> TRUE
      [] o = "apply_patch" -> s.anchor # "rel" \/ HasDotDot(s) \/ Empty(s)
      [] OTHER             -> s.anchor # "rel" \/ HasDotDot(s)
\* design-level sanity: whatever is not refused stays lexically inside the root
RECURSIVE Depth(_, _, _)
Depth(cs, i, d) == IF i > Len(cs) THEN d
                   ELSE IF cs[i] = ".." THEN Depth(cs, i + 1, d - 1)
                   ELSE IF cs[i] \in {".", ""} THEN Depth(cs, i + 1, d)
                   ELSE Depth(cs, i + 1, d + 1)
RECURSIVE MinDepth(_, _, _, _)
MinDepth(cs, i, d, m) == IF i > Len(cs) THEN m
                         ELSE LET d2 == IF cs[i] = ".." THEN d - 1 ELSE IF cs[i] \in {".", ""} THEN d ELSE d + 1 IN
                              MinDepth(cs, i + 1, d2, IF d2 < m THEN d2 ELSE m)
StaysInside(s) == s.anchor \notin {"abs_out", "abs_sib"} /\ MinDepth(s.comps, 1, 0, 0) >= 0
GuardSound == op # "none" => (~Refused(op, shape) => StaysInside(shape))
========================================================================================
