------------------------------ MODULE ExecOrder ------------------------------
(* C11 at the level of what a user can observe, with no mention of a lock: mutating executions
   begin and end, side-effects frames appear on the thread, runs end.  The actions of the
   guarded specification are enabled only where the property allows them; the same actions with
   the guards recorded instead of enforced (Observe...) are what implementation traces are
   checked against.  WorkspaceLock (the mechanism) refines the guarded specification. *)
EXTENDS Naturals, Sequences, FiniteSets
CONSTANTS Actors
VARIABLES exec,    \* actors with a mutating execution in progress
          cur,     \* [Actors -> Nat]  id of the mutating execution in progress / last begun (0 = none yet)
          order,   \* Seq(<<a, id>>)   mutating executions in the order they began
          fin,     \* set of <<a, id>> finished
          owed,    \* set of <<a, id>> that owe a side-effects frame (tool call of a run attached to the thread)
          se,      \* Seq(<<a, id>>)   side-effects frames in log order
          ended    \* actors whose run-ended frame is logged
eovars == <<exec, cur, order, fin, owed, se, ended>>
Range(s) == {s[i] : i \in 1..Len(s)}
Pos(s, x) == CHOOSE i \in 1..Len(s) : s[i] = x

EOInit == exec = {} /\ cur = [a \in Actors |-> 0] /\ order = <<>> /\ fin = {} /\ owed = {} /\ se = <<>> /\ ended = {}

\* ---- guards = the property
CanBegin(a) == exec = {}
CanFrame(a, id) == /\ <<a, id>> \in owed /\ <<a, id>> \in fin /\ <<a, id>> \notin Range(se)
                   \* every owed execution that began earlier already has its frame
                   /\ \A p \in owed : (p \in Range(order) /\ Pos(order, p) < Pos(order, <<a, id>>)) => p \in Range(se)
CanRunEnd(a) == \A p \in owed : p[1] = a => p \in Range(se)

DoBegin(a, id, owes) == /\ a \notin exec /\ a \notin ended
                        /\ exec' = exec \cup {a} /\ cur' = [cur EXCEPT ![a] = id]
                        /\ order' = Append(order, <<a, id>>)
                        /\ owed' = IF owes THEN owed \cup {<<a, id>>} ELSE owed
                        /\ UNCHANGED <<fin, se, ended>>
DoEnd(a) == /\ a \in exec
            /\ exec' = exec \ {a} /\ fin' = fin \cup {<<a, cur[a]>>}
            /\ UNCHANGED <<cur, order, owed, se, ended>>
DoFrame(a, id) == se' = Append(se, <<a, id>>) /\ UNCHANGED <<exec, cur, order, fin, owed, ended>>
DoRunEnd(a) == a \notin ended /\ ended' = ended \cup {a} /\ UNCHANGED <<exec, cur, order, fin, owed, se>>

Begin(a, id, owes) == CanBegin(a) /\ DoBegin(a, id, owes)
End(a) == DoEnd(a)
Frame(a, id) == CanFrame(a, id) /\ DoFrame(a, id)
RunEnd(a) == CanRunEnd(a) /\ a \notin exec /\ DoRunEnd(a)
EONext == \E a \in Actors : \/ \E id \in 1..4, owes \in BOOLEAN : id > cur[a] /\ Begin(a, id, owes)
                            \/ End(a) \/ RunEnd(a)
                            \/ \E id \in 1..4 : Frame(a, id)
EOSpec == EOInit /\ [][EONext]_eovars

\* ---- the property as state predicates (hold in every state of EOSpec)
NoOverlap == Cardinality(exec) <= 1
FrameOwedOnce == /\ \A i \in 1..Len(se) : se[i] \in owed
                 /\ \A i, j \in 1..Len(se) : se[i] = se[j] => i = j
FrameAfterEnd == \A i \in 1..Len(se) : se[i] \in fin
FrameOrder == \A i, j \in 1..Len(se) : (i < j /\ se[i] \in Range(order) /\ se[j] \in Range(order))
                                        => Pos(order, se[i]) < Pos(order, se[j])
FrameBeforeRunEnd == \A a \in ended : \A p \in owed : p[1] = a => p \in Range(se)
EOBound == Len(order) <= 4
Property == NoOverlap /\ FrameOwedOnce /\ FrameAfterEnd /\ FrameOrder /\ FrameBeforeRunEnd
=============================================================================
