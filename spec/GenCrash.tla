---------------------------------- MODULE GenCrash ----------------------------------
(* C05: crash classes.  One writer performs appends (and optionally a branch); the process may
   die between any two steps; after the restart one more append is made on the thread that was
   being written.  For every crash class (= the writer's program counter when the process died)
   TLC prints whether the design keeps the store gap-free and every acknowledged append present
   exactly once.  Run with the deviations as implemented and repaired: the classes on which the
   two differ are the signature of finding D1. *)
EXTENDS StoreSeq, Json
VARIABLES crashpc, crasht, post
cvars == <<vars, crashpc, crasht, post>>
W == CHOOSE w \in Writers : TRUE

CInit == Init /\ crashpc = "none" /\ crasht = Root /\ post = "no"

Before == /\ crashpc = "none"
          /\ \/ \E t \in Threads : Pre(W, t) \/ Load(W, t)
             \/ PreLoaded(W) \/ Flush(W) \/ Cache(W) \/ Fin(W)
             \/ CreatePre(W) \/ LineagePre(W) \/ LineageFin(W)
          /\ UNCHANGED <<crashpc, crasht, post>>
CCrash == /\ crashpc = "none" /\ Crash
          /\ crashpc' = pc[W] /\ crasht' = cur[W].t /\ UNCHANGED post
CRestart == crashpc # "none" /\ Restart /\ UNCHANGED <<crashpc, crasht, post>>
\* the post-restart append goes to the thread that was being written when the process died
PostT == IF crasht \in exists \/ TruthLen(crasht) > 0 THEN crasht ELSE Root
After == /\ crashpc # "none" /\ up /\ post # "done"
         /\ \/ (post = "no" /\ (Pre(W, PostT) \/ Load(W, PostT)) /\ post' = "run")
            \/ (post = "run" /\ (PreLoaded(W) \/ Flush(W) \/ Cache(W)) /\ post' = "run")
            \/ (post = "run" /\ Fin(W) /\ post' = "done")
         /\ UNCHANGED <<crashpc, crasht>>
CNext == Before \/ CCrash \/ CRestart \/ After
CSpec == CInit /\ [][CNext]_cvars

Emit == post = "done" =>
          PrintT(<<"CASE", ToJson([crashpc |-> crashpc, thread |-> crasht, gapfree |-> GapFree,
                                   ackedonce |-> AckedOnce, loglen |-> Len(log)])>>)
======================================================================================
