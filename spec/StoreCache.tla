--------------------------------- MODULE StoreCache ---------------------------------
(* The nine rebuildable per-thread cache files as abstract statuses, the faults that can hit
   them, how appends and lazy rebuilds move the statuses, and the accept rule of every fast read
   path (continuity_stream_cache.rs: try_replay, scan_tail, message_count_messages_runs_v1,
   latest_compaction_checkpoint_before_or_at_seq_v1, ensure_... functions).

   Transparent: a fast path may only be taken when every file it trusts is complete; otherwise
   the answer must come from the truth log.  With AsImplemented = TRUE the accept rules are the
   code's (a file that exists and parses is trusted, except: the full sidecar must be contiguous
   from seq 0, and the ordinal index' last record must equal the last message of the
   messages+runs sidecar); TLC then lists exactly the status vectors on which the code can answer
   from an incomplete cache (findings D14a-d).  With AsImplemented = FALSE (accept = complete)
   Transparent is an invariant.

   The module is also the generator of fault sequences for the differential harness: every
   behaviour (appends, faults, restarts) up to MaxSteps is printed with the status vector and the
   prediction, and replayed on the real store, where every read capability is evaluated with the
   caches as found and with the caches removed. *)
EXTENDS Integers, Sequences, FiniteSets, TLC

CONSTANTS MaxSteps, AsImplemented, Files, FaultKinds

Status == {"synced", "absent", "partial", "stale", "cut", "garbage", "empty"}
\* synced  - complete and well formed
\* absent  - file does not exist
\* partial - re-created by an append after it was lost: holds only the entries appended since
\* stale   - an earlier complete version (rolled back / one entry behind after a crash)
\* cut     - truncated inside a record;  garbage - overwritten;  empty - zero length

VARIABLES st, hist, dirty    \* dirty: the thread got entries of that class since the last fault-free point
vars == <<st, hist, dirty>>

Touches(kind) == CASE kind = "msg"   -> {"full", "msgidx", "mr", "mrseek", "mrmsg", "mrord"}
                   [] kind = "ckpt"  -> {"full", "comp", "compidx"}
                   [] OTHER          -> {"full"}
\* what an append does to a file it touches (append_best_effort opens with create+append)
AfterAppend(s) == CASE s = "synced" -> "synced" [] s = "absent" -> "partial" [] s = "empty" -> "partial"
                    [] s = "partial" -> "partial" [] s = "stale" -> "stale"
                    [] s = "cut" -> "garbage" [] OTHER -> "garbage"
AfterFault(s, k) == CASE k = "delete" -> "absent" [] k = "truncate" -> IF s = "absent" THEN "absent" ELSE "cut"
                      [] k = "garbage" -> IF s = "absent" THEN "absent" ELSE "garbage"
                      [] k = "empty" -> IF s = "absent" THEN "absent" ELSE "empty"
                      [] k = "rollback" -> IF s = "synced" THEN "stale" ELSE s
                      [] OTHER -> s

Complete(s) == s = "synced"
Parses(s)   == s \in {"synced", "partial", "stale"}
\* a JSON-lines sidecar of length zero parses (as "no entries"): scan_sidecar_backwards returns an empty, complete scan
ParsesJsonl(s) == Parses(s) \/ s = "empty"

(* accept rules *)
AcceptFull == IF AsImplemented THEN st["full"] \in {"synced", "stale"} ELSE Complete(st["full"])
TailConsistent == \/ (st["mr"] \in {"synced", "partial"} /\ st["mrord"] \in {"synced", "partial"})
                  \/ (st["mr"] = "stale" /\ st["mrord"] = "stale")
\* whenever the (messages+runs sidecar, ordinal index) pair cannot be accepted as it is - a file missing, empty or unreadable,
\* or the two inconsistent with each other - the messages+runs sidecar is rebuilt from the full sidecar when that one is
\* accepted (rebuild_messages_runs_from_full_sidecar_best_effort_v1); the ordinal index next to it is left as it is
TailConsistentOf(mr) == \/ (mr \in {"synced", "partial"} /\ st["mrord"] \in {"synced", "partial"})
                        \/ (mr = "stale" /\ st["mrord"] = "stale")
AcceptAsIs == Parses(st["mr"]) /\ Parses(st["mrord"]) /\ TailConsistentOf(st["mr"])
MrRebuilt == AsImplemented /\ ~AcceptAsIs /\ st["full"] # "absent" /\ AcceptFull
EffMr == IF MrRebuilt THEN "synced" ELSE st["mr"]
AcceptCount == IF AsImplemented THEN Parses(EffMr) /\ Parses(st["mrord"]) /\ TailConsistentOf(EffMr)
               ELSE Complete(st["mr"]) /\ Complete(st["mrord"])
\* an absent derived sidecar is rebuilt from the full sidecar when that one exists (ensure_... functions): trusted as the full one is
DerivedOK(f) == IF st[f] = "absent" THEN (st["full"] # "absent" /\ AcceptFull) ELSE
                IF AsImplemented THEN ParsesJsonl(st[f]) ELSE Complete(st[f])
AcceptComp == DerivedOK("comp")

\* which queries can be answered from which accepted caches; a query is transparent iff every cache it
\* accepts is complete (or was derived from a complete full sidecar)
FullTrusted  == AcceptFull /\ ~Complete(st["full"])
CountTrusted == AcceptCount /\ ~(Complete(EffMr) /\ Complete(st["mrord"]))
CompTrusted  == AcceptComp /\ ~(Complete(st["comp"]) \/ (st["comp"] = "absent" /\ Complete(st["full"])))
\* the context compiler reads the messages+runs tail and the checkpoint index directly: a file that exists and
\* parses is trusted there without any cross-check
MrTrusted      == IF AsImplemented THEN ParsesJsonl(st["mr"]) /\ ~Complete(st["mr"]) ELSE FALSE
CompIdxTrusted == IF AsImplemented THEN ParsesJsonl(st["compidx"]) /\ ~Complete(st["compidx"]) ELSE FALSE
Culprits == (IF FullTrusted THEN {"full"} ELSE {})
       \cup (IF CountTrusted THEN {"mr/mrord"} ELSE {})
       \cup (IF CompTrusted THEN {"comp"} ELSE {})
       \cup (IF MrTrusted THEN {"mr"} ELSE {})
       \cup (IF CompIdxTrusted THEN {"compidx"} ELSE {})
Transparent == Culprits = {}

Init == st = [f \in Files |-> "synced"] /\ hist = <<>> /\ dirty = {}

DoAppend(kind) == /\ Len(hist) < MaxSteps
                /\ st' = [f \in Files |-> IF f \in Touches(kind) THEN AfterAppend(st[f]) ELSE st[f]]
                /\ hist' = Append(hist, [a |-> "append", kind |-> kind])
                /\ dirty' = dirty \cup {kind}
Fault(f, k) == /\ Len(hist) < MaxSteps /\ AfterFault(st[f], k) # st[f]
               /\ st' = [st EXCEPT ![f] = AfterFault(st[f], k)]
               /\ hist' = Append(hist, [a |-> "fault", file |-> f, kind |-> k])
               /\ UNCHANGED dirty
Restart == /\ Len(hist) < MaxSteps /\ hist # <<>> /\ hist[Len(hist)].a # "restart"
           /\ hist' = Append(hist, [a |-> "restart"]) /\ UNCHANGED <<st, dirty>>
\* a reader that rejects the full sidecar replays the truth log and rebuilds every cache
RebuildAll == /\ Len(hist) < MaxSteps /\ ~AcceptFull /\ hist # <<>> /\ hist[Len(hist)].a # "read"
              /\ st' = [f \in Files |-> "synced"]
              /\ hist' = Append(hist, [a |-> "read"]) /\ UNCHANGED dirty
Next == \/ \E kind \in {"msg", "ckpt", "other"} : DoAppend(kind)
        \/ \E f \in Files, k \in FaultKinds : Fault(f, k)
        \/ Restart \/ RebuildAll
Spec == Init /\ [][Next]_vars
TypeOK == \A f \in Files : st[f] \in Status
======================================================================================
