SPECIFICATION Spec
CONSTANTS MaxTotal = 6 MaxP = 4 MaxA = 5 Handover = "total"
INVARIANTS Faithful
CHECK_DEADLOCK FALSE
