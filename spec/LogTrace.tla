--------------------------------- MODULE LogTrace ---------------------------------
(* Property-level trace validation of long free-running executions (C01, direction B):
   the only events are the linearisation points "log.flushed" (the frame's line is on disk)
   and "restart".  GapFree is evaluated incrementally: the seq of every flushed frame must be
   the number of frames of its stream flushed before it (this is GapFree in file order). *)
EXTENDS Integers, Sequences, TLC, Json, IOUtils

Rec == ndJsonDeserialize(IOEnv.TRACE)
VARIABLES l, cnt, lastok, frames
tvars == <<l, cnt, lastok, frames>>

Count(s) == IF s \in DOMAIN cnt THEN cnt[s] ELSE 0
TInit == l = 1 /\ cnt = <<>> /\ lastok = TRUE /\ frames = 0
TFlushed == /\ l <= Len(Rec) /\ Rec[l].ev = "log.flushed" /\ l' = l + 1
            /\ LET s == Rec[l].stream  q == Rec[l].seq IN
               /\ lastok' = (q = Count(s))
               /\ cnt' = [x \in (DOMAIN cnt) \cup {s} |-> IF x = s THEN Count(s) + 1 ELSE cnt[x]]
            /\ frames' = frames + 1
TReset == /\ l <= Len(Rec) /\ Rec[l].ev = "reset" /\ l' = l + 1
          /\ cnt' = <<>> /\ lastok' = TRUE /\ frames' = 0
TOther == /\ l <= Len(Rec) /\ Rec[l].ev \notin {"log.flushed", "reset"} /\ l' = l + 1
          /\ UNCHANGED <<cnt, lastok, frames>>
TNext == TFlushed \/ TReset \/ TOther
TSpec == TInit /\ [][TNext]_tvars

GapFreeStep == lastok \/ (PrintT(<<"BADSEQ", ToJson([at |-> l - 1, ev |-> Rec[l - 1]])>>) /\ FALSE)
Accepted == LET d == TLCGet("stats").diameter IN
            \/ d - 1 = Len(Rec)
            \/ PrintT(<<"REJECTED", ToJson([at |-> d])>>)
=================================================================================
