SPECIFICATION Spec
CONSTANTS
  MaxFrames = 5
  MaxThreads = 2
  MaxOps = 3
  EmitOps = {"message","run_spawned","run_ended","side_effects","cursor_update","checkpoint","cut_points","status","auto","schedule","cursor_status","cursor_rotate","selection_status","replay","branch","handoff"}
  PathOps = {"message","run_spawned","run_ended","side_effects","cursor_update","checkpoint","cut_points","status","auto","schedule","cursor_status","cursor_rotate","selection_status","replay","branch","handoff"}
VIEW View
INVARIANTS Emit CutPointsAreStrideMessages AutoIdempotent ReadOnlyQuiet LineageSound BundleSound
CHECK_DEADLOCK FALSE
