SPECIFICATION Spec
CONSTANTS
  N = 3
  NB = 0
  B0 = 0
  RecordFirst = TRUE
  PreRecorded = 0
INVARIANT Emit
CHECK_DEADLOCK FALSE
