SPECIFICATION Spec
CONSTANTS
  Procs <- P3
  Dead = "dead"
  Resident = "res"
  StartStates <- AllStarts
  MaxRetries = 2
  DeadlineFails = TRUE
  AsImplemented = TRUE
  OrphanMetaKept = FALSE
  CorruptIgnoresMeta = FALSE
  MayRelease = TRUE
  DropBeforeDrain = FALSE
INVARIANTS Probe
CHECK_DEADLOCK FALSE
