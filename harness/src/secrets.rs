//! C19 engine: one configuration of the secret-supply space per case.  Config layers are written
//! to disk, environment variables are set (process-global: cases run one after the other), a
//! scripted provider plays the outcome, one message is posted to a thread through the real router,
//! /config/doctor is queried, and every persisted byte, every response and the process's own
//! stderr are searched for the canary values (raw, base64, hex, percent-encoded).
use std::path::{Path, PathBuf};
use std::time::Duration;

use serde_json::{json, Value};

use crate::provider::{Provider, Resp};
use crate::util::{self, get_bool, get_str, NdjsonOut};

const ENV_KEYS: &[&str] = &[
    "RIP_CONFIG_HOME", "RIP_CONFIG", "HOME", "RIP_OPENRESPONSES_ENDPOINT", "RIP_OPENRESPONSES_API_KEY", "OPENAI_API_KEY",
    "OPENROUTER_API_KEY", "RIP_OPENRESPONSES_MODEL", "RIP_OPENRESPONSES_DUMP_REQUEST", "RIP_OPENRESPONSES_STATELESS_HISTORY",
    "CANARY_ENV_1", "CANARY_ENV_2", "CANARY_ENV_3",
];

fn b64(data: &[u8]) -> String {
    const T: &[u8] = b"ABCDEFGHIJKLMNOPQRSTUVWXYZabcdefghijklmnopqrstuvwxyz0123456789+/";
    let mut out = String::new();
    for c in data.chunks(3) {
        let n = (c[0] as u32) << 16 | (*c.get(1).unwrap_or(&0) as u32) << 8 | *c.get(2).unwrap_or(&0) as u32;
        out.push(T[(n >> 18) as usize & 63] as char);
        out.push(T[(n >> 12) as usize & 63] as char);
        out.push(if c.len() > 1 { T[(n >> 6) as usize & 63] as char } else { '=' });
        out.push(if c.len() > 2 { T[n as usize & 63] as char } else { '=' });
    }
    out
}

fn forms(secret: &str) -> Vec<(String, Vec<u8>)> {
    let mut v = vec![("raw".to_string(), secret.as_bytes().to_vec())];
    let b = b64(secret.as_bytes());
    v.push(("base64".into(), b.trim_end_matches('=').as_bytes().to_vec()));
    v.push(("hex".into(), hex::encode(secret.as_bytes()).into_bytes()));
    let pct: String = secret.bytes().map(|c| if c.is_ascii_alphanumeric() { (c as char).to_string() } else { format!("%{c:02X}") }).collect();
    if pct != secret {
        v.push(("percent".into(), pct.into_bytes()));
    }
    // a distinctive inner part (a secret printed in masked / truncated form)
    if secret.len() >= 16 {
        v.push(("middle".into(), secret.as_bytes()[4..secret.len() - 4].to_vec()));
    }
    v
}

fn find(hay: &[u8], needle: &[u8]) -> Option<usize> {
    if needle.is_empty() || hay.len() < needle.len() {
        return None;
    }
    hay.windows(needle.len()).position(|w| w == needle)
}

fn search(label: &str, bytes: &[u8], secrets: &[(String, String)], hits: &mut Vec<Value>) {
    for (name, value) in secrets {
        for (form, needle) in forms(value) {
            if let Some(at) = find(bytes, &needle) {
                let lo = at.saturating_sub(40);
                let hi = (at + needle.len() + 20).min(bytes.len());
                hits.push(json!({"sink": label, "secret": name, "form": form, "offset": at,
                                 "context": String::from_utf8_lossy(&bytes[lo..hi]).replace(value.as_str(), "<SECRET>")}));
            }
        }
    }
}

fn walk(dir: &Path, skip: &[PathBuf], f: &mut dyn FnMut(&Path)) {
    let Ok(rd) = std::fs::read_dir(dir) else { return };
    for e in rd.flatten() {
        let p = e.path();
        if skip.iter().any(|s| *s == p) {
            continue;
        }
        if p.is_dir() {
            walk(&p, skip, f);
        } else {
            f(&p);
        }
    }
}

pub fn engine_secrets(rt: &tokio::runtime::Runtime, cases: Vec<Value>, out: &mut NdjsonOut) {
    let saved_stderr = unsafe { libc::dup(2) };
    for case in cases {
        let root = util::scratch_root().join(format!("sec-{}", uuid::Uuid::new_v4().simple()));
        let data = root.join("data");
        let ws = root.join("ws");
        let home = root.join("home");
        let cfghome = root.join("cfghome");
        std::fs::create_dir_all(&data).unwrap();
        std::fs::create_dir_all(ws.join(".git")).unwrap();
        std::fs::create_dir_all(&home).unwrap();
        std::fs::create_dir_all(&cfghome).unwrap();
        let errfile = root.join("stderr.txt");
        // ---- provider
        let script: Vec<Resp> = case["script"].as_array().map(|a| a.iter().map(Resp::from_json).collect()).unwrap_or_default();
        let provider = rt.block_on(Provider::start(script));
        let dead = "http://127.0.0.1:9/v1/responses".to_string();
        let subst = |s: &str| s.replace("@@ENDPOINT@@", &provider.url).replace("@@DEAD@@", &dead);
        // ---- config layers
        let mut written: Vec<PathBuf> = Vec::new();
        let custom = root.join("custom.jsonc");
        for (key, path) in [("global", cfghome.join("config.jsonc")), ("custom", custom.clone()), ("project", ws.join("rip.json"))] {
            if let Some(text) = get_str(&case["layers"], key) {
                std::fs::write(&path, subst(text)).unwrap();
                written.push(path);
            }
        }
        // ---- environment
        for k in ENV_KEYS {
            std::env::remove_var(k);
        }
        std::env::set_var("HOME", &home);
        std::env::set_var("RIP_CONFIG_HOME", &cfghome);
        if case["layers"].get("custom").map(|v| !v.is_null()).unwrap_or(false) {
            std::env::set_var("RIP_CONFIG", &custom);
        }
        if let Some(env) = case["env"].as_object() {
            for (k, v) in env {
                std::env::set_var(k, subst(v.as_str().unwrap_or("")));
            }
        }
        // ---- run with stderr captured
        if let Ok(f) = std::fs::File::create(&errfile) {
            use std::os::unix::io::AsRawFd;
            unsafe { libc::dup2(f.as_raw_fd(), 2) };
        }
        let override_ep = get_str(&case, "override_endpoint").map(subst);
        let input = get_str(&case, "input").unwrap_or("hello there").to_string();
        let (doctor, http, thread_id, session_id, sse) = rt.block_on(async {
            // as `rip serve` does at start-up: the provider configuration the environment gives (None without an endpoint)
            let from_env = ripd::verif_api::OpenResponsesConfig::from_env();
            let server = crate::srv::Server::start(data.clone(), ws.clone(), from_env, false).await;
            let base = server.base.clone();
            let client = reqwest::Client::new();
            let v: Value = client.post(format!("{base}/threads/ensure")).send().await.unwrap().json().await.unwrap_or(Value::Null);
            let tid = v["thread_id"].as_str().unwrap_or("").to_string();
            let mut body = json!({"content": input});
            if let Some(ep) = &override_ep {
                body["openresponses"] = json!({"endpoint": ep});
            }
            let r = client.post(format!("{base}/threads/{tid}/messages")).json(&body).send().await;
            let (st, sid) = match r {
                Ok(resp) => {
                    let st = resp.status().as_u16();
                    let v: Value = resp.json().await.unwrap_or(Value::Null);
                    (st, v["session_id"].as_str().unwrap_or("").to_string())
                }
                Err(_) => (0, String::new()),
            };
            let deadline = std::time::Instant::now() + Duration::from_secs(12);
            while std::time::Instant::now() < deadline {
                let ended = crate::runs::frames_of(&data, &tid).iter().any(|f| f["type"] == "continuity_run_ended");
                if ended {
                    break;
                }
                tokio::time::sleep(Duration::from_millis(15)).await;
            }
            tokio::time::sleep(Duration::from_millis(40)).await;
            let doctor = match client.get(format!("{base}/config/doctor")).send().await {
                Ok(r) => r.text().await.unwrap_or_default(),
                Err(_) => String::new(),
            };
            // the replayed event stream of the run, as a client would read it
            let sse = match tokio::time::timeout(Duration::from_millis(600), async {
                match client.get(format!("{base}/sessions/{sid}/events")).send().await {
                    Ok(r) => r.text().await.unwrap_or_default(),
                    Err(_) => String::new(),
                }
            })
            .await
            {
                Ok(s) => s,
                Err(_) => String::new(),
            };
            server.stop().await;
            (doctor, st, tid, sid, sse)
        });
        unsafe { libc::dup2(saved_stderr, 2) };
        let requests = provider.stop();
        for k in ENV_KEYS {
            std::env::remove_var(k);
        }
        // ---- search
        let secrets: Vec<(String, String)> = case["secrets"].as_object().map(|m| m.iter().map(|(k, v)| (k.clone(), v.as_str().unwrap_or("").to_string())).collect()).unwrap_or_default();
        let mut hits = Vec::new();
        let mut nfiles = 0usize;
        let mut nbytes = 0usize;
        for dir in [&data, &ws, &home, &cfghome] {
            walk(dir, &written, &mut |p: &Path| {
                if let Ok(b) = std::fs::read(p) {
                    nfiles += 1;
                    nbytes += b.len();
                    search(&format!("file:{}", p.strip_prefix(&root).unwrap_or(p).display()), &b, &secrets, &mut hits);
                }
            });
        }
        search("doctor", doctor.as_bytes(), &secrets, &mut hits);
        search("sse", sse.as_bytes(), &secrets, &mut hits);
        let err_bytes = std::fs::read(&errfile).unwrap_or_default();
        search("process_stderr", &err_bytes, &secrets, &mut hits);
        let frames = crate::runs::frames_of(&data, &session_id);
        let kinds: Vec<Value> = frames.iter().map(|f| f["type"].clone()).collect();
        let auth: Vec<Value> = requests.iter().map(|r| json!({"authorization": r["headers"]["authorization"], "x-secret-1": r["headers"]["x-secret-1"],
                                                               "x-secret-2": r["headers"]["x-secret-2"], "x-secret-3": r["headers"]["x-secret-3"],
                                                               "x-gateway-signature": r["headers"]["x-gateway-signature"], "x-upstream-passphrase": r["headers"]["x-upstream-passphrase"]})).collect();
        out.write(&json!({"id": case["id"], "http": http, "doctor": serde_json::from_str::<Value>(&doctor).unwrap_or(Value::Null), "hits": hits,
                          "files_searched": nfiles, "bytes_searched": nbytes + doctor.len() + sse.len() + err_bytes.len(), "requests": auth,
                          "frame_kinds": kinds, "thread": thread_id, "dump_frames": frames.iter().filter(|f| f["type"] == "openresponses_request").count(),
                          "stderr_len": err_bytes.len(), "keep": get_bool(&case, "keep").unwrap_or(false)}));
        let _ = std::fs::remove_dir_all(&root);
    }
    unsafe { libc::close(saved_stderr) };
}
