//! The process-global verification sink: trace recorder, gate scheduler, crash snapshotter,
//! fail-point arming.  Installed once into `rip_kernel::verif`.
use std::collections::{HashMap, HashSet};
use std::path::PathBuf;
use std::sync::{Arc, Condvar, Mutex, OnceLock};
use std::time::{Duration, Instant};

use serde_json::{json, Value};

use crate::util;

#[derive(Default)]
struct Snap {
    points: HashSet<String>,
    dirs: Vec<(PathBuf, String)>,
    out: PathBuf,
    taken: Vec<Value>,
}

#[derive(Default)]
struct Inner {
    trace: Vec<Value>,
    next_i: u64,
    record: bool,
    gate_on: bool,
    gate_points: HashSet<String>,
    gated_actors: HashSet<u32>,
    arrived: HashMap<u32, (String, Value)>,
    grants: HashSet<u32>,
    finished: HashSet<u32>,
    stream_actor: HashMap<String, u32>,
    prefix_actor: Vec<(String, u32)>,
    sk_actor: HashMap<String, u32>,
    snap: Option<Snap>,
    fail: Option<(String, u64, Option<String>)>,
    fail_hits: u64,
    yield_seed: Option<u64>,
    // overtake mode: delay an append at log.pre until a later seq of the same stream is flushed
    overtake: Option<(HashSet<String>, Duration)>,
    overtake_cache: bool, // delay at cache.enter until a later seq of the stream passed cache.exit (instead of log.pre / log.flushed)
    cache_max: HashMap<String, u64>,
    flushed_max: HashMap<String, u64>,
    delaying: HashSet<String>,
    overtaken: u64,
    // hold mode: the first arrival at `point` whose fields match `filter` parks until released
    hold: Option<Hold>,
    jitter: Option<(u64, u64)>, // (xorshift state, max sleep in microseconds)
    // ack-on-disk mode: at log.flushed (the append is about to be acknowledged, the writer mutex is still
    // held) the last line of the log file must be the frame just appended
    ackdisk: Option<PathBuf>,
    ack_checked: u64,
    ack_missing: Vec<Value>,
}

#[derive(Clone, Debug)]
struct Hold {
    point: String,
    filter: Value,
    state: u8, // 0 armed, 1 held, 2 released
    nth: u64,  // park the nth matching arrival
    seen: u64,
    held_at: u64,
    fields: Value,
}

pub struct Hub {
    inner: Mutex<Inner>,
    cv: Condvar,
}

pub enum Arrival {
    At(String, Value),
    Finished,
    Timeout,
}

static HUB: OnceLock<Arc<Hub>> = OnceLock::new();

pub fn hub() -> Arc<Hub> {
    HUB.get_or_init(|| {
        let hub = Arc::new(Hub {
            inner: Mutex::new(Inner::default()),
            cv: Condvar::new(),
        });
        rip_kernel::verif::install(hub.clone());
        hub
    })
    .clone()
}

impl rip_kernel::verif::Sink for Hub {
    fn point(&self, name: &'static str, actor: u32, fields: Value) -> bool {
        let mut do_yield = false;
        let mut jitter_us = 0u64;
        let fail;
        {
            let mut g = self.inner.lock().unwrap();
            let a = if actor != 0 {
                actor
            } else if let Some((_, pa)) = g.prefix_actor.iter().find(|(p, _)| name.starts_with(p.as_str())) {
                *pa
            } else {
                fields
                    .get("stream")
                    .and_then(|s| s.as_str())
                    .and_then(|s| g.stream_actor.get(s).copied())
                    .or_else(|| {
                        fields
                            .get("sk")
                            .and_then(|s| s.as_str())
                            .and_then(|s| g.sk_actor.get(s).copied())
                    })
                    .unwrap_or(0)
            };
            if g.record {
                let i = g.next_i;
                g.next_i += 1;
                let mut rec = json!({"i": i, "actor": a, "ev": name});
                if let (Some(obj), Some(f)) = (rec.as_object_mut(), fields.as_object()) {
                    for (k, v) in f {
                        if !v.is_null() {
                            // TLC's Json module has no null
                            obj.insert(k.clone(), v.clone());
                        }
                    }
                }
                g.trace.push(rec);
            }
            if let Some(snap) = g.snap.as_mut() {
                if snap.points.contains(name) {
                    let k = snap.taken.len();
                    let dir = snap.out.join(format!("{k:03}-{name}"));
                    for (src, sub) in &snap.dirs {
                        let _ = util::copy_dir(src, &dir.join(sub));
                    }
                    snap.taken.push(json!({"k": k, "point": name, "fields": fields, "dir": dir.to_string_lossy()}));
                }
            }
            let mut f = false;
            if let Some((point, nth, kind)) = g.fail.clone() {
                let kind_ok = kind
                    .as_deref()
                    .map(|k| fields.get("kind").and_then(|x| x.as_str()) == Some(k))
                    .unwrap_or(true);
                if point == name && kind_ok {
                    g.fail_hits += 1;
                    if g.fail_hits == nth {
                        f = true;
                    }
                }
            }
            fail = f;
            if name == "log.flushed" {
                if let Some(path) = g.ackdisk.clone() {
                    let want = fields.get("bytes").and_then(|b| b.as_u64()).unwrap_or(0);
                    let id = fields.get("id").and_then(|b| b.as_str()).unwrap_or("").to_string();
                    let tail = util::file_tail(&path, want);
                    let ok = tail
                        .as_ref()
                        .map(|t| t.ends_with(b"\n") && serde_json::from_slice::<Value>(t).ok().and_then(|v| v.get("id").and_then(|x| x.as_str()).map(|x| x == id)).unwrap_or(false))
                        .unwrap_or(false);
                    g.ack_checked += 1;
                    if !ok && g.ack_missing.len() < 20 {
                        let mut f = fields.clone();
                        if let Some(o) = f.as_object_mut() {
                            o.insert("file_len".into(), json!(std::fs::metadata(&path).map(|m| m.len()).unwrap_or(0)));
                        }
                        g.ack_missing.push(f);
                    }
                }
                if let (Some(st), Some(q)) = (
                    fields.get("stream").and_then(|s| s.as_str()),
                    fields.get("seq").and_then(|s| s.as_u64()),
                ) {
                    let e = g.flushed_max.entry(st.to_string()).or_insert(0);
                    if q >= *e {
                        *e = q;
                    }
                    self.cv.notify_all();
                }
            }
            if name == "cache.exit" && g.overtake_cache {
                if let (Some(st), Some(q)) = (fields.get("stream").and_then(|s| s.as_str()), fields.get("seq").and_then(|s| s.as_u64())) {
                    let e = g.cache_max.entry(st.to_string()).or_insert(0);
                    if q >= *e {
                        *e = q;
                    }
                    self.cv.notify_all();
                }
            }
            if name == "cache.enter" && g.overtake_cache {
                if let Some((_, wait)) = g.overtake.clone() {
                    let st = fields.get("stream").and_then(|s| s.as_str()).unwrap_or("").to_string();
                    let q = fields.get("seq").and_then(|s| s.as_u64()).unwrap_or(0);
                    let deadline = Instant::now() + wait;
                    let first = q > 0 && g.delaying.insert(st.clone());
                    while first {
                        if g.cache_max.get(&st).map(|m| *m > q).unwrap_or(false) {
                            g.overtaken += 1;
                            break;
                        }
                        let now = Instant::now();
                        if now >= deadline || g.overtake.is_none() {
                            break;
                        }
                        let (ng, _) = self.cv.wait_timeout(g, deadline - now).unwrap();
                        g = ng;
                    }
                    if first {
                        g.delaying.remove(&st);
                    }
                }
            }
            if (name == "log.pre" || name == "emit.numbered") && !g.overtake_cache {
                if let Some((kinds, wait)) = g.overtake.clone() {
                    let sk = fields.get("sk").and_then(|s| s.as_str()).unwrap_or("");
                    if kinds.contains(sk) {
                        let st = fields.get("stream").and_then(|s| s.as_str()).unwrap_or("").to_string();
                        let q = fields.get("seq").and_then(|s| s.as_u64()).unwrap_or(0);
                        let deadline = Instant::now() + wait;
                        // one delayed frame per stream at a time: the others must be free to overtake it
                        let first = g.delaying.insert(st.clone());
                        while first {
                            if g.flushed_max.get(&st).map(|m| *m > q).unwrap_or(false) {
                                g.overtaken += 1;
                                break;
                            }
                            let now = Instant::now();
                            if now >= deadline || g.overtake.is_none() {
                                break;
                            }
                            let (ng, _) = self.cv.wait_timeout(g, deadline - now).unwrap();
                            g = ng;
                        }
                        if first {
                            g.delaying.remove(&st);
                        }
                    }
                }
            }
            let mut park = false;
            if let Some(h) = g.hold.as_mut() {
                if h.state == 0 && h.point == name {
                    let ok = h
                        .filter
                        .as_object()
                        .map(|m| m.iter().all(|(k, v)| fields.get(k) == Some(v)))
                        .unwrap_or(true);
                    if ok {
                        h.seen += 1;
                    }
                    if ok && h.seen == h.nth {
                        h.state = 1;
                        h.fields = fields.clone();
                        park = true;
                    }
                }
            }
            if park {
                let at = g.next_i;
                if let Some(h) = g.hold.as_mut() {
                    h.held_at = at;
                }
                self.cv.notify_all();
                let deadline = Instant::now() + Duration::from_secs(15);
                loop {
                    if g.hold.as_ref().map(|h| h.state != 1).unwrap_or(true) {
                        break;
                    }
                    let now = Instant::now();
                    if now >= deadline {
                        break;
                    }
                    let (ng, _) = self.cv.wait_timeout(g, deadline - now).unwrap();
                    g = ng;
                }
            }
            if let Some((st, max_us)) = g.jitter.as_mut() {
                *st ^= *st << 13;
                *st ^= *st >> 7;
                *st ^= *st << 17;
                if *max_us > 0 && *st % 3 != 0 {
                    jitter_us = (*st >> 8) % *max_us;
                }
            }
            if g.gate_on && g.gate_points.contains(name) && g.gated_actors.contains(&a) {
                g.arrived.insert(a, (name.to_string(), fields.clone()));
                self.cv.notify_all();
                loop {
                    if !g.gate_on || g.grants.remove(&a) {
                        break;
                    }
                    g = self.cv.wait(g).unwrap();
                }
                g.arrived.remove(&a);
                self.cv.notify_all();
            } else if let Some(seed) = g.yield_seed.as_mut() {
                // xorshift; free-running mode: perturb the schedule a little at every point
                *seed ^= *seed << 13;
                *seed ^= *seed >> 7;
                *seed ^= *seed << 17;
                do_yield = *seed % 4 == 0;
            }
        }
        if do_yield {
            std::thread::yield_now();
        }
        if jitter_us > 0 {
            std::thread::sleep(Duration::from_micros(jitter_us));
        }
        fail
    }
}

impl Hub {
    pub fn reset(&self) {
        let mut g = self.inner.lock().unwrap();
        *g = Inner::default();
        self.cv.notify_all();
    }
    pub fn set_ackdisk(&self, path: Option<PathBuf>) {
        let mut g = self.inner.lock().unwrap();
        g.ackdisk = path;
        g.ack_checked = 0;
        g.ack_missing.clear();
    }
    pub fn take_ackdisk(&self) -> (u64, Vec<Value>) {
        let mut g = self.inner.lock().unwrap();
        g.ackdisk = None;
        (g.ack_checked, std::mem::take(&mut g.ack_missing))
    }
    pub fn set_record(&self, on: bool) {
        self.inner.lock().unwrap().record = on;
    }
    pub fn set_overtake(&self, kinds: &[&str], wait: Duration) {
        let mut g = self.inner.lock().unwrap();
        g.overtake = Some((kinds.iter().map(|s| s.to_string()).collect(), wait));
        g.flushed_max.clear();
        g.overtaken = 0;
    }
    pub fn set_overtake_cache(&self, wait: Duration) {
        let mut g = self.inner.lock().unwrap();
        g.overtake = Some((HashSet::new(), wait));
        g.overtake_cache = true;
        g.cache_max.clear();
        g.overtaken = 0;
    }
    pub fn end_overtake(&self) -> u64 {
        let mut g = self.inner.lock().unwrap();
        g.overtake = None;
        self.cv.notify_all();
        g.overtaken
    }
    pub fn set_jitter(&self, seed: Option<(u64, u64)>) {
        self.inner.lock().unwrap().jitter = seed.map(|(s, m)| (s | 1, m));
    }
    pub fn arm_hold(&self, point: &str, filter: Value, nth: u64) {
        let mut g = self.inner.lock().unwrap();
        g.hold = Some(Hold { point: point.to_string(), filter, state: 0, held_at: 0, fields: Value::Null, nth: nth.max(1), seen: 0 });
    }
    /// Wait until the armed hold has caught an arrival; returns the trace index at that moment.
    pub fn wait_held(&self, timeout: Duration) -> Option<(u64, Value)> {
        let deadline = Instant::now() + timeout;
        let mut g = self.inner.lock().unwrap();
        loop {
            if let Some(h) = g.hold.as_ref() {
                if h.state == 1 {
                    return Some((h.held_at, h.fields.clone()));
                }
            }
            let now = Instant::now();
            if now >= deadline {
                return None;
            }
            let (ng, _) = self.cv.wait_timeout(g, deadline - now).unwrap();
            g = ng;
        }
    }
    pub fn release_hold(&self) -> u64 {
        let mut g = self.inner.lock().unwrap();
        if let Some(h) = g.hold.as_mut() {
            h.state = 2;
        }
        self.cv.notify_all();
        g.next_i
    }
    pub fn trace_len(&self) -> u64 {
        self.inner.lock().unwrap().next_i
    }
    pub fn set_yield_seed(&self, seed: Option<u64>) {
        self.inner.lock().unwrap().yield_seed = seed.map(|s| s | 1);
    }
    pub fn note(&self, v: Value) {
        let mut g = self.inner.lock().unwrap();
        if g.record {
            let i = g.next_i;
            g.next_i += 1;
            let mut v = v;
            if let Some(o) = v.as_object_mut() {
                o.insert("i".into(), json!(i));
            }
            g.trace.push(v);
        }
    }
    pub fn take_trace(&self) -> Vec<Value> {
        std::mem::take(&mut self.inner.lock().unwrap().trace)
    }
    pub fn map_stream(&self, stream: &str, actor: u32) {
        self.inner
            .lock()
            .unwrap()
            .stream_actor
            .insert(stream.to_string(), actor);
    }
    pub fn map_sk(&self, sk: &str, actor: u32) {
        self.inner.lock().unwrap().sk_actor.insert(sk.to_string(), actor);
    }
    pub fn map_prefix(&self, prefix: &str, actor: u32) {
        self.inner
            .lock()
            .unwrap()
            .prefix_actor
            .push((prefix.to_string(), actor));
    }
    pub fn arm_fail(&self, point: &str, nth: u64, kind: Option<String>) {
        let mut g = self.inner.lock().unwrap();
        g.fail = Some((point.to_string(), nth, kind));
        g.fail_hits = 0;
    }
    pub fn disarm_fail(&self) {
        self.inner.lock().unwrap().fail = None;
    }
    pub fn snap_begin(&self, points: &[&str], dirs: Vec<(PathBuf, String)>, out: PathBuf) {
        let mut g = self.inner.lock().unwrap();
        g.snap = Some(Snap {
            points: points.iter().map(|s| s.to_string()).collect(),
            dirs,
            out,
            taken: Vec::new(),
        });
    }
    pub fn snap_end(&self) -> Vec<Value> {
        self.inner
            .lock()
            .unwrap()
            .snap
            .take()
            .map(|s| s.taken)
            .unwrap_or_default()
    }
    pub fn gate_begin(&self, points: &[&str], actors: &[u32]) {
        let mut g = self.inner.lock().unwrap();
        g.gate_on = true;
        g.gate_points = points.iter().map(|s| s.to_string()).collect();
        g.gated_actors = actors.iter().copied().collect();
        g.arrived.clear();
        g.grants.clear();
        g.finished.clear();
    }
    pub fn gate_end(&self) {
        let mut g = self.inner.lock().unwrap();
        g.gate_on = false;
        self.cv.notify_all();
    }
    pub fn mark_finished(&self, actor: u32) {
        let mut g = self.inner.lock().unwrap();
        g.finished.insert(actor);
        self.cv.notify_all();
    }
    pub fn is_finished(&self, actor: u32) -> bool {
        self.inner.lock().unwrap().finished.contains(&actor)
    }
    /// Wait until `actor` is parked at a gate point or has finished.
    pub fn wait_arrival(&self, actor: u32, timeout: Duration) -> Arrival {
        let deadline = Instant::now() + timeout;
        let mut g = self.inner.lock().unwrap();
        loop {
            if let Some((name, fields)) = g.arrived.get(&actor) {
                if !g.grants.contains(&actor) {
                    return Arrival::At(name.clone(), fields.clone());
                }
            }
            if g.finished.contains(&actor) {
                return Arrival::Finished;
            }
            let now = Instant::now();
            if now >= deadline {
                return Arrival::Timeout;
            }
            let (ng, _) = self.cv.wait_timeout(g, deadline - now).unwrap();
            g = ng;
        }
    }
    /// Let a parked actor continue past its current point.
    pub fn grant(&self, actor: u32) {
        let mut g = self.inner.lock().unwrap();
        g.grants.insert(actor);
        self.cv.notify_all();
    }
    /// After a grant: wait until the actor has left the point it was parked at.
    pub fn wait_departed(&self, actor: u32, timeout: Duration) -> bool {
        let deadline = Instant::now() + timeout;
        let mut g = self.inner.lock().unwrap();
        loop {
            if !g.grants.contains(&actor) {
                return true;
            }
            let now = Instant::now();
            if now >= deadline {
                return false;
            }
            let (ng, _) = self.cv.wait_timeout(g, deadline - now).unwrap();
            g = ng;
        }
    }
}
