//! Serve the real axum router on an ephemeral local port.
use std::net::SocketAddr;
use std::path::PathBuf;

use ripd::verif_api::OpenResponsesConfig;

pub struct Server {
    pub base: String,
    pub addr: SocketAddr,
    shutdown: Option<tokio::sync::oneshot::Sender<()>>,
    handle: Option<tokio::task::JoinHandle<()>>,
}

impl Server {
    pub async fn start(
        data: PathBuf,
        ws: PathBuf,
        provider: Option<OpenResponsesConfig>,
        allow_pty: bool,
    ) -> Self {
        let app = ripd::verif_api::build_router(data, ws, provider, allow_pty);
        let listener = tokio::net::TcpListener::bind("127.0.0.1:0").await.expect("bind");
        let addr = listener.local_addr().expect("addr");
        let (tx, rx) = tokio::sync::oneshot::channel::<()>();
        let handle = tokio::spawn(async move {
            let _ = axum::serve(listener, app)
                .with_graceful_shutdown(async move {
                    let _ = rx.await;
                })
                .await;
        });
        Self {
            base: format!("http://{addr}"),
            addr,
            shutdown: Some(tx),
            handle: Some(handle),
        }
    }

    pub async fn stop(mut self) {
        if let Some(tx) = self.shutdown.take() {
            let _ = tx.send(());
        }
        if let Some(h) = self.handle.take() {
            // SSE connections keep the graceful shutdown open; do not wait for them.
            let _ = tokio::time::timeout(std::time::Duration::from_millis(200), h).await;
        }
    }
}
