//! C06 engine: a TLC-generated interleaving of producer steps (record / publish) and subscriber
//! steps (subscribe / snapshot) is forced on the real router; the observation is the parsed SSE
//! body of GET /sessions|tasks|threads/{id}/events.
use std::collections::HashSet;
use std::sync::{Arc, Mutex};
use std::time::Duration;

use futures_util::StreamExt;
use rip_kernel::verif::Sink;
use serde_json::{json, Value};

use crate::hub::{hub, Arrival, Hub};
use crate::util::{self, get_str, get_u64, NdjsonOut};

const P: u32 = 1;
const S: u32 = 2;
const Q: u32 = 3;

fn gate(hub: &Arc<Hub>, name: &'static str, actor: u32) {
    // harness-level gate point (blocks this worker thread until granted)
    hub.point(name, actor, json!({}));
}

async fn gate_async(hub: &Arc<Hub>, name: &'static str, actor: u32) {
    let h = hub.clone();
    let _ = tokio::task::spawn_blocking(move || gate(&h, name, actor)).await;
}

async fn post(client: &reqwest::Client, url: String, body: Value) -> Value {
    match client.post(url).json(&body).send().await {
        Ok(r) => r.json::<Value>().await.unwrap_or(Value::Null),
        Err(_) => Value::Null,
    }
}

fn log_has(data: &std::path::Path, stream: &str, kind: &str) -> bool {
    let (frames, _) = crate::store::stream_seqs(data);
    frames.iter().any(|(_, s, _, k)| s == stream && k == kind)
}

fn stream_len(data: &std::path::Path, stream: &str) -> usize {
    let (frames, _) = crate::store::stream_seqs(data);
    frames.iter().filter(|(_, s, _, _)| s == stream).count()
}

async fn wait_until<F: Fn() -> bool>(f: F, ms: u64) -> bool {
    let deadline = std::time::Instant::now() + Duration::from_millis(ms);
    while std::time::Instant::now() < deadline {
        if f() {
            return true;
        }
        tokio::time::sleep(Duration::from_millis(10)).await;
    }
    f()
}

fn point_for(kind: &str, step: &str) -> &'static str {
    match (kind, step) {
        (_, "sub") => "sse.subscribed",
        (_, "snap") => "sse.snapshotted",
        ("thread", "rec") => "cache.exit",
        ("thread", "pub") => "api.return",
        ("thread", "other") => "api.return",
        (_, "rec") => "emit.recorded",
        (_, "pub") => "emit.published",
        _ => "api.return",
    }
}

pub fn engine_sub(rt: &tokio::runtime::Runtime, cases: Vec<Value>, out: &mut NdjsonOut) {
    let hub = hub();
    let t_arrive = Duration::from_millis(
        std::env::var("RIPVERIF_T_ARRIVE_MS").ok().and_then(|v| v.parse().ok()).unwrap_or(40),
    );
    for case in cases {
        hub.reset();
        let kind = get_str(&case, "kind").unwrap_or("session").to_string();
        let root = util::scratch_root().join(format!("sub-{}", uuid::Uuid::new_v4().simple()));
        let data = root.join("data");
        let ws = root.join("ws");
        std::fs::create_dir_all(&data).unwrap();
        std::fs::create_dir_all(&ws).unwrap();
        let schedule = case.get("schedule").and_then(|o| o.as_array()).cloned().unwrap_or_default();
        let nframes = get_u64(&case, "p_calls").unwrap_or(2) as usize;
        let nother = get_u64(&case, "q_calls").unwrap_or(0) as usize;
        let hub2 = hub.clone();
        let data2 = data.clone();
        let result = rt.block_on(async move {
            let hub = hub2;
            let data = data2;
            let server = crate::srv::Server::start(data.clone(), ws.clone(), None, false).await;
            let base = server.base.clone();
            let client = reqwest::Client::new();
            // ---- set-up (ungated): create the stream the subscriber will attach to
            let mut stream_b = String::new();
            let mut prerecorded = 0usize;
            let (stream_a, events_url) = match kind.as_str() {
                "session" => {
                    let v = post(&client, format!("{base}/sessions"), json!({})).await;
                    let id = v["session_id"].as_str().unwrap_or("").to_string();
                    (id.clone(), format!("{base}/sessions/{id}/events"))
                }
                "task" => (String::new(), String::new()),
                _ => {
                    // root thread with a long history, child thread (the subscribed one) with a short one
                    let v = post(&client, format!("{base}/threads/ensure"), json!({})).await;
                    let rootid = v["thread_id"].as_str().unwrap_or("").to_string();
                    let m = post(&client, format!("{base}/threads/{rootid}/messages"), json!({"content": "hello root"})).await;
                    let d = data.clone();
                    let r2 = rootid.clone();
                    wait_until(move || log_has(&d, &r2, "continuity_run_ended"), 5000).await;
                    let mid = m["message_id"].as_str().unwrap_or("").to_string();
                    for _ in 0..4 {
                        post(&client, format!("{base}/threads/{rootid}/compaction-checkpoint"),
                             json!({"summary_markdown": "s", "to_message_id": mid})).await;
                    }
                    let b = post(&client, format!("{base}/threads/{rootid}/branch"), json!({"title": "child"})).await;
                    let child = b["thread_id"].as_str().unwrap_or("").to_string();
                    post(&client, format!("{base}/threads/{child}/messages"), json!({"content": "hello child"})).await;
                    let d = data.clone();
                    let c2 = child.clone();
                    wait_until(move || log_has(&d, &c2, "continuity_run_ended"), 5000).await;
                    stream_b = rootid;
                    prerecorded = stream_len(&data, &child);
                    (child.clone(), format!("{base}/threads/{child}/events"))
                }
            };
            hub.set_record(true);
            hub.map_prefix("sse.", S);
            if !stream_a.is_empty() {
                hub.map_stream(&stream_a, P);
            }
            if kind == "task" {
                hub.map_sk("task", P);
            }
            let gate_points = ["p.start", "q.start", "sub.start", "emit.published", "emit.recorded", "sse.subscribed",
                               "sse.snapshotted", "cache.exit", "api.return"];
            hub.gate_begin(&gate_points, &[P, S, Q]);
            // ---- producer of stream A
            let stream_a_shared = Arc::new(Mutex::new(stream_a.clone()));
            let events_url_shared = Arc::new(Mutex::new(events_url.clone()));
            let prod = {
                let hub = hub.clone();
                let client = client.clone();
                let base = base.clone();
                let kind = kind.clone();
                let data = data.clone();
                let sa = stream_a_shared.clone();
                let eu = events_url_shared.clone();
                tokio::spawn(async move {
                    gate_async(&hub, "p.start", P).await;
                    match kind.as_str() {
                        "session" => {
                            let id = sa.lock().unwrap().clone();
                            let input = json!({"tool": "bash", "args": {"command": "echo one; echo two"}}).to_string();
                            let _ = client.post(format!("{base}/sessions/{id}/input")).json(&json!({"input": input})).send().await;
                        }
                        "task" => {
                            // the task id is only known when the POST returns; its first emit is already gated then
                            let v = post(&client, format!("{base}/tasks"),
                                         json!({"tool": "bash", "args": {"command": "echo one; sleep 0.05; echo two"}})).await;
                            let id = v["task_id"].as_str().unwrap_or("").to_string();
                            *sa.lock().unwrap() = id.clone();
                            *eu.lock().unwrap() = format!("{base}/tasks/{id}/events");
                        }
                        _ => {
                            let id = sa.lock().unwrap().clone();
                            let frames = crate::store::stream_seqs(&data).0;
                            let _ = frames;
                            // each call appends exactly one frame to the subscribed thread
                            let evs = client.get(format!("{base}/threads/{id}")).send().await;
                            let _ = evs;
                            for k in 0..nframes {
                                if k > 0 {
                                    gate_async(&hub, "p.start", P).await;
                                }
                                let msg = first_message_id(&data, &id);
                                let _ = post(&client, format!("{base}/threads/{id}/compaction-checkpoint"),
                                             json!({"summary_markdown": format!("c{k}"), "to_message_id": msg})).await;
                                gate_async(&hub, "api.return", P).await;
                            }
                        }
                    }
                    let _ = eu;
                    if kind == "thread" {
                        hub.mark_finished(P);
                    } else {
                        // the emitting task lives on in the server: finished = its terminal frame is in the log
                        for _ in 0..2000 {
                            let id = sa.lock().unwrap().clone();
                            let done = if kind == "session" {
                                log_has(&data, &id, "session_ended")
                            } else {
                                let (frames, _) = crate::store::stream_seqs(&data);
                                frames.iter().filter(|(_, s, _, k)| *s == id && k == "tool_task_status").count() >= 2
                            };
                            if done {
                                break;
                            }
                            tokio::time::sleep(Duration::from_millis(5)).await;
                        }
                        hub.mark_finished(P);
                    }
                })
            };
            // ---- another stream on the same channel (threads only)
            let other = {
                let hub = hub.clone();
                let client = client.clone();
                let base = base.clone();
                let data = data.clone();
                let b = stream_b.clone();
                tokio::spawn(async move {
                    for _ in 0..nother {
                        gate_async(&hub, "q.start", Q).await;
                        let msg = first_message_id(&data, &b);
                        let _ = post(&client, format!("{base}/threads/{b}/compaction-checkpoint"),
                                     json!({"summary_markdown": "other", "to_message_id": msg})).await;
                        gate_async(&hub, "api.return", Q).await;
                    }
                    hub.mark_finished(Q);
                })
            };
            // ---- subscriber
            let delivered: Arc<Mutex<Vec<Value>>> = Arc::new(Mutex::new(Vec::new()));
            let sub = {
                let hub = hub.clone();
                let client = client.clone();
                let delivered = delivered.clone();
                let eu = events_url_shared.clone();
                tokio::spawn(async move {
                    gate_async(&hub, "sub.start", S).await;
                    let mut url = eu.lock().unwrap().clone();
                    for _ in 0..500 {
                        if !url.is_empty() {
                            break;
                        }
                        tokio::time::sleep(Duration::from_millis(5)).await;
                        url = eu.lock().unwrap().clone();
                    }
                    let Ok(resp) = client.get(url).send().await else { return };
                    let mut stream = resp.bytes_stream();
                    let mut buf = String::new();
                    while let Some(Ok(chunk)) = stream.next().await {
                        buf.push_str(&String::from_utf8_lossy(&chunk));
                        while let Some(pos) = buf.find("\n\n") {
                            let ev: String = buf.drain(..pos + 2).collect();
                            for line in ev.lines() {
                                if let Some(d) = line.strip_prefix("data:") {
                                    if let Ok(v) = serde_json::from_str::<Value>(d.trim()) {
                                        delivered.lock().unwrap().push(json!({"stream": v["stream_id"], "seq": v["seq"], "kind": v["type"]}));
                                    }
                                }
                            }
                        }
                    }
                })
            };
            // ---- walk the schedule ("let actor a run until it reaches point p")
            let mut steps = Vec::new();
            let mut inflight: HashSet<u32> = HashSet::new();
            let mut unrealised = 0usize;
            for st in &schedule {
                let a = match get_str(st, "a") { Some("P") => P, Some("S") => S, _ => Q };
                let p = point_for(&kind, get_str(st, "p").unwrap_or(""));
                let hubx = hub.clone();
                let infl = inflight.contains(&a);
                let r = tokio::task::spawn_blocking(move || {
                    if !infl {
                        match hubx.wait_arrival(a, Duration::from_secs(3)) {
                            Arrival::At(_, _) => {
                                hubx.grant(a);
                                hubx.wait_departed(a, Duration::from_secs(2));
                            }
                            Arrival::Finished => return "finished".to_string(),
                            Arrival::Timeout => return "lost".to_string(),
                        }
                    }
                    match hubx.wait_arrival(a, t_arrive) {
                        Arrival::At(name, _) => if name == p { "ok".to_string() } else { format!("at {name}") },
                        Arrival::Finished => "finished".to_string(),
                        Arrival::Timeout => "blocked".to_string(),
                    }
                }).await.unwrap_or_default();
                if r == "blocked" {
                    inflight.insert(a);
                    unrealised += 1;
                } else {
                    inflight.remove(&a);
                    if r == "lost" {
                        unrealised += 1;
                    }
                }
                steps.push(json!([st["a"], st["p"], r]));
            }
            hub.gate_end();
            // ---- quiescence: producers done, then the subscriber idle for a grace period
            let _ = tokio::time::timeout(Duration::from_secs(10), prod).await;
            let _ = tokio::time::timeout(Duration::from_secs(10), other).await;
            let sa = stream_a_shared.lock().unwrap().clone();
            if kind == "session" {
                let d = data.clone();
                let s2 = sa.clone();
                wait_until(move || log_has(&d, &s2, "session_ended"), 8000).await;
            }
            if kind == "task" {
                let d = data.clone();
                let s2 = sa.clone();
                wait_until(move || {
                    let (frames, _) = crate::store::stream_seqs(&d);
                    frames.iter().filter(|(_, s, _, k)| *s == s2 && k == "tool_task_status").count() >= 2
                }, 8000).await;
            }
            tokio::time::sleep(Duration::from_millis(150)).await;
            let total = stream_len(&data, &sa);
            // the subscriber must have everything within the grace period
            let dl = delivered.clone();
            let sa2 = sa.clone();
            wait_until(move || dl.lock().unwrap().iter().filter(|f| f["stream"] == json!(sa2)).count() >= total, 3000).await;
            tokio::time::sleep(Duration::from_millis(100)).await;
            sub.abort();
            let got = delivered.lock().unwrap().clone();
            server.stop().await;
            let seqs: Vec<u64> = got.iter().filter(|f| f["stream"] == json!(sa)).filter_map(|f| f["seq"].as_u64()).collect();
            let foreign = got.iter().filter(|f| f["stream"] != json!(sa)).count();
            json!({"steps": steps, "unrealised": unrealised, "delivered": seqs, "foreign": foreign, "total": total,
                   "prerecorded": prerecorded})
        });
        let trace = hub.take_trace();
        let mut r = result;
        r["id"] = case["id"].clone();
        r["trace_len"] = json!(trace.len());
        out.write(&r);
        let _ = std::fs::remove_dir_all(&root);
    }
}

fn first_message_id(data: &std::path::Path, stream: &str) -> String {
    let bytes = std::fs::read(crate::store::log_path(data)).unwrap_or_default();
    for line in String::from_utf8_lossy(&bytes).split('\n') {
        if let Ok(v) = serde_json::from_str::<Value>(line) {
            if v["stream_id"] == json!(stream) && v["type"] == json!("continuity_message_appended") {
                return v["id"].as_str().unwrap_or("").to_string();
            }
        }
    }
    String::new()
}
