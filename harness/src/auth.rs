//! C18 engine: contenders (threads) run the real `acquire_authority_lock_with_recovery` against one
//! store directory; a TLC-generated schedule of (contender, program counter to reach) steps is
//! forced with gates at the auth.* hook points.  After every arrival the lock / meta files are
//! probed (all other contenders are parked, so the change is the running contender's).
use std::io::{Read, Write};
use std::path::{Path, PathBuf};
use std::sync::atomic::{AtomicBool, Ordering};
use std::sync::mpsc;
use std::sync::Arc;
use std::time::{Duration, Instant};

use rip_kernel::verif::Sink;
use serde_json::{json, Value};

use crate::hub::{hub, Arrival};
use crate::util::{self, get_str, get_u64, NdjsonOut};

const POINTS: &[&str] = &[
    "op.start", "auth.loop.top", "auth.acquire.created", "auth.acquire.written", "auth.meta.written", "auth.rec.enter",
    "auth.rec.meta", "auth.rec.lock", "auth.stale.enter", "auth.stale.checked", "auth.stale.renamed", "auth.stale.metaread",
    "auth.stale.meta", "auth.corrupt.enter", "auth.corrupt.checked", "auth.corrupt.renamed", "auth.drop.enter", "auth.drop.meta",
    "auth.drop.lock", "auth.h.idle",
];

/// program counter of the model -> hook point at which the contender is parked
fn point_of(pc: &str) -> &'static str {
    match pc {
        "start" => "auth.loop.top",
        "created" => "auth.acquire.created",
        "held" => "auth.acquire.written",
        "serving" => "auth.meta.written",
        "r_meta" => "auth.rec.enter",
        "r_lock" => "auth.rec.meta",
        "s_check" => "auth.stale.enter",
        "s_rename" => "auth.stale.checked",
        "s_mread" => "auth.stale.renamed",
        "s_mrename" => "auth.stale.metaread",
        "s_done" => "auth.stale.meta",
        "c_check" => "auth.corrupt.enter",
        "c_rename" => "auth.corrupt.checked",
        "d_meta" => "auth.drop.enter",
        "d_lock" => "auth.drop.meta",
        "gone" => "auth.drop.lock",
        _ => "-", // "failed": the contender finishes
    }
}

fn probe_file(path: &Path) -> Value {
    match std::fs::read_to_string(path) {
        Err(_) => json!({"kind": "absent"}),
        Ok(s) => match serde_json::from_str::<Value>(&s) {
            Ok(v) => json!({"kind": "full", "pid": v["pid"], "started_at_ms": v["started_at_ms"], "endpoint": v["endpoint"]}),
            Err(_) => json!({"kind": "partial", "len": s.len()}),
        },
    }
}

fn probe(data: &Path) -> Value {
    let dir = data.join("authority");
    let extra: Vec<String> = std::fs::read_dir(&dir)
        .map(|rd| {
            rd.flatten()
                .map(|e| e.file_name().to_string_lossy().to_string())
                .filter(|n| n != "lock.json" && n != "meta.json")
                .collect()
        })
        .unwrap_or_default();
    json!({"lock": probe_file(&dir.join("lock.json")), "meta": probe_file(&dir.join("meta.json")), "other_files": extra.len()})
}

/// A listener that answers 200 to anything while `up` is set and closes the connection otherwise.
fn endpoint(up: Arc<AtomicBool>, stop: Arc<AtomicBool>) -> String {
    let listener = std::net::TcpListener::bind("127.0.0.1:0").expect("bind");
    let addr = listener.local_addr().unwrap();
    listener.set_nonblocking(true).ok();
    std::thread::spawn(move || loop {
        if stop.load(Ordering::Relaxed) {
            return;
        }
        match listener.accept() {
            Ok((mut s, _)) => {
                if up.load(Ordering::Relaxed) {
                    let _ = s.set_nonblocking(false);
                    let _ = s.set_read_timeout(Some(Duration::from_millis(200)));
                    let mut buf = [0u8; 2048];
                    let _ = s.read(&mut buf);
                    let _ = s.write_all(b"HTTP/1.1 200 OK\r\ncontent-type: application/json\r\ncontent-length: 2\r\nconnection: close\r\n\r\n{}");
                }
                drop(s);
            }
            Err(_) => std::thread::sleep(Duration::from_millis(2)),
        }
    });
    format!("http://{addr}")
}

fn dead_pid() -> u32 {
    let mut child = std::process::Command::new("true").spawn().expect("spawn true");
    let pid = child.id();
    let _ = child.wait();
    pid
}

enum Ctl {
    Release,
    End,
}

pub fn engine_auth(cases: Vec<Value>, out: &mut NdjsonOut) {
    let hub = hub();
    let me = std::process::id();
    for case in cases {
        hub.reset();
        let root = util::scratch_root().join(format!("auth-{}", uuid::Uuid::new_v4().simple()));
        let data = root.join("data");
        let ws = root.join("ws");
        let adir = data.join("authority");
        std::fs::create_dir_all(&adir).unwrap();
        std::fs::create_dir_all(&ws).unwrap();
        let ws_str = ws.to_string_lossy().to_string();
        let dead = dead_pid();
        let stop = Arc::new(AtomicBool::new(false));
        let res_up = Arc::new(AtomicBool::new(false));
        let res_ep = endpoint(res_up.clone(), stop.clone());
        let start = get_str(&case, "start").unwrap_or("none").to_string();
        let lockf = adir.join("lock.json");
        let metaf = adir.join("meta.json");
        let rec = |pid: u32, t: u64| format!("{}\n", json!({"pid": pid, "started_at_ms": t, "workspace_root": ws_str}));
        let met = |pid: u32, t: u64, ep: &str| json!({"endpoint": ep, "pid": pid, "started_at_ms": t, "workspace_root": ws_str}).to_string();
        match start.as_str() {
            "dead_lock" => std::fs::write(&lockf, rec(dead, 1)).unwrap(),
            "dead_lock_meta" => {
                std::fs::write(&lockf, rec(dead, 1)).unwrap();
                std::fs::write(&metaf, met(dead, 1, "http://127.0.0.1:9")).unwrap();
            }
            "dead_partial" => std::fs::write(&lockf, "{\"pid\":").unwrap(),
            "dead_meta" => std::fs::write(&metaf, met(dead, 1, "http://127.0.0.1:9")).unwrap(),
            "dead_partial_meta" => {
                std::fs::write(&lockf, "{\"pid\":").unwrap();
                std::fs::write(&metaf, met(dead, 1, "http://127.0.0.1:9")).unwrap();
            }
            "live_serving" => {
                std::fs::write(&lockf, rec(me, 7)).unwrap();
                std::fs::write(&metaf, met(me, 7, &res_ep)).unwrap();
                res_up.store(true, Ordering::Relaxed);
            }
            "live_starting" => std::fs::write(&lockf, rec(me, 7)).unwrap(),
            _ => {}
        }
        let procs: Vec<String> = case["procs"].as_array().map(|a| a.iter().map(|x| x.as_str().unwrap_or("").to_string()).collect()).unwrap_or_default();
        let ids: Vec<u32> = (1..=procs.len() as u32).collect();
        hub.set_record(true);
        hub.gate_begin(POINTS, &ids);
        let (res_tx, res_rx) = mpsc::channel::<(u32, Value)>();
        let mut ctl: Vec<mpsc::Sender<Ctl>> = Vec::new();
        let mut handles = Vec::new();
        for &id in &ids {
            let (tx, rx) = mpsc::channel::<Ctl>();
            ctl.push(tx);
            let (data, ws, hub2, res_tx, stop2) = (data.clone(), ws.clone(), hub.clone(), res_tx.clone(), stop.clone());
            handles.push(std::thread::spawn(move || {
                rip_kernel::verif::set_actor(id);
                hub2.point("op.start", id, json!({}));
                let rt = tokio::runtime::Builder::new_current_thread().enable_all().build().expect("rt");
                let r = rt.block_on(ripd::verif_api::acquire_authority_lock_with_recovery(&data, &ws));
                match r {
                    Ok(guard) => {
                        let recd = guard.record().clone();
                        let up = Arc::new(AtomicBool::new(true));
                        let ep = endpoint(up.clone(), stop2);
                        let _ = res_tx.send((id, json!({"ok": true, "started_at_ms": recd.started_at_ms, "pid": recd.pid, "endpoint": ep})));
                        hub2.note(json!({"ev": "h.acquired", "actor": id}));
                        let wm = guard.write_meta(ep);
                        hub2.note(json!({"ev": "h.serving", "actor": id, "meta_ok": wm.is_ok()}));
                        hub2.point("auth.h.idle", id, json!({}));
                        // keep the role until told to release it or until the case ends
                        let _ = rx.recv();
                        up.store(false, Ordering::Relaxed);
                        drop(guard);
                        hub2.note(json!({"ev": "h.dropped", "actor": id}));
                    }
                    Err(err) => {
                        let _ = res_tx.send((id, json!({"ok": false, "err": err})));
                    }
                }
                hub2.mark_finished(id);
            }));
        }
        drop(res_tx);
        // ---- forced schedule
        let sched = case["sched"].as_array().cloned().unwrap_or_default();
        let t_case = Instant::now();
        let step_timeout = Duration::from_millis(get_u64(&case, "step_timeout_ms").unwrap_or(3500));
        let mut steps = Vec::new();
        let mut broken = false;
        for id in &ids {
            let _ = hub.wait_arrival(*id, Duration::from_secs(5));
        }
        let name_id = |n: &str| procs.iter().position(|p| p == n).map(|i| ids[i]).unwrap_or(0);
        for (k, st) in sched.iter().enumerate() {
            let a = name_id(get_str(st, "a").unwrap_or(""));
            let to = get_str(st, "to").unwrap_or("");
            let target = point_of(to);
            if to == "d_meta" {
                let _ = ctl[(a - 1) as usize].send(Ctl::Release);
            }
            let deadline = Instant::now() + step_timeout;
            let mut passed: Vec<String> = Vec::new();
            let arrived: String;
            loop {
                // the contender is parked (at op.start or at its previous point): let it go on
                hub.grant(a);
                hub.wait_departed(a, Duration::from_secs(2));
                let left = deadline.saturating_duration_since(Instant::now());
                match hub.wait_arrival(a, left.max(Duration::from_millis(1))) {
                    Arrival::At(name, _) => {
                        if name == target || (name == "auth.h.idle" && target == "-") {
                            arrived = name;
                            break;
                        }
                        if name == "auth.h.idle" && !target.starts_with("auth.drop") {
                            // settled as the authority although the model expected another step
                            arrived = name;
                            break;
                        }
                        passed.push(name);
                        if Instant::now() >= deadline {
                            arrived = "timeout".into();
                            break;
                        }
                    }
                    Arrival::Finished => {
                        arrived = "finished".into();
                        break;
                    }
                    Arrival::Timeout => {
                        arrived = "timeout".into();
                        break;
                    }
                }
            }
            let ok = (target == "-" && arrived == "finished") || arrived == target;
            steps.push(json!({"k": k, "a": st["a"], "to": to, "target": target, "arrived": arrived, "passed_n": passed.len(), "passed": passed.iter().rev().take(4).rev().collect::<Vec<_>>(), "ok": ok, "t_ms": t_case.elapsed().as_millis() as u64, "probe": probe(&data)}));
            if !ok {
                broken = true;
                break;
            }
        }
        // ---- completion: the contenders that have not settled finish ONE AT A TIME (the others stay parked), every
        //      arrival probed, so that nothing races unobserved after the forced part
        if !sched.is_empty() {
            let mut k = steps.len();
            for &a in &ids {
                let deadline = Instant::now() + Duration::from_secs(5);
                loop {
                    if hub.is_finished(a) || Instant::now() >= deadline {
                        break;
                    }
                    if let Arrival::At(name, _) = hub.wait_arrival(a, Duration::from_millis(1)) {
                        if name == "auth.h.idle" {
                            break;
                        }
                    }
                    hub.grant(a);
                    hub.wait_departed(a, Duration::from_secs(2));
                    match hub.wait_arrival(a, deadline.saturating_duration_since(Instant::now()).max(Duration::from_millis(1))) {
                        Arrival::At(name, _) => {
                            steps.push(json!({"k": k, "a": procs[(a - 1) as usize], "to": "?", "target": "?", "arrived": name, "passed_n": 0, "passed": [], "ok": true,
                                              "completion": true, "t_ms": t_case.elapsed().as_millis() as u64, "probe": probe(&data)}));
                            k += 1;
                            if name == "auth.h.idle" {
                                break;
                            }
                        }
                        Arrival::Finished => {
                            steps.push(json!({"k": k, "a": procs[(a - 1) as usize], "to": "?", "target": "?", "arrived": "finished", "passed_n": 0, "passed": [], "ok": true,
                                              "completion": true, "t_ms": t_case.elapsed().as_millis() as u64, "probe": probe(&data)}));
                            k += 1;
                            break;
                        }
                        Arrival::Timeout => break,
                    }
                }
            }
        }
        hub.note(json!({"ev": "h.free"}));
        hub.gate_end();
        let mut results = serde_json::Map::new();
        let deadline = Instant::now() + Duration::from_secs(6);
        let mut settled = std::collections::HashSet::new();
        while settled.len() < ids.len() && Instant::now() < deadline {
            match res_rx.recv_timeout(Duration::from_millis(50)) {
                Ok((id, v)) => {
                    results.insert(procs[(id - 1) as usize].clone(), v);
                    settled.insert(id);
                }
                Err(_) => {}
            }
        }
        // guards obtained are written to meta before the final probe
        std::thread::sleep(Duration::from_millis(30));
        let fin = probe(&data);
        let trace: Vec<Value> = hub.take_trace().into_iter().filter(|e| e["ev"].as_str().map(|s| s.starts_with("auth.") || s.starts_with("h.")).unwrap_or(false)).collect();
        for tx in &ctl {
            let _ = tx.send(Ctl::End);
        }
        let join_deadline = Instant::now() + Duration::from_secs(4);
        for h in handles {
            while !h.is_finished() && Instant::now() < join_deadline {
                std::thread::sleep(Duration::from_millis(5));
            }
        }
        stop.store(true, Ordering::Relaxed);
        let after = probe(&data);
        out.write(&json!({"id": case["id"], "start": start, "dead_pid": dead, "my_pid": me, "steps": steps, "broken": broken,
                          "results": results, "final": fin, "after_release": after, "trace": trace, "all_settled": settled.len() == ids.len()}));
        let _ = std::fs::remove_dir_all(&root);
    }
}

#[allow(dead_code)]
fn _unused(_: PathBuf) {}
