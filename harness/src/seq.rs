//! Engines over the store: sequential histories (`hist`), gate-scheduled interleavings
//! (`sched`), crash snapshots (`crash`) and free-running concurrent load (`free`).
use std::collections::HashMap;
use std::path::{Path, PathBuf};
use std::sync::Arc;
use std::time::Duration;

use rip_kernel::verif::Sink;
use serde_json::{json, Value};

use crate::hub::{hub, Arrival};
use crate::store::{log_delta, log_summary, observe_log, StoreEnv};
use crate::util::{self, get_bool, get_str, get_u64, NdjsonOut};

const FILE_POINTS: &[&str] = &[
    "log.enter",
    "log.body",
    "log.flushed",
    "cache.enter",
    "cache.full.body",
    "cache.full.flushed",
    "cache.seek",
    "cache.msgidx",
    "cache.mr.body",
    "cache.mr.flushed",
    "cache.mr.seek",
    "cache.mr.msgidx",
    "cache.mr.ord",
    "cache.comp.body",
    "cache.comp.flushed",
    "cache.comp.idx",
    "cache.exit",
    "index.tmp",
    "index.renamed",
    "rebuild.truncated",
    "rebuild.exit",
    "snapshot.written",
];

/// Replace stream ids in a recorded trace by short names in order of first appearance.
pub fn normalize_trace(trace: Vec<Value>, env: &StoreEnv) -> Vec<Value> {
    let ids = env.ids.lock().unwrap().clone();
    let mut names: HashMap<String, String> = HashMap::new();
    for (i, t) in ids.threads.iter().enumerate() {
        names.insert(t.clone(), format!("T{i}"));
    }
    let mut extra = 0usize;
    trace
        .into_iter()
        .map(|mut rec| {
            if let Some(s) = rec.get("stream").and_then(|s| s.as_str()).map(str::to_string) {
                let n = names.entry(s).or_insert_with(|| {
                    extra += 1;
                    format!("X{}", extra - 1)
                });
                rec["stream"] = json!(n.clone());
            }
            if let Some(o) = rec.as_object_mut() {
                o.remove("id");
            }
            rec
        })
        .collect()
}

fn run_ops_seq(env: &mut StoreEnv, ops: &[Value]) -> Vec<Value> {
    let mut out = Vec::new();
    for op in ops {
        if get_str(op, "op") == Some("restart") {
            env.restart();
            out.push(json!({"ok": true, "ret": null}));
        } else {
            out.push(env.exec(op));
        }
    }
    out
}

// ---------------------------------------------------------------------------------------------
// hist: sequential history; log observed around every call (C02), answers normalised.

pub fn engine_hist(cases: Vec<Value>, out: &mut NdjsonOut) {
    let hub = hub();
    for case in cases {
        hub.reset();
        let record = get_bool(&case, "trace").unwrap_or(false);
        hub.set_record(record);
        let mut env = StoreEnv::fresh("hist");
        let ops = case.get("ops").and_then(|o| o.as_array()).cloned().unwrap_or_default();
        let mut results = Vec::new();
        for op in &ops {
            let before = observe_log(&env.data);
            let r = if get_str(op, "op") == Some("restart") {
                env.restart();
                json!({"ok": true, "ret": null})
            } else if let Some(f) = op.get("fail_append") {
                // injected append failure on the n-th log append of this op
                hub.arm_fail("log.enter", f.as_u64().unwrap_or(1), None);
                let r = env.exec(op);
                hub.disarm_fail();
                r
            } else {
                env.exec(op)
            };
            let after = observe_log(&env.data);
            let mut delta = log_delta(&before, &after);
            // checkpoint frames carry to_seq for the model's no-op classification
            delta["op"] = op.clone();
            // the thread's full sidecar against its frames in the log (ids in order): the sidecar never holds a frame the log lacks
            let side_vs_log = if get_bool(&case, "watch_sidecar").unwrap_or(false) {
                let t = get_u64(op, "t").unwrap_or(0) as usize;
                let tid = env.thread_id(t);
                let side: Vec<String> = env
                    .cache_path(&tid, "full")
                    .and_then(|p| std::fs::read(p).ok())
                    .map(|b| String::from_utf8_lossy(&b).lines().filter_map(|l| serde_json::from_str::<Value>(l).ok()).filter_map(|v| v["id"].as_str().map(str::to_string)).collect())
                    .unwrap_or_default();
                let logids: Vec<String> = env.truth_frames(t).iter().map(|e| e.id.clone()).collect();
                let extra: Vec<&String> = side.iter().filter(|i| !logids.contains(i)).collect();
                json!({"sidecar_lines": side.len(), "log_frames": logids.len(), "sidecar_only": extra.len(),
                       "is_prefix": side.len() <= logids.len() && side.iter().zip(logids.iter()).all(|(a, b)| a == b)})
            } else {
                Value::Null
            };
            results.push(json!({"ok": r["ok"], "ret": r["ret"], "log": delta, "sidecar": side_vs_log}));
        }
        let norm = env.normalizer();
        let results: Vec<Value> = results
            .into_iter()
            .map(|r| {
                let mut r = r;
                let n = norm.norm(&r["ret"]);
                r["ret"] = n;
                let nf = norm.norm(&r["log"]["new_frames"]);
                r["log"]["new_frames"] = nf;
                r
            })
            .collect();
        let summary = log_summary(&env.data);
        let trace = normalize_trace(hub.take_trace(), &env);
        out.write(&json!({"id": case["id"], "results": results, "summary": summary, "trace": trace}));
        env.cleanup();
    }
}

// ---------------------------------------------------------------------------------------------
// sched: gate scheduler (C01 direction A)

// "cache.enter" is the first point after the event-log writer lock has been released: an actor
// parked there has its line on disk (the model's Flush) and holds no log lock.
const SCHED_POINTS: &[&str] = &[
    "op.start",
    "compile.head.read",
    "compile.tail.scanned",
    "nextseq.loaded",
    "log.pre",
    "cache.enter",
    "cache.exit",
    "api.return",
];

fn arrival_timeout() -> Duration {
    Duration::from_millis(
        std::env::var("RIPVERIF_T_ARRIVE_MS")
            .ok()
            .and_then(|v| v.parse().ok())
            .unwrap_or(80),
    )
}

pub fn engine_sched(cases: Vec<Value>, out: &mut NdjsonOut) {
    let hub = hub();
    let t_arrive = arrival_timeout();
    for case in cases {
        hub.reset();
        let mut env = StoreEnv::fresh("sched");
        let setup = case.get("setup").and_then(|o| o.as_array()).cloned().unwrap_or_default();
        run_ops_seq(&mut env, &setup);
        let env = Arc::new(env);
        let actors = case.get("actors").and_then(|o| o.as_array()).cloned().unwrap_or_default();
        let names: Vec<String> = actors
            .iter()
            .map(|a| get_str(a, "name").unwrap_or("").to_string())
            .collect();
        let ids: Vec<u32> = (1..=actors.len() as u32).collect();
        hub.set_record(true);
        hub.gate_begin(SCHED_POINTS, &ids);
        // a subscriber that learns about newly created threads (what an SSE client would see)
        let mut rx = env.store().subscribe();
        let new_thread: Arc<std::sync::Mutex<Option<String>>> = Arc::new(std::sync::Mutex::new(None));
        let nt = new_thread.clone();
        let known: Vec<String> = env.ids.lock().unwrap().threads.clone();
        let stop = Arc::new(std::sync::atomic::AtomicBool::new(false));
        let stop2 = stop.clone();
        let watcher = std::thread::spawn(move || {
            let deadline = std::time::Instant::now() + Duration::from_secs(20);
            loop {
                if stop2.load(std::sync::atomic::Ordering::Relaxed) {
                    return;
                }
                match rx.try_recv() {
                    Ok(ev) => {
                        if matches!(ev.kind, rip_kernel::EventKind::ContinuityCreated { .. })
                            && !known.contains(&ev.session_id)
                        {
                            *nt.lock().unwrap() = Some(ev.session_id.clone());
                            return;
                        }
                    }
                    Err(tokio::sync::broadcast::error::TryRecvError::Closed) => return,
                    Err(_) => {
                        if std::time::Instant::now() > deadline {
                            return;
                        }
                        std::thread::sleep(Duration::from_micros(200));
                    }
                }
            }
        });
        let mut handles = Vec::new();
        for (i, actor) in actors.iter().enumerate() {
            let id = ids[i];
            let ops = actor.get("ops").and_then(|o| o.as_array()).cloned().unwrap_or_default();
            let env = env.clone();
            let hub2 = hub.clone();
            let new_thread = new_thread.clone();
            handles.push(std::thread::spawn(move || {
                rip_kernel::verif::set_actor(id);
                let mut rets = Vec::new();
                for op in ops {
                    let mut op = op;
                    hub2.point("op.start", id, json!({"op": op["op"]}));
                    if get_str(&op, "t") == Some("new") {
                        // wait until the creation frame of a new thread has been published
                        let deadline = std::time::Instant::now() + Duration::from_secs(5);
                        let mut tid = None;
                        while std::time::Instant::now() < deadline {
                            if let Some(t) = new_thread.lock().unwrap().clone() {
                                tid = Some(t);
                                break;
                            }
                            std::thread::sleep(Duration::from_millis(1));
                        }
                        let Some(tid) = tid else {
                            rets.push(json!({"ok": false, "ret": "no new thread observed"}));
                            continue;
                        };
                        let idx = {
                            let mut ids = env.ids.lock().unwrap();
                            match ids.threads.iter().position(|t| *t == tid) {
                                Some(p) => p,
                                None => {
                                    ids.threads.push(tid);
                                    ids.threads.len() - 1
                                }
                            }
                        };
                        op["t"] = json!(idx);
                    }
                    let r = env.exec(&op);
                    let ok = r["ok"].as_bool().unwrap_or(false);
                    rets.push(r);
                    hub2.point("api.return", id, json!({"ok": ok, "op": op["op"]}));
                }
                hub2.mark_finished(id);
                rets
            }));
        }
        // walk the schedule: step (a, p) = "let actor a run until it reaches point p".
        // Every actor starts parked at the harness-level point "op.start" (before the API call).
        let schedule = case.get("schedule").and_then(|o| o.as_array()).cloned().unwrap_or_default();
        let mut realised = 0usize;
        let mut unrealised = 0usize;
        let mut skew = 0usize;
        let mut steps = Vec::new();
        let mut inflight: std::collections::HashSet<u32> = std::collections::HashSet::new();
        for step in &schedule {
            let a = get_str(step, "a").unwrap_or("");
            let p = get_str(step, "p").unwrap_or("");
            let Some(pos) = names.iter().position(|n| n == a) else {
                continue;
            };
            let id = ids[pos];
            if !inflight.contains(&id) {
                match hub.wait_arrival(id, Duration::from_secs(2)) {
                    Arrival::At(_, _) => {
                        hub.grant(id);
                        hub.wait_departed(id, Duration::from_secs(2));
                    }
                    Arrival::Finished => {
                        steps.push(json!([a, p, "finished"]));
                        continue;
                    }
                    Arrival::Timeout => {
                        unrealised += 1;
                        steps.push(json!([a, p, "lost"]));
                        continue;
                    }
                }
            }
            match hub.wait_arrival(id, t_arrive) {
                Arrival::At(name, _) => {
                    inflight.remove(&id);
                    if name == p || p == "*" {
                        realised += 1;
                        steps.push(json!([a, p, "ok"]));
                    } else {
                        skew += 1;
                        steps.push(json!([a, p, format!("at {name}")]));
                    }
                }
                Arrival::Finished => {
                    inflight.remove(&id);
                    steps.push(json!([a, p, "finished"]));
                }
                Arrival::Timeout => {
                    // the actor is blocked on a real lock (or waiting for something): the code
                    // forbids this order
                    inflight.insert(id);
                    unrealised += 1;
                    steps.push(json!([a, p, "blocked"]));
                }
            }
        }
        hub.gate_end();
        let mut rets = Vec::new();
        for h in handles {
            rets.push(h.join().unwrap_or_default());
        }
        stop.store(true, std::sync::atomic::Ordering::Relaxed);
        let _ = watcher.join();
        let trace = normalize_trace(hub.take_trace(), &env);
        let summary = log_summary(&env.data);
        out.write(&json!({
            "id": case["id"], "realised": realised, "unrealised": unrealised, "skew": skew,
            "steps": steps, "rets": rets, "summary": summary, "trace": trace,
        }));
        if let Ok(env) = Arc::try_unwrap(env) {
            env.cleanup();
        }
    }
}

// ---------------------------------------------------------------------------------------------
// crash: one execution of an operation yields all its crash points (C05)

/// Number of complete JSON lines (a complete final line without its newline counts: the code
/// reads it); -1 = file absent.
fn count_lines(p: &Path) -> i64 {
    match std::fs::read(p) {
        Ok(b) => String::from_utf8_lossy(&b)
            .split('\n')
            .filter(|l| !l.is_empty() && serde_json::from_str::<Value>(l).is_ok())
            .count() as i64,
        Err(_) => -1,
    }
}

/// How far each per-thread cache file is behind the truth log (in frames); -1 = file absent.
fn cache_lag(env: &StoreEnv) -> Value {
    let tcount = env.ids.lock().unwrap().threads.len();
    let mut out = Vec::new();
    for t in 0..tcount {
        let frames = env.truth_frames(t);
        if frames.is_empty() {
            continue;
        }
        let tid = env.thread_id(t);
        let truth_mr = frames
            .iter()
            .filter(|e| {
                matches!(
                    e.kind,
                    rip_kernel::EventKind::ContinuityMessageAppended { .. }
                        | rip_kernel::EventKind::ContinuityRunEnded { .. }
                )
            })
            .count() as i64;
        let truth_ck = frames
            .iter()
            .filter(|e| matches!(e.kind, rip_kernel::EventKind::ContinuityCompactionCheckpointCreated { .. }))
            .count() as i64;
        let truth_msgs = frames
            .iter()
            .filter(|e| matches!(e.kind, rip_kernel::EventKind::ContinuityMessageAppended { .. }))
            .count() as i64;
        let ord_records = env
            .cache_path(&tid, "mrord")
            .and_then(|p| std::fs::metadata(p).ok())
            .map(|m| (m.len() as i64 - 32) / 24)
            .unwrap_or(-1);
        let lines = |f: &str| env.cache_path(&tid, f).map(|p| count_lines(&p)).unwrap_or(-1);
        // an absent file is "behind by everything": the next append re-creates it with one entry only
        let lag = |truth: i64, have: i64| if have < 0 { json!(truth) } else { json!(truth - have) };
        out.push(json!({
            "t": t,
            "full": lag(frames.len() as i64, lines("full")),
            "mr": lag(truth_mr, lines("mr")),
            "comp": lag(truth_ck, lines("comp")),
            "compidx": lag(truth_ck, lines("compidx")),
            "ord": lag(truth_msgs, ord_records),
        }));
    }
    json!(out)
}

fn cache_differential(root: &Path, ids: crate::store::Ids) -> Vec<Value> {
    // C04 on the recovered store: each read capability with caches as found vs caches removed
    let mut env = StoreEnv::reopen_at(root.to_path_buf(), ids);
    let tcount = env.ids.lock().unwrap().threads.len();
    let mut diffs = Vec::new();
    let mut all_q = Vec::new();
    for t in 0..tcount {
        if env.truth_frames(t).is_empty() {
            continue;
        }
        all_q.extend(vec![
            json!({"op": "replay", "t": t}),
            json!({"op": "cut_points", "t": t, "stride": 1, "limit": 8}),
            json!({"op": "status", "t": t, "stride": 1}),
            json!({"op": "cursor_status", "t": t}),
            json!({"op": "selection_status", "t": t}),
            json!({"op": "auto", "t": t, "stride": 1, "max_new": 4, "dry_run": true}),
        ]);
    }
    let with: Vec<Value> = all_q.iter().map(|q| env.exec(q)).collect();
    let _ = std::fs::remove_dir_all(env.streams_dir());
    env.restart();
    let without: Vec<Value> = all_q.iter().map(|q| env.exec(q)).collect();
    for (i, q) in all_q.iter().enumerate() {
        let mut a = with[i].clone();
        let mut b = without[i].clone();
        strip_best_effort(&mut a);
        strip_best_effort(&mut b);
        if a != b {
            let norm = env.normalizer();
            diffs.push(json!({"query": q, "with_caches": norm.norm(&a), "without": norm.norm(&b)}));
        }
    }
    diffs
}

fn check_recovered(snap_root: &Path, ids: crate::store::Ids, post: &[Value], acked: &[Value]) -> Value {
    // the differential runs on its own copy (it removes the caches)
    let diff_root = snap_root.with_extension("diff");
    let _ = util::copy_dir(snap_root, &diff_root);
    let diffs = cache_differential(&diff_root, ids.clone());
    let _ = std::fs::remove_dir_all(&diff_root);
    // "restart": open the copy with a fresh engine/store
    let mut env = StoreEnv::reopen_at(snap_root.to_path_buf(), ids);
    let lag = cache_lag(&env);
    let before = log_summary(&env.data);
    let post_results = run_ops_seq(&mut env, post);
    let after = log_summary(&env.data);
    // every acknowledged append occurs exactly once
    let (frames, _) = crate::store::stream_seqs(&env.data);
    let mut acked_ok = true;
    let mut acked_detail = Vec::new();
    for a in acked {
        let sid = a[0].as_str().unwrap_or("");
        let seq = a[1].as_u64().unwrap_or(u64::MAX);
        let n = frames.iter().filter(|(_, s, q, _)| s == sid && *q == seq).count();
        if n != 1 {
            acked_ok = false;
            acked_detail.push(json!([sid, seq, n]));
        }
    }
    let diffs_after = {
        let ids = env.ids.lock().unwrap().clone();
        let root2 = snap_root.with_extension("diff2");
        let _ = util::copy_dir(snap_root, &root2);
        let d = cache_differential(&root2, ids);
        let _ = std::fs::remove_dir_all(&root2);
        d
    };
    let r = json!({
        "before": before, "after": after, "post": post_results,
        "acked_ok": acked_ok, "acked_detail": acked_detail, "cache_diffs": diffs,
        "cache_diffs_after_post": diffs_after, "cache_lag": lag,
    });
    drop(env);
    r
}

pub fn strip_best_effort(v: &mut Value) {
    match v {
        Value::Object(o) => {
            o.remove("inflight_job_id");
            for (_, x) in o.iter_mut() {
                strip_best_effort(x);
            }
        }
        Value::Array(a) => a.iter_mut().for_each(strip_best_effort),
        _ => {}
    }
}

pub fn engine_crash(cases: Vec<Value>, out: &mut NdjsonOut) {
    let hub = hub();
    for case in cases {
        hub.reset();
        let mut env = StoreEnv::fresh("crash");
        let setup = case.get("setup").and_then(|o| o.as_array()).cloned().unwrap_or_default();
        let setup_r = run_ops_seq(&mut env, &setup);
        // acknowledged appends so far = everything in the log (setup ran to completion)
        let mut acked: Vec<Value> = crate::store::stream_seqs(&env.data)
            .0
            .iter()
            .map(|(_, s, q, _)| json!([s, q]))
            .collect();
        let op = case.get("op").cloned().unwrap_or(Value::Null);
        let post = case.get("post").and_then(|o| o.as_array()).cloned().unwrap_or_default();
        let snap_dir = env.root.with_extension("snaps");
        hub.set_record(true);
        hub.snap_begin(
            FILE_POINTS,
            vec![(env.data.clone(), "data".into()), (env.ws.join(".rip"), "ws/.rip".into())],
            snap_dir.clone(),
        );
        let op_r = if get_str(&op, "op") == Some("restart") {
            env.restart();
            json!({"ok": true})
        } else {
            env.exec(&op)
        };
        let mut snaps = hub.snap_end();
        let trace = normalize_trace(hub.take_trace(), &env);
        let ids_now = env.ids.lock().unwrap().clone();
        // the completed operation (crash after the acknowledgement) is the last "crash point"
        let fin_dir = snap_dir.join("final");
        let _ = util::copy_dir(&env.data, &fin_dir.join("data"));
        let _ = util::copy_dir(&env.ws.join(".rip"), &fin_dir.join("ws/.rip"));
        let (frames, _) = crate::store::stream_seqs(&env.data);
        let acked_final: Vec<Value> = frames.iter().map(|(_, s, q, _)| json!([s, q])).collect();
        snaps.push(json!({"k": snaps.len(), "point": "after.return", "fields": {}, "dir": fin_dir.to_string_lossy()}));
        // the process is dead: drop every in-memory structure, then restart IN PLACE from each
        // snapshot (same data dir, same workspace root path - the thread index is keyed by it)
        let root = env.root.clone();
        let data = env.data.clone();
        let ws = env.ws.clone();
        env.engine = None;
        env.store = None;
        env.reader = None;
        let mut points = Vec::new();
        for s in &snaps {
            let dir = PathBuf::from(s["dir"].as_str().unwrap_or(""));
            let _ = std::fs::remove_dir_all(&data);
            let _ = std::fs::remove_dir_all(ws.join(".rip"));
            let _ = util::copy_dir(&dir.join("data"), &data);
            let _ = util::copy_dir(&dir.join("ws/.rip"), &ws.join(".rip"));
            std::fs::create_dir_all(&data).ok();
            let acked_here = if s["point"] == "after.return" { &acked_final } else { &acked };
            let r = check_recovered(&root, ids_now.clone(), &post, acked_here);
            points.push(json!({"k": s["k"], "point": s["point"], "fields": s["fields"], "check": r}));
        }
        let _ = std::fs::remove_dir_all(&snap_dir);
        let _ = acked.len();
        out.write(&json!({
            "id": case["id"], "setup": setup_r, "op": op_r, "points": points, "trace": trace,
        }));
        env.cleanup();
    }
}

// ---------------------------------------------------------------------------------------------
// free: concurrent clients against the real router, perturbed at every hook point (C01 direction B)

pub fn engine_free(rt: &tokio::runtime::Runtime, cases: Vec<Value>, out: &mut NdjsonOut) {
    let hub = hub();
    for case in cases {
        hub.reset();
        let seed = get_u64(&case, "seed").unwrap_or(1);
        let clients = get_u64(&case, "clients").unwrap_or(4) as usize;
        let ops_per = get_u64(&case, "ops").unwrap_or(8) as usize;
        let restart_mid = get_bool(&case, "restart").unwrap_or(false);
        let root = util::scratch_root().join(format!("free-{}", uuid::Uuid::new_v4().simple()));
        let data = root.join("data");
        let ws = root.join("ws");
        std::fs::create_dir_all(&data).unwrap();
        std::fs::create_dir_all(&ws).unwrap();
        hub.set_record(true);
        hub.set_yield_seed(Some(seed));
        let phases = if restart_mid { 2 } else { 1 };
        let mut errors = Vec::new();
        for phase in 0..phases {
            let data2 = data.clone();
            let ws2 = ws.clone();
            let errs = rt.block_on(async move {
                let server = crate::srv::Server::start(data2, ws2, None, false).await;
                let base = server.base.clone();
                let client = reqwest::Client::new();
                let mut errs: Vec<String> = Vec::new();
                let ensure: Value = match client.post(format!("{base}/threads/ensure")).send().await {
                    Ok(r) => r.json().await.unwrap_or(Value::Null),
                    Err(e) => {
                        errs.push(format!("ensure: {e}"));
                        Value::Null
                    }
                };
                let root_thread = ensure["thread_id"].as_str().unwrap_or("").to_string();
                let threads = Arc::new(tokio::sync::Mutex::new(vec![root_thread]));
                let mut joins = Vec::new();
                for c in 0..clients {
                    let client = client.clone();
                    let base = base.clone();
                    let threads = threads.clone();
                    let mut rng = seed
                        .wrapping_mul(6364136223846793005)
                        .wrapping_add((c as u64 + 1) * 1442695040888963407 + phase as u64);
                    joins.push(tokio::spawn(async move {
                        let mut errs = Vec::new();
                        for k in 0..ops_per {
                            rng ^= rng << 13;
                            rng ^= rng >> 7;
                            rng ^= rng << 17;
                            let tid = {
                                let t = threads.lock().await;
                                t[(rng as usize / 7) % t.len()].clone()
                            };
                            let choice = rng % 10;
                            let res = match choice {
                                0..=3 => {
                                    // message -> run (tool envelope: a mutating tool, so side-effect frames too)
                                    let content = if rng % 3 == 0 {
                                        json!({"tool": "write", "args": {"path": format!("f{c}.txt"), "content": format!("{k}")}}).to_string()
                                    } else if rng % 3 == 1 {
                                        json!({"tool": "ls", "args": {"path": "."}}).to_string()
                                    } else {
                                        format!("hello {c} {k}")
                                    };
                                    client
                                        .post(format!("{base}/threads/{tid}/messages"))
                                        .json(&json!({"content": content}))
                                        .send()
                                        .await
                                        .map(|r| r.status().as_u16())
                                }
                                4 => client
                                    .post(format!("{base}/threads/{tid}/compaction-auto"))
                                    .json(&json!({"stride_messages": 2, "max_new_checkpoints": 2, "actor_id": "user", "origin": "verif"}))
                                    .send()
                                    .await
                                    .map(|r| r.status().as_u16()),
                                5 => client
                                    .post(format!("{base}/threads/{tid}/compaction-auto-schedule"))
                                    .json(&json!({"stride_messages": 3, "max_new_checkpoints": 1, "actor_id": "user", "origin": "verif"}))
                                    .send()
                                    .await
                                    .map(|r| r.status().as_u16()),
                                6 => {
                                    let r = client
                                        .post(format!("{base}/threads/{tid}/branch"))
                                        .json(&json!({"title": "b"}))
                                        .send()
                                        .await;
                                    match r {
                                        Ok(resp) => {
                                            let st = resp.status().as_u16();
                                            if let Ok(v) = resp.json::<Value>().await {
                                                if let Some(id) = v["thread_id"].as_str() {
                                                    threads.lock().await.push(id.to_string());
                                                }
                                            }
                                            Ok(st)
                                        }
                                        Err(e) => Err(e),
                                    }
                                }
                                7 => {
                                    let r = client
                                        .post(format!("{base}/threads/{tid}/handoff"))
                                        .json(&json!({"title": "h", "summary_markdown": "sum"}))
                                        .send()
                                        .await;
                                    match r {
                                        Ok(resp) => {
                                            let st = resp.status().as_u16();
                                            if let Ok(v) = resp.json::<Value>().await {
                                                if let Some(id) = v["thread_id"].as_str() {
                                                    threads.lock().await.push(id.to_string());
                                                }
                                            }
                                            Ok(st)
                                        }
                                        Err(e) => Err(e),
                                    }
                                }
                                8 => client
                                    .post(format!("{base}/tasks"))
                                    .json(&json!({"tool": "bash", "args": {"command": format!("echo out{c}; echo err{c} 1>&2")}}))
                                    .send()
                                    .await
                                    .map(|r| r.status().as_u16()),
                                _ => client
                                    .post(format!("{base}/threads/{tid}/provider-cursor-rotate"))
                                    .json(&json!({"actor_id": "user", "origin": "verif"}))
                                    .send()
                                    .await
                                    .map(|r| r.status().as_u16()),
                            };
                            match res {
                                Ok(st) if st < 500 => {}
                                Ok(st) => errs.push(format!("status {st} on choice {choice}")),
                                Err(e) => errs.push(format!("http: {e}")),
                            }
                        }
                        errs
                    }));
                }
                for j in joins {
                    if let Ok(e) = j.await {
                        errs.extend(e);
                    }
                }
                server.stop().await;
                errs
            });
            errors.extend(errs);
            // wait for spawned sessions / tasks to drain (log stops growing)
            let mut last = 0u64;
            let mut stable = 0;
            for _ in 0..400 {
                let len = std::fs::metadata(crate::store::log_path(&data)).map(|m| m.len()).unwrap_or(0);
                if len == last {
                    stable += 1;
                    if stable >= 6 {
                        break;
                    }
                } else {
                    stable = 0;
                    last = len;
                }
                std::thread::sleep(Duration::from_millis(25));
            }
            hub.note(json!({"ev": "restart", "phase": phase}));
        }
        hub.set_yield_seed(None);
        let trace: Vec<Value> = hub
            .take_trace()
            .into_iter()
            .filter(|r| matches!(r["ev"].as_str(), Some("log.flushed") | Some("restart")))
            .collect();
        // name streams by first appearance
        let mut names: HashMap<String, String> = HashMap::new();
        let trace: Vec<Value> = trace
            .into_iter()
            .map(|mut r| {
                if let Some(s) = r.get("stream").and_then(|s| s.as_str()).map(str::to_string) {
                    let n = names.len();
                    let name = names.entry(s).or_insert_with(|| format!("X{n}")).clone();
                    r["stream"] = json!(name);
                }
                if let Some(o) = r.as_object_mut() {
                    o.remove("id");
                }
                r
            })
            .collect();
        let summary = log_summary(&data);
        out.write(&json!({"id": case["id"], "summary": summary, "trace": trace, "errors": errors}));
        let _ = std::fs::remove_dir_all(&root);
    }
}

// ---------------------------------------------------------------------------------------------
// overtake: every append of the chosen stream kinds is delayed at log.pre until a later seq of
// the same stream reaches the disk (or a time-out says the code's locking forbids it).  This is
// the counterexample schedule TLC finds for an un-guarded emitter (StoreSeq, TaskGuarded = FALSE).

pub fn engine_overtake(rt: &tokio::runtime::Runtime, cases: Vec<Value>, out: &mut NdjsonOut) {
    let hub = hub();
    for case in cases {
        hub.reset();
        let root = util::scratch_root().join(format!("ovt-{}", uuid::Uuid::new_v4().simple()));
        let data = root.join("data");
        let ws = root.join("ws");
        std::fs::create_dir_all(&data).unwrap();
        std::fs::create_dir_all(&ws).unwrap();
        hub.set_record(true);
        let kinds: Vec<String> = case["kinds"]
            .as_array()
            .map(|a| a.iter().filter_map(|x| x.as_str().map(str::to_string)).collect())
            .unwrap_or_default();
        let kinds_ref: Vec<&str> = kinds.iter().map(|s| s.as_str()).collect();
        let wait = Duration::from_millis(get_u64(&case, "wait_ms").unwrap_or(40));
        if get_str(&case, "delay_at") == Some("cache.enter") {
            hub.set_overtake_cache(wait);
        } else {
            hub.set_overtake(&kinds_ref, wait);
        }
        let restart_append = case["restart_append"].as_bool().unwrap_or(false);
        let scenario = get_str(&case, "scenario").unwrap_or("task").to_string();
        let data2 = data.clone();
        let ws2 = ws.clone();
        let delivered: Arc<std::sync::Mutex<Vec<u64>>> = Arc::new(std::sync::Mutex::new(Vec::new()));
        let delivered2 = delivered.clone();
        rt.block_on(async move {
            let delivered = delivered2;
            let server = crate::srv::Server::start(data2, ws2, None, false).await;
            let base = server.base.clone();
            let client = reqwest::Client::new();
            match scenario.as_str() {
                "task" => {
                    let _ = client
                        .post(format!("{base}/tasks"))
                        .json(&json!({"tool": "bash", "args": {"command": "echo o1; echo e1 1>&2; sleep 0.05; echo o2; echo e2 1>&2"}}))
                        .send()
                        .await;
                }
                "task_sub" => {
                    // two pumps emitting concurrently while a subscriber is attached from the start
                    if let Ok(r) = client
                        .post(format!("{base}/tasks"))
                        .json(&json!({"tool": "bash", "args": {"command": "echo o1; echo e1 1>&2; sleep 0.05; echo o2; echo e2 1>&2; sleep 0.05; echo o3; echo e3 1>&2"}}))
                        .send()
                        .await
                    {
                        if let Ok(v) = r.json::<Value>().await {
                            let id = v["task_id"].as_str().unwrap_or("").to_string();
                            if let Ok(resp) = client.get(format!("{base}/tasks/{id}/events")).send().await {
                                use futures_util::StreamExt;
                                let mut stream = resp.bytes_stream();
                                let mut buf = String::new();
                                let deadline = tokio::time::Instant::now() + Duration::from_secs(4);
                                loop {
                                    let next = tokio::time::timeout_at(deadline, stream.next()).await;
                                    let Ok(Some(Ok(chunk))) = next else { break };
                                    buf.push_str(&String::from_utf8_lossy(&chunk));
                                    while let Some(pos) = buf.find("\n\n") {
                                        let ev: String = buf.drain(..pos + 2).collect();
                                        for line in ev.lines() {
                                            if let Some(d) = line.strip_prefix("data:") {
                                                if let Ok(v) = serde_json::from_str::<Value>(d.trim()) {
                                                    if let Some(q) = v["seq"].as_u64() {
                                                        delivered.lock().unwrap().push(q);
                                                    }
                                                    if v["type"] == "tool_task_status" && v["status"] != "running" && v["status"] != "queued" {
                                                        // terminal status: allow a short grace for stragglers
                                                        tokio::time::sleep(Duration::from_millis(150)).await;
                                                    }
                                                }
                                            }
                                        }
                                    }
                                    let d = delivered.lock().unwrap().clone();
                                    let _ = d;
                                }
                            }
                        }
                    }
                }
                "task_cancel" => {
                    if let Ok(r) = client
                        .post(format!("{base}/tasks"))
                        .json(&json!({"tool": "bash", "args": {"command": "echo o1; echo e1 1>&2; sleep 5"}}))
                        .send()
                        .await
                    {
                        if let Ok(v) = r.json::<Value>().await {
                            let id = v["task_id"].as_str().unwrap_or("").to_string();
                            tokio::time::sleep(Duration::from_millis(150)).await;
                            let _ = client
                                .post(format!("{base}/tasks/{id}/cancel"))
                                .json(&json!({"reason": "verif"}))
                                .send()
                                .await;
                        }
                    }
                }
                "session" => {
                    if let Ok(r) = client.post(format!("{base}/sessions")).send().await {
                        if let Ok(v) = r.json::<Value>().await {
                            let id = v["session_id"].as_str().unwrap_or("").to_string();
                            let _ = client
                                .post(format!("{base}/sessions/{id}/input"))
                                .json(&json!({"input": json!({"tool": "bash", "args": {"command": "echo hi; echo err 1>&2"}}).to_string()}))
                                .send()
                                .await;
                        }
                    }
                }
                _ => {
                    // thread: two messages posted concurrently, each starting a tool run
                    let ensure: Value = client
                        .post(format!("{base}/threads/ensure"))
                        .send()
                        .await
                        .unwrap()
                        .json()
                        .await
                        .unwrap_or(Value::Null);
                    let tid = ensure["thread_id"].as_str().unwrap_or("").to_string();
                    let mut js = Vec::new();
                    let nmsg = if scenario == "thread3" { 3 } else { 2 };
                    for k in 0..nmsg {
                        let client = client.clone();
                        let url = format!("{base}/threads/{tid}/messages");
                        js.push(tokio::spawn(async move {
                            let _ = client
                                .post(url)
                                .json(&json!({"content": json!({"tool": "write", "args": {"path": format!("o{k}.txt"), "content": "x"}}).to_string()}))
                                .send()
                                .await;
                        }));
                    }
                    for j in js {
                        let _ = j.await;
                    }
                }
            }
            // drain
            tokio::time::sleep(Duration::from_millis(100)).await;
            server.stop().await;
        });
        let mut last = 0u64;
        let mut stable = 0;
        for _ in 0..600 {
            let len = std::fs::metadata(crate::store::log_path(&data)).map(|m| m.len()).unwrap_or(0);
            if len == last && len > 0 {
                stable += 1;
                if stable >= 12 {
                    break;
                }
            } else {
                stable = 0;
                last = len;
            }
            std::thread::sleep(Duration::from_millis(25));
        }
        let overtaken = hub.end_overtake();
        if restart_append {
            // the authority restarts on the store as it is and every thread gets one more message
            let data3 = data.clone();
            let ws3 = ws.clone();
            rt.block_on(async move {
                let server = crate::srv::Server::start(data3, ws3, None, false).await;
                let client = reqwest::Client::new();
                if let Ok(r) = client.post(format!("{}/threads/ensure", server.base)).send().await {
                    if let Ok(v) = r.json::<Value>().await {
                        let tid = v["thread_id"].as_str().unwrap_or("").to_string();
                        let _ = client
                            .post(format!("{}/threads/{tid}/messages", server.base))
                            .json(&json!({"content": json!({"tool": "ls", "args": {"path": "."}}).to_string()}))
                            .send()
                            .await;
                    }
                }
                tokio::time::sleep(Duration::from_millis(400)).await;
                server.stop().await;
            });
        }
        let trace: Vec<Value> = hub
            .take_trace()
            .into_iter()
            .filter(|r| matches!(r["ev"].as_str(), Some("log.flushed")))
            .collect();
        let mut names: HashMap<String, String> = HashMap::new();
        let trace: Vec<Value> = trace
            .into_iter()
            .map(|mut r| {
                if let Some(s) = r.get("stream").and_then(|s| s.as_str()).map(str::to_string) {
                    let n = names.len();
                    let name = names.entry(s).or_insert_with(|| format!("X{n}")).clone();
                    r["stream"] = json!(name);
                }
                if let Some(o) = r.as_object_mut() {
                    o.remove("id");
                }
                r
            })
            .collect();
        let summary = log_summary(&data);
        let delivered = delivered.lock().unwrap().clone();
        out.write(&json!({"id": case["id"], "summary": summary, "trace": trace, "overtaken": overtaken, "delivered": delivered}));
        let _ = std::fs::remove_dir_all(&root);
    }
}

// ---------------------------------------------------------------------------------------------
// trans: one implementation test per transition of the Threads state graph.  The path is run
// on a fresh store; then every operation of the alphabet is executed in that state: read-only
// predictions in place (the log must not move), state-changing ones on a copy that is reopened
// (so they also run on a restarted authority).

fn exec_observed(env: &StoreEnv, op: &Value) -> Value {
    let before = observe_log(&env.data);
    let r = env.exec(op);
    let after = observe_log(&env.data);
    let delta = log_delta(&before, &after);
    json!({"ok": r["ok"], "ret": r["ret"], "log": delta})
}

fn normalize_result(env: &StoreEnv, r: Value) -> Value {
    let norm = env.normalizer();
    let mut r = r;
    let n = norm.norm(&r["ret"]);
    r["ret"] = n;
    let nf = norm.norm(&r["log"]["new_frames"]);
    r["log"]["new_frames"] = nf;
    r
}

pub fn engine_trans(cases: Vec<Value>, out: &mut NdjsonOut) {
    let hub = hub();
    for case in cases {
        hub.reset();
        let env = StoreEnv::fresh("trans");
        let path = case.get("path").and_then(|o| o.as_array()).cloned().unwrap_or_default();
        let mut path_r = Vec::new();
        for op in &path {
            let r = exec_observed(&env, op);
            path_r.push(normalize_result(&env, r));
        }
        let trans = case.get("trans").and_then(|o| o.as_array()).cloned().unwrap_or_default();
        let mut trans_r = Vec::new();
        for tr in &trans {
            let op = &tr["op"];
            let mutating = get_bool(tr, "mut").unwrap_or(false);
            if mutating {
                let copy = env.root.join(format!("copy-{}", trans_r.len()));
                let _ = util::copy_dir(&env.data, &copy.join("data"));
                let _ = util::copy_dir(&env.ws, &copy.join("ws"));
                let ids = env.ids.lock().unwrap().clone();
                let env2 = StoreEnv::reopen_at(copy.clone(), ids);
                let r = exec_observed(&env2, op);
                let mut r = normalize_result(&env2, r);
                // follow-up observations on the same copy (artifact read-back, repeated call, ...)
                if let Some(post) = tr.get("post").and_then(|p| p.as_array()) {
                    let mut pr = Vec::new();
                    for pop in post {
                        let x = exec_observed(&env2, pop);
                        pr.push(normalize_result(&env2, x));
                    }
                    r["post"] = json!(pr);
                }
                trans_r.push(r);
                drop(env2);
                let _ = std::fs::remove_dir_all(&copy);
            } else {
                let r = exec_observed(&env, op);
                let mut r = normalize_result(&env, r);
                if let Some(post) = tr.get("post").and_then(|p| p.as_array()) {
                    let mut pr = Vec::new();
                    for pop in post {
                        let x = exec_observed(&env, pop);
                        pr.push(normalize_result(&env, x));
                    }
                    r["post"] = json!(pr);
                }
                trans_r.push(r);
            }
        }
        out.write(&json!({"id": case["id"], "path": path_r, "trans": trans_r}));
        env.cleanup();
    }
}

// ---------------------------------------------------------------------------------------------
// cachediff (C04): after a history with cache faults, every read capability is evaluated twice:
// with the caches as found and on a copy with continuity_streams/ removed (the code's own truth
// path).  Every call runs under a watchdog: a call that does not return is a termination
// violation.

fn exec_with_watchdog(env: &Arc<StoreEnv>, op: &Value, secs: u64) -> Value {
    let (tx, rx) = std::sync::mpsc::channel();
    let env2 = env.clone();
    let op2 = op.clone();
    std::thread::spawn(move || {
        let r = std::panic::catch_unwind(std::panic::AssertUnwindSafe(|| env2.exec(&op2)));
        let _ = tx.send(match r {
            Ok(v) => v,
            Err(_) => json!({"ok": false, "ret": "PANIC", "panic": true}),
        });
    });
    match rx.recv_timeout(Duration::from_secs(secs)) {
        Ok(v) => v,
        Err(_) => json!({"ok": false, "ret": "TIMEOUT", "timeout": true}),
    }
}

fn read_queries(env: &StoreEnv) -> Vec<Value> {
    let tcount = env.ids.lock().unwrap().threads.len();
    let mut q = Vec::new();
    for t in 0..tcount {
        let frames = env.truth_frames(t);
        if frames.is_empty() {
            continue;
        }
        let msgs: Vec<u64> = frames
            .iter()
            .filter(|e| matches!(e.kind, rip_kernel::EventKind::ContinuityMessageAppended { .. }))
            .map(|e| e.seq)
            .collect();
        q.extend(vec![
            json!({"op": "replay", "t": t}),
            json!({"op": "cut_points", "t": t, "stride": 1, "limit": 8}),
            json!({"op": "cut_points", "t": t, "stride": 2, "limit": 3}),
            json!({"op": "status", "t": t, "stride": 1}),
            json!({"op": "status", "t": t, "stride": 2}),
            json!({"op": "cursor_status", "t": t}),
            json!({"op": "selection_status", "t": t}),
            json!({"op": "selection_status", "t": t, "limit": 1}),
            json!({"op": "auto", "t": t, "stride": 1, "max_new": 4, "dry_run": true}),
            json!({"op": "schedule", "t": t, "stride": 2, "max_new": 2, "dry_run": true}),
        ]);
        if let (Some(first), Some(last)) = (msgs.first(), msgs.last()) {
            q.push(json!({"op": "compile", "t": t, "m_seq": last, "s": 7}));
            q.push(json!({"op": "compile", "t": t, "m_seq": first, "s": 7}));
            if msgs.len() > 2 {
                q.push(json!({"op": "compile", "t": t, "m_seq": msgs[msgs.len() / 2], "s": 7}));
            }
            // anchors whose 16-message window straddles a seek-index stride boundary (256 frames)
            for m in msgs.iter().filter(|m| **m > 256 && **m < 275 && **m % 4 == 1) {
                q.push(json!({"op": "compile", "t": t, "m_seq": m, "s": 7}));
            }
            q.push(json!({"op": "branch", "t": t, "from_msg_seq": first}));
            q.push(json!({"op": "handoff", "t": t, "summary": "s"}));
            q.push(json!({"op": "branch", "t": t, "from_seq": frames.len() as u64 / 2}));
        }
    }
    q
}

fn scrub_for_diff(v: &mut Value) {
    // fields that legitimately differ between two evaluations: ids of things created by the
    // evaluation itself (new thread, bundle artifact), documented best-effort fields
    match v {
        Value::Object(o) => {
            for k in ["inflight_job_id", "thread_id_new", "bundle_artifact_id"] {
                o.remove(k);
            }
            for (_, x) in o.iter_mut() {
                scrub_for_diff(x);
            }
        }
        Value::Array(a) => a.iter_mut().for_each(scrub_for_diff),
        _ => {}
    }
}

pub fn differential(root: &Path, ids: crate::store::Ids, watchdog_s: u64) -> (Vec<Value>, usize, Vec<Value>) {
    let copy_a = root.with_extension("da");
    let copy_b = root.with_extension("db");
    let _ = std::fs::remove_dir_all(&copy_a);
    let _ = std::fs::remove_dir_all(&copy_b);
    let _ = util::copy_dir(&root.join("data"), &copy_a.join("data"));
    let _ = util::copy_dir(&root.join("ws"), &copy_a.join("ws"));
    let _ = util::copy_dir(&root.join("data"), &copy_b.join("data"));
    let _ = util::copy_dir(&root.join("ws"), &copy_b.join("ws"));
    let _ = std::fs::remove_dir_all(copy_b.join("data/continuity_streams"));
    let env_a = Arc::new(StoreEnv::reopen_at(copy_a.clone(), ids.clone()));
    let env_b = Arc::new(StoreEnv::reopen_at(copy_b.clone(), ids));
    let queries = read_queries(&env_b);
    let mut diffs = Vec::new();
    let mut hangs = Vec::new();
    for q in &queries {
        let mut a = exec_with_watchdog(&env_a, q, watchdog_s);
        if a.get("timeout").is_some() || a.get("panic").is_some() {
            hangs.push(json!({"query": q, "with_caches": a}));
            continue;
        }
        // a truth-path read rebuilds the caches: remove them again before every call
        let _ = std::fs::remove_dir_all(copy_b.join("data/continuity_streams"));
        let mut b = exec_with_watchdog(&env_b, q, watchdog_s);
        if b.get("timeout").is_some() || b.get("panic").is_some() {
            hangs.push(json!({"query": q, "without_caches": b}));
            continue;
        }
        // branch / handoff: compare the resolution only (the new thread id differs)
        if matches!(q["op"].as_str(), Some("branch") | Some("handoff")) {
            for x in [&mut a, &mut b] {
                if let Some(o) = x["ret"].as_object_mut() {
                    o.remove("thread_id");
                }
            }
        }
        if q["op"] == "compile" {
            for x in [&mut a, &mut b] {
                if let Some(o) = x["ret"].as_object_mut() {
                    o.remove("bundle_artifact_id");
                }
            }
        }
        scrub_for_diff(&mut a);
        scrub_for_diff(&mut b);
        if a != b {
            let norm = env_b.normalizer();
            diffs.push(json!({"query": q, "with_caches": norm.norm(&a), "without": norm.norm(&b)}));
        }
    }
    let n = queries.len();
    drop(env_a);
    drop(env_b);
    let _ = std::fs::remove_dir_all(&copy_a);
    let _ = std::fs::remove_dir_all(&copy_b);
    (diffs, n, hangs)
}

pub fn engine_cachediff(cases: Vec<Value>, out: &mut NdjsonOut) {
    let hub = hub();
    for case in cases {
        hub.reset();
        let mut env = StoreEnv::fresh("cdiff");
        let ops = case.get("ops").and_then(|o| o.as_array()).cloned().unwrap_or_default();
        let eval_all = get_bool(&case, "eval_every_step").unwrap_or(false);
        let eval_from = get_u64(&case, "eval_from").unwrap_or(0) as usize;
        let watchdog = get_u64(&case, "watchdog_s").unwrap_or(10);
        let mut evals = Vec::new();
        for (i, op) in ops.iter().enumerate() {
            if get_str(op, "op") == Some("restart") {
                env.restart();
            } else if get_str(op, "op") == Some("save_all_caches") {
                let t = get_u64(op, "t").unwrap_or(0);
                for (name, _) in crate::store::CACHE_FILES {
                    env.exec(&json!({"op": "save_cache", "t": t, "file": name}));
                }
            } else {
                env.exec(op);
            }
            let last = i + 1 == ops.len();
            if last || (eval_all && i >= eval_from) {
                let ids = env.ids.lock().unwrap().clone();
                let (diffs, n, hangs) = differential(&env.root, ids, watchdog);
                evals.push(json!({"after_op": i, "queries": n, "diffs": diffs, "hangs": hangs}));
            }
        }
        let lag = cache_lag(&env);
        out.write(&json!({"id": case["id"], "evals": evals, "cache_lag": lag}));
        env.cleanup();
    }
}


// logconc: several actors (each its own stream) append through ONE EventLog at the same time, frames of
// chosen sizes around and far above the writer's buffer (8 KiB).  The log file must consist of whole,
// newline-terminated frames, each stream numbered in file order (StoreSeq: the log append is one atomic
// step whatever the frame's size).
pub fn engine_logconc(cases: Vec<Value>, out: &mut NdjsonOut) {
    for case in cases {
        let root = util::scratch_root().join(format!("lc-{}", uuid::Uuid::new_v4().simple()));
        std::fs::create_dir_all(&root).unwrap();
        let path = root.join("events.jsonl");
        let log = Arc::new(rip_log::EventLog::new(&path).expect("log"));
        let writers = case["writers"].as_array().cloned().unwrap_or_default();
        let barrier = Arc::new(std::sync::Barrier::new(writers.len()));
        let mut hs = Vec::new();
        for (w, spec) in writers.iter().enumerate() {
            let n = get_u64(spec, "n").unwrap_or(20);
            let pad = get_u64(spec, "pad").unwrap_or(10) as usize;
            let log = log.clone();
            let barrier = barrier.clone();
            hs.push(std::thread::spawn(move || {
                barrier.wait();
                let sid = format!("lc-{w}");
                let mut ok = 0u64;
                for q in 0..n {
                    let kind = if q == 0 {
                        rip_kernel::EventKind::SessionStarted { input: "x".repeat(pad) }
                    } else {
                        rip_kernel::EventKind::OutputTextDelta { delta: "d".repeat(pad + (q as usize % 7)) }
                    };
                    let e = rip_kernel::Event { id: format!("{sid}-{q}"), session_id: sid.clone(), timestamp_ms: q, seq: q, kind };
                    if log.append(&e).is_ok() {
                        ok += 1;
                    }
                }
                ok
            }));
        }
        let acked: u64 = hs.into_iter().map(|h| h.join().unwrap_or(0)).sum();
        let bytes = std::fs::read(&path).unwrap_or_default();
        let nl = bytes.is_empty() || bytes.last() == Some(&b'\n');
        let mut bad_lines = 0u64;
        let mut frames = 0u64;
        let mut first_bad = Value::Null;
        let mut next: HashMap<String, u64> = HashMap::new();
        let mut misnumbered = 0u64;
        let body = if nl && !bytes.is_empty() { &bytes[..bytes.len() - 1] } else { &bytes[..] };
        for (i, line) in body.split(|b| *b == b'\n').enumerate() {
            if bytes.is_empty() {
                break;
            }
            match serde_json::from_slice::<rip_kernel::Event>(line) {
                Ok(e) => {
                    frames += 1;
                    let c = next.entry(e.stream_id().to_string()).or_insert(0);
                    if e.seq != *c {
                        misnumbered += 1;
                    }
                    *c = e.seq + 1;
                }
                Err(err) => {
                    bad_lines += 1;
                    if first_bad.is_null() {
                        first_bad = json!({"line": i, "len": line.len(), "error": err.to_string().chars().take(120).collect::<String>()});
                    }
                }
            }
        }
        let replay_validated = log.replay_validated().is_ok();
        out.write(&json!({"id": case["id"], "acked": acked, "frames": frames, "bad_lines": bad_lines, "first_bad": first_bad,
                          "ends_with_newline": nl, "misnumbered": misnumbered, "replay_validated": replay_validated, "bytes": bytes.len()}));
        let _ = std::fs::remove_dir_all(&root);
    }
}


// sidecar_order: several writers use the store at the same time, each with its own kind of append; every
// thread frame's sidecar line is delayed at cache.enter until a later frame's line is in the sidecar - which
// can only happen if the seq mutex no longer covers the sidecar append of that kind.  Afterwards the full
// sidecar must hold the frames in seq order, and after a restart the thread must go on gap-free.
pub fn engine_sidecar_order(cases: Vec<Value>, out: &mut NdjsonOut) {
    let hub = hub();
    for case in cases {
        hub.reset();
        let mut env = StoreEnv::fresh("sco");
        let setup = case.get("setup").and_then(|o| o.as_array()).cloned().unwrap_or_default();
        run_ops_seq(&mut env, &setup);
        hub.set_overtake_cache(Duration::from_millis(get_u64(&case, "wait_ms").unwrap_or(40)));
        let env = Arc::new(env);
        let actors = case.get("actors").and_then(|o| o.as_array()).cloned().unwrap_or_default();
        let barrier = Arc::new(std::sync::Barrier::new(actors.len().max(1)));
        let mut hs = Vec::new();
        for a in actors {
            let env = env.clone();
            let barrier = barrier.clone();
            hs.push(std::thread::spawn(move || {
                barrier.wait();
                let ops = a.get("ops").and_then(|o| o.as_array()).cloned().unwrap_or_default();
                let mut oks = 0u64;
                for op in &ops {
                    if env.exec(op)["ok"].as_bool().unwrap_or(false) {
                        oks += 1;
                    }
                }
                oks
            }));
        }
        let oks: u64 = hs.into_iter().map(|h| h.join().unwrap_or(0)).sum();
        let overtaken = hub.end_overtake();
        // the full sidecar of thread 0, as it is on disk
        let tid = env.thread_id(0);
        let side = env.cache_path(&tid, "full").and_then(|p| std::fs::read(p).ok()).unwrap_or_default();
        let seqs: Vec<u64> = String::from_utf8_lossy(&side)
            .lines()
            .filter_map(|l| serde_json::from_str::<Value>(l).ok())
            .filter_map(|v| v["seq"].as_u64())
            .collect();
        let in_order = seqs.iter().enumerate().all(|(i, q)| *q == i as u64);
        let mut env = match Arc::try_unwrap(env) {
            Ok(e) => e,
            Err(_) => {
                out.write(&json!({"id": case["id"], "error": "env still shared"}));
                continue;
            }
        };
        env.restart();
        let after = case.get("after").and_then(|o| o.as_array()).cloned().unwrap_or_default();
        let post = run_ops_seq(&mut env, &after);
        let summary = log_summary(&env.data);
        out.write(&json!({"id": case["id"], "ops_ok": oks, "overtaken": overtaken, "sidecar_seqs": seqs, "sidecar_in_order": in_order,
                          "post_ok": post.iter().map(|r| r["ok"].clone()).collect::<Vec<_>>(), "summary": summary}));
        env.cleanup();
    }
}
