//! Scripted runs: one prompt / tool / checkpoint input through the real router against the
//! scripted provider; returns the session and thread streams, the requests the provider
//! received and the workspace tree.
use std::path::{Path, PathBuf};
use std::time::Duration;

use ripd::verif_api::{OpenResponsesConfig, ToolChoiceParam};
use serde_json::{json, Value};

use crate::provider::{Provider, Resp};
use crate::util::{self, get_bool, get_str, get_u64};

pub fn frames_of(data: &Path, stream: &str) -> Vec<Value> {
    let bytes = std::fs::read(crate::store::log_path(data)).unwrap_or_default();
    String::from_utf8_lossy(&bytes)
        .split('\n')
        .filter_map(|l| serde_json::from_str::<Value>(l).ok())
        .filter(|v| v["stream_id"] == json!(stream))
        .collect()
}

pub fn all_frames(data: &Path) -> Vec<Value> {
    let bytes = std::fs::read(crate::store::log_path(data)).unwrap_or_default();
    String::from_utf8_lossy(&bytes)
        .split('\n')
        .filter_map(|l| serde_json::from_str::<Value>(l).ok())
        .collect()
}

pub fn config_from(case: &Value, endpoint: &str) -> OpenResponsesConfig {
    let c = case.get("config").cloned().unwrap_or(json!({}));
    OpenResponsesConfig {
        endpoint: endpoint.to_string(),
        api_key: get_str(&c, "api_key").map(str::to_string),
        model: get_str(&c, "model").map(str::to_string).or(Some("test-model".to_string())),
        headers: c
            .get("headers")
            .and_then(|h| h.as_array())
            .map(|a| {
                a.iter()
                    .filter_map(|p| Some((p[0].as_str()?.to_string(), p[1].as_str()?.to_string())))
                    .collect()
            })
            .unwrap_or_default(),
        tool_choice: match c.get("tool_choice") {
            Some(v) if !v.is_null() => ToolChoiceParam::new(v.clone()),
            _ => ToolChoiceParam::auto(),
        },
        followup_user_message: get_str(&c, "followup_user_message").map(str::to_string),
        stateless_history: get_bool(&c, "stateless_history").unwrap_or(false),
        parallel_tool_calls: get_bool(&c, "parallel_tool_calls").unwrap_or(false),
    }
}

pub struct RunOut {
    pub root: PathBuf,
    pub result: Value,
}

/// Run one scripted case. `keep` leaves the directories in place (the caller removes them).
pub async fn run_scripted(case: &Value, keep: bool) -> RunOut {
    let root = util::scratch_root().join(format!("run-{}", uuid::Uuid::new_v4().simple()));
    let data = root.join("data");
    let ws = root.join("ws");
    std::fs::create_dir_all(&data).unwrap();
    std::fs::create_dir_all(&ws).unwrap();
    if let Some(files) = case.get("ws_files").and_then(|f| f.as_object()) {
        for (k, v) in files {
            let p = ws.join(k);
            if let Some(parent) = p.parent() {
                let _ = std::fs::create_dir_all(parent);
            }
            let _ = std::fs::write(p, v.as_str().unwrap_or(""));
        }
    }
    let script: Vec<Resp> = case
        .get("script")
        .and_then(|s| s.as_array())
        .map(|a| a.iter().map(Resp::from_json).collect())
        .unwrap_or_default();
    let no_provider = get_bool(case, "no_provider").unwrap_or(false);
    crate::provider::REPEAT_LAST.store(case["repeat_last"].as_bool().unwrap_or(false), std::sync::atomic::Ordering::SeqCst);
    let provider = Provider::start(script).await;
    let endpoint = if get_bool(case, "dead_endpoint").unwrap_or(false) {
        "http://127.0.0.1:9/v1/responses".to_string()
    } else {
        provider.url.clone()
    };
    let cfg = if no_provider { None } else { Some(config_from(case, &endpoint)) };
    let server = crate::srv::Server::start(data.clone(), ws.clone(), cfg, false).await;
    let base = server.base.clone();
    let client = reqwest::Client::new();
    let linked = get_bool(case, "linked").unwrap_or(true);
    let inputs: Vec<String> = match case.get("inputs").and_then(|i| i.as_array()) {
        Some(a) => a.iter().map(|x| x.as_str().unwrap_or("").to_string()).collect(),
        None => vec![get_str(case, "input").unwrap_or("hello").to_string()],
    };
    let parallel = get_bool(case, "parallel").unwrap_or(false);
    let mut sessions: Vec<String> = Vec::new();
    let mut thread_id = String::new();
    let mut http = Vec::new();
    if linked {
        let v: Value = client
            .post(format!("{base}/threads/ensure"))
            .send()
            .await
            .unwrap()
            .json()
            .await
            .unwrap_or(Value::Null);
        thread_id = v["thread_id"].as_str().unwrap_or("").to_string();
    }
    let timeout_ms = get_u64(case, "timeout_ms").unwrap_or(15000);
    // ---- scenario set-up steps (before the scripted inputs)
    let mut pre_log = Vec::new();
    for step in case.get("pre").and_then(|p| p.as_array()).cloned().unwrap_or_default() {
        match step["do"].as_str().unwrap_or("") {
            "post_message_wait" => {
                let r = client
                    .post(format!("{base}/threads/{thread_id}/messages"))
                    .json(&json!({"content": step["content"].as_str().unwrap_or("pre")}))
                    .send()
                    .await;
                if let Ok(resp) = r {
                    let v: Value = resp.json().await.unwrap_or(Value::Null);
                    let sid = v["session_id"].as_str().unwrap_or("").to_string();
                    wait_run_end(&data, &sid, Some(&thread_id), timeout_ms).await;
                    sessions.push(sid);
                }
            }
            "checkpoint_last_message" => {
                let mid = frames_of(&data, &thread_id)
                    .iter()
                    .rev()
                    .find(|f| f["type"] == "continuity_message_appended")
                    .and_then(|f| f["id"].as_str().map(str::to_string))
                    .unwrap_or_default();
                let r = client
                    .post(format!("{base}/threads/{thread_id}/compaction-checkpoint"))
                    .json(&json!({"summary_markdown": "pre summary", "to_message_id": mid}))
                    .send()
                    .await;
                pre_log.push(json!({"checkpoint": r.map(|x| x.status().as_u16()).unwrap_or(0)}));
            }
            "rotate" => {
                let r = client
                    .post(format!("{base}/threads/{thread_id}/provider-cursor-rotate"))
                    .json(&json!({"reason": "verif", "actor_id": "user", "origin": "verif"}))
                    .send()
                    .await;
                pre_log.push(json!({"rotate": r.map(|x| x.status().as_u16()).unwrap_or(0)}));
            }
            "delete_artifacts" => {
                let dir = ws.join(".rip/artifacts/blobs");
                for e in std::fs::read_dir(&dir).into_iter().flatten().flatten() {
                    let _ = std::fs::remove_file(e.path());
                }
            }
            "break_snapshots_dir" => {
                // the per-session snapshot directory cannot be written (its path is occupied by a regular file); the log can
                let dir = data.join("snapshots");
                let _ = std::fs::remove_dir_all(&dir);
                let _ = std::fs::write(&dir, b"not a directory");
            }
            "break_artifacts_dir" => {
                let dir = ws.join(".rip/artifacts/blobs");
                let _ = std::fs::remove_dir_all(&dir);
                let _ = std::fs::create_dir_all(ws.join(".rip/artifacts"));
                let _ = std::fs::write(&dir, b"not a directory");
            }
            "auto" | "schedule" => {
                let path = if step["do"] == "auto" { "compaction-auto" } else { "compaction-auto-schedule" };
                let r = client
                    .post(format!("{base}/threads/{thread_id}/{path}"))
                    .json(&json!({"stride_messages": 1, "max_new_checkpoints": 2, "actor_id": "user", "origin": "verif"}))
                    .send()
                    .await;
                pre_log.push(json!({"compaction": r.map(|x| x.status().as_u16()).unwrap_or(0)}));
                // the job body runs in the background: wait until every spawned job has ended (or 3 s)
                for _ in 0..300 {
                    let tf = frames_of(&data, &thread_id);
                    let sp = tf.iter().filter(|f| f["type"] == "continuity_job_spawned").count();
                    let en = tf.iter().filter(|f| f["type"] == "continuity_job_ended").map(|f| f["job_id"].clone()).collect::<std::collections::HashSet<_>>().len();
                    if en >= sp {
                        break;
                    }
                    tokio::time::sleep(Duration::from_millis(10)).await;
                }
                tokio::time::sleep(Duration::from_millis(60)).await;
            }
            _ => {}
        }
    }
    // `same_session`: every input goes to one (unlinked) session, one after the other
    let mut same_session: Option<String> = None;
    if get_bool(case, "same_session").unwrap_or(false) && !linked {
        let v: Value = client.post(format!("{base}/sessions")).send().await.unwrap().json().await.unwrap_or(Value::Null);
        same_session = v["session_id"].as_str().map(str::to_string);
    }
    let mut pending = Vec::new();
    for (input_index, input) in inputs.iter().enumerate() {
        let client = client.clone();
        let base = base.clone();
        let tid = thread_id.clone();
        let input = input.clone();
        let same_in_fut = same_session.clone();
        let fut = async move {
            let same_session = same_in_fut;
            let thread_id = tid;
            if linked {
                let r = client
                    .post(format!("{base}/threads/{thread_id}/messages"))
                    .json(&json!({"content": input}))
                    .send()
                    .await;
                match r {
                    Ok(resp) => {
                        let st = resp.status().as_u16();
                        let v: Value = resp.json().await.unwrap_or(Value::Null);
                        (st, v["session_id"].as_str().unwrap_or("").to_string())
                    }
                    Err(_) => (0, String::new()),
                }
            } else {
                let id = if let Some(existing) = same_session.clone() {
                    existing
                } else {
                    let v: Value = client
                        .post(format!("{base}/sessions"))
                        .send()
                        .await
                        .unwrap()
                        .json()
                        .await
                        .unwrap_or(Value::Null);
                    v["session_id"].as_str().unwrap_or("").to_string()
                };
                let r = client
                    .post(format!("{base}/sessions/{id}/input"))
                    .json(&json!({"input": input}))
                    .send()
                    .await;
                (r.map(|x| x.status().as_u16()).unwrap_or(0), id)
            }
        };
        if parallel {
            pending.push(tokio::spawn(fut));
        } else {
            let (st, sid) = fut.await;
            http.push(st);
            // sequential inputs: wait for this run to end before the next
            if same_session.is_some() {
                let want = input_index + 1;
                let deadline = std::time::Instant::now() + Duration::from_millis(timeout_ms);
                while std::time::Instant::now() < deadline
                    && frames_of(&data, &sid).iter().filter(|f| f["type"] == "session_ended").count() < want
                {
                    tokio::time::sleep(Duration::from_millis(10)).await;
                }
                if !sessions.contains(&sid) {
                    sessions.push(sid);
                }
            } else {
                wait_run_end(&data, &sid, if linked { Some(&thread_id) } else { None }, timeout_ms).await;
                sessions.push(sid);
            }
        }
    }
    for p in pending {
        if let Ok((st, sid)) = p.await {
            http.push(st);
            sessions.push(sid);
        }
    }
    let mut timed_out = false;
    for sid in &sessions {
        if !wait_run_end(&data, sid, if linked { Some(&thread_id) } else { None }, timeout_ms).await {
            timed_out = true;
        }
    }
    tokio::time::sleep(Duration::from_millis(30)).await;
    let doctor: Value = if get_bool(case, "doctor").unwrap_or(false) {
        match client.get(format!("{base}/config/doctor")).send().await {
            Ok(r) => r.json().await.unwrap_or(Value::Null),
            Err(_) => Value::Null,
        }
    } else {
        Value::Null
    };
    server.stop().await;
    let requests = provider.stop();
    let session_frames: Vec<Value> = sessions.iter().map(|s| json!(frames_of(&data, s))).collect();
    let thread_frames = if linked { frames_of(&data, &thread_id) } else { Vec::new() };
    let mut ws_files = serde_json::Map::new();
    for (k, v) in util::tree_contents(&ws) {
        if !k.starts_with(".rip") {
            ws_files.insert(k, v);
        }
    }
    let order: Vec<Value> = all_frames(&data)
        .iter()
        .map(|f| json!([f["stream_id"], f["type"], f["seq"]]))
        .collect();
    let result = json!({
        "id": case["id"], "sessions": sessions, "thread_id": thread_id, "http": http, "order": order, "pre_log": pre_log,
        "session_frames": session_frames, "thread_frames": thread_frames,
        "requests": requests, "ws_files": ws_files, "timed_out": timed_out, "doctor": doctor,
    });
    if !keep {
        let _ = std::fs::remove_dir_all(&root);
    }
    RunOut { root, result }
}

async fn wait_run_end(data: &Path, session: &str, thread: Option<&str>, timeout_ms: u64) -> bool {
    let deadline = std::time::Instant::now() + Duration::from_millis(timeout_ms);
    loop {
        let ended = frames_of(data, session).iter().any(|f| f["type"] == "session_ended");
        let run_ended = match thread {
            Some(t) => frames_of(data, t)
                .iter()
                .any(|f| f["type"] == "continuity_run_ended" && f["run_session_id"] == json!(session)),
            None => true,
        };
        if ended && run_ended {
            return true;
        }
        if std::time::Instant::now() > deadline {
            return false;
        }
        tokio::time::sleep(Duration::from_millis(10)).await;
    }
}
