//! C11 engine: parallel sessions, provider loops, checkpoint commands and background tasks on one
//! authority, with one actor parked at a chosen point of its critical section (hold mode) or with
//! seeded delays at every hook point (jitter mode).  Output: the hook trace in hub order, the
//! stream -> actor map and the thread's frames.
use std::collections::HashMap;
use std::time::{Duration, Instant};

use serde_json::{json, Value};

use crate::hub::hub;
use crate::provider::Provider;
use crate::runs::{config_from, frames_of};
use crate::util::{self, get_bool, get_str, get_u64, NdjsonOut};

const KEEP: &[&str] = &[
    "ws.acquired", "ws.releasing", "tool.exec.begin", "tool.exec.end", "ckpt.exec.begin", "ckpt.exec.end",
    "task.proc.spawned", "task.proc.exited", "log.flushed", "harness",
];

struct Launched {
    a: u64,
    stream: String,
    kind: String,
    linked: bool,
}

async fn launch(client: &reqwest::Client, base: &str, thread: &str, actor: &Value) -> Option<Launched> {
    let a = get_u64(actor, "a").unwrap_or(0);
    let kind = get_str(actor, "kind").unwrap_or("tool").to_string();
    let linked = get_bool(actor, "linked").unwrap_or(false);
    hub().note(json!({"ev": "harness", "what": "launch", "a": a}));
    let stream = match kind.as_str() {
        "task" => {
            let r = client
                .post(format!("{base}/tasks"))
                .json(&json!({"tool": "bash", "args": {"command": get_str(actor, "command").unwrap_or("true")}}))
                .send()
                .await
                .ok()?;
            let v: Value = r.json().await.ok()?;
            v["task_id"].as_str()?.to_string()
        }
        _ => {
            let input = get_str(actor, "input").unwrap_or("").to_string();
            if linked {
                let r = client
                    .post(format!("{base}/threads/{thread}/messages"))
                    .json(&json!({"content": input}))
                    .send()
                    .await
                    .ok()?;
                let v: Value = r.json().await.ok()?;
                v["session_id"].as_str()?.to_string()
            } else {
                let v: Value = client.post(format!("{base}/sessions")).send().await.ok()?.json().await.ok()?;
                let id = v["session_id"].as_str()?.to_string();
                let _ = client
                    .post(format!("{base}/sessions/{id}/input"))
                    .json(&json!({"input": input}))
                    .send()
                    .await
                    .ok()?;
                id
            }
        }
    };
    hub().note(json!({"ev": "harness", "what": "launched", "a": a, "stream": stream}));
    if kind == "task" && get_str(actor, "cancel") == Some("queued") {
        let _ = client
            .post(format!("{base}/tasks/{stream}/cancel"))
            .json(&json!({"reason": "verif"}))
            .send()
            .await;
        hub().note(json!({"ev": "harness", "what": "cancel_sent", "a": a}));
    }
    Some(Launched { a, stream, kind, linked })
}

fn finished(data: &std::path::Path, thread: &str, l: &Launched) -> bool {
    let fr = frames_of(data, &l.stream);
    if l.kind == "task" {
        fr.iter().any(|f| {
            f["type"] == "tool_task_status"
                && matches!(f["status"].as_str(), Some("exited") | Some("cancelled") | Some("failed"))
        })
    } else {
        let ended = fr.iter().any(|f| f["type"] == "session_ended");
        let run_ended = !l.linked
            || frames_of(data, thread)
                .iter()
                .any(|f| f["type"] == "continuity_run_ended" && f["run_session_id"] == json!(l.stream));
        ended && run_ended
    }
}

async fn quiesce(ms: u64, max_ms: u64) {
    let start = Instant::now();
    let mut last = hub().trace_len();
    let mut since = Instant::now();
    loop {
        tokio::time::sleep(Duration::from_millis(10)).await;
        let n = hub().trace_len();
        if n != last {
            last = n;
            since = Instant::now();
        }
        if since.elapsed() >= Duration::from_millis(ms) || start.elapsed() >= Duration::from_millis(max_ms) {
            return;
        }
    }
}

async fn one(case: &Value) -> Value {
    let root = util::scratch_root().join(format!("wsl-{}", uuid::Uuid::new_v4().simple()));
    let data = root.join("data");
    let ws = root.join("ws");
    std::fs::create_dir_all(&data).unwrap();
    std::fs::create_dir_all(&ws).unwrap();
    let _ = std::fs::write(ws.join("seed.txt"), "seed\n");
    let provider = Provider::start_dynamic().await;
    let cfg = config_from(case, &provider.url);
    let h = hub();
    h.reset();
    h.set_record(true);
    let server = crate::srv::Server::start(data.clone(), ws.clone(), Some(cfg), false).await;
    let base = server.base.clone();
    let client = reqwest::Client::new();
    let v: Value = client.post(format!("{base}/threads/ensure")).send().await.unwrap().json().await.unwrap_or(Value::Null);
    let thread = v["thread_id"].as_str().unwrap_or("").to_string();
    // @@WS@@ in an actor's input / command is the absolute workspace path (bash runs in the process's cwd)
    let ws_abs = ws.to_string_lossy().to_string();
    let actors: Vec<Value> = case["actors"]
        .as_array()
        .cloned()
        .unwrap_or_default()
        .into_iter()
        .map(|a| serde_json::from_str::<Value>(&a.to_string().replace("@@WS@@", &ws_abs)).unwrap_or(a))
        .collect();
    let mode = get_str(case, "mode").unwrap_or("hold");
    let mut launched: Vec<Launched> = Vec::new();
    let mut held = false;
    let mut window = (0u64, 0u64);
    if mode == "hold" {
        let holder = get_u64(case, "holder").unwrap_or(0);
        h.arm_hold(get_str(&case["hold"], "point").unwrap_or(""), case["hold"]["filter"].clone(), get_u64(&case["hold"], "nth").unwrap_or(1));
        if let Some(act) = actors.iter().find(|x| get_u64(x, "a") == Some(holder)) {
            if let Some(l) = launch(&client, &base, &thread, act).await {
                launched.push(l);
            }
        }
        if let Some((at, _)) = h.wait_held(Duration::from_millis(get_u64(case, "hold_wait_ms").unwrap_or(4000))) {
            held = true;
            window.0 = at;
            h.note(json!({"ev": "harness", "what": "held"}));
            for act in actors.iter().filter(|x| get_u64(x, "a") != Some(holder)) {
                if let Some(l) = launch(&client, &base, &thread, act).await {
                    launched.push(l);
                }
            }
            quiesce(get_u64(case, "quiesce_ms").unwrap_or(250), 5000).await;
            h.note(json!({"ev": "harness", "what": "release"}));
        }
        window.1 = h.release_hold();
    } else {
        h.set_jitter(Some((get_u64(case, "seed").unwrap_or(1).wrapping_mul(0x9E37_79B9_7F4A_7C15), get_u64(case, "jitter_us").unwrap_or(3000))));
        let mut pend = Vec::new();
        for act in actors.iter() {
            let (client, base, thread, act) = (client.clone(), base.clone(), thread.clone(), act.clone());
            pend.push(tokio::spawn(async move { launch(&client, &base, &thread, &act).await }));
        }
        for p in pend {
            if let Ok(Some(l)) = p.await {
                launched.push(l);
            }
        }
    }
    // ---- wait for every actor to finish
    let deadline = Instant::now() + Duration::from_millis(get_u64(case, "timeout_ms").unwrap_or(20000));
    let mut timed_out = false;
    loop {
        if launched.iter().all(|l| finished(&data, &thread, l)) {
            break;
        }
        if Instant::now() > deadline {
            timed_out = true;
            break;
        }
        tokio::time::sleep(Duration::from_millis(15)).await;
    }
    tokio::time::sleep(Duration::from_millis(40 + get_u64(case, "linger_ms").unwrap_or(0))).await;
    h.set_jitter(None);
    h.set_record(false);
    let trace: Vec<Value> = h
        .take_trace()
        .into_iter()
        .filter(|e| std::env::var("WSL_ALL").is_ok() || KEEP.contains(&e["ev"].as_str().unwrap_or("")))
        .filter(|e| {
            e["ev"] != "log.flushed"
                || matches!(
                    e["kind"].as_str(),
                    Some("continuity_tool_side_effects") | Some("continuity_run_ended") | Some("continuity_run_spawned")
                )
        })
        .collect();
    server.stop().await;
    let _requests = provider.stop();
    let streams: HashMap<String, u64> = launched.iter().map(|l| (l.stream.clone(), l.a)).collect();
    let thread_frames = frames_of(&data, &thread);
    let mut ws_files = serde_json::Map::new();
    for (k, v) in util::tree_contents(&ws) {
        if !k.starts_with(".rip") {
            ws_files.insert(k, v);
        }
    }
    let ends: Vec<Value> = launched
        .iter()
        .map(|l| {
            let fr = frames_of(&data, &l.stream);
            json!({"a": l.a, "stream": l.stream, "frames": fr.iter().map(|f| json!([f["type"], f["status"], f["name"], f["exit_code"]])).collect::<Vec<_>>()})
        })
        .collect();
    let _ = std::fs::remove_dir_all(&root);
    json!({"id": case["id"], "held": held, "window": [window.0, window.1], "streams": streams, "thread": thread, "trace": trace,
           "thread_frames": thread_frames, "ws_files": ws_files, "timed_out": timed_out, "actors_launched": launched.len(), "ends": ends})
}

pub fn engine_wslock(rt: &tokio::runtime::Runtime, cases: Vec<Value>, out: &mut NdjsonOut) {
    for case in cases {
        let r = rt.block_on(one(&case));
        out.write(&r);
    }
}
