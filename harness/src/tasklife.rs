//! C17 engines.
//!  tasklife: a background task through the real router (POST /tasks, cancel, /output pages);
//!            returns the task's frames, its status, the stored logs (hex) and the pages read.
//!  shellcap: the foreground bash tool with a chosen preview limit / artifact cap; returns the tool
//!            frames, the artifact bytes and artifact_fetch pages.
use std::path::Path;
use std::time::{Duration, Instant};

use rip_tools::{register_builtin_tools, BuiltinToolConfig, ToolInvocation, ToolRegistry, ToolRunner};
use serde_json::{json, Value};

use crate::runs::frames_of;
use crate::util::{self, get_str, get_u64, NdjsonOut};

fn blob_hex(ws: &Path, id: &str) -> Value {
    match std::fs::read(ws.join(".rip/artifacts/blobs").join(id)) {
        Ok(b) => json!({"len": b.len(), "hex": hex::encode(&b)}),
        Err(_) => Value::Null,
    }
}

async fn one_task(case: &Value) -> Value {
    let root = util::scratch_root().join(format!("task-{}", uuid::Uuid::new_v4().simple()));
    let data = root.join("data");
    let ws = root.join("ws");
    std::fs::create_dir_all(&data).unwrap();
    std::fs::create_dir_all(&ws).unwrap();
    let server = crate::srv::Server::start(data.clone(), ws.clone(), None, false).await;
    let base = server.base.clone();
    let client = reqwest::Client::new();
    // a blocker task keeps the workspace lock so that the task under test stays queued
    let mut blocker: Option<String> = None;
    if let Some(ms) = get_u64(case, "blocker_ms") {
        let r = client
            .post(format!("{base}/tasks"))
            .json(&json!({"tool": "bash", "args": {"command": format!("sleep {}", ms as f64 / 1000.0)}}))
            .send()
            .await;
        if let Ok(r) = r {
            blocker = r.json::<Value>().await.ok().and_then(|v| v["task_id"].as_str().map(str::to_string));
        }
        tokio::time::sleep(Duration::from_millis(40)).await;
    }
    let t0 = Instant::now();
    let resp = client.post(format!("{base}/tasks")).json(&case["payload"]).send().await;
    let (http, task_id) = match resp {
        Ok(r) => {
            let st = r.status().as_u16();
            let v: Value = r.json().await.unwrap_or(Value::Null);
            (st, v["task_id"].as_str().unwrap_or("").to_string())
        }
        Err(_) => (0, String::new()),
    };
    let mut cancel_http = Value::Null;
    if !task_id.is_empty() {
        if let Some(ms) = get_u64(case, "cancel_after_ms") {
            tokio::time::sleep(Duration::from_millis(ms)).await;
            let r = client.post(format!("{base}/tasks/{task_id}/cancel")).json(&json!({"reason": "verif"})).send().await;
            cancel_http = json!(r.map(|x| x.status().as_u16()).unwrap_or(0));
            if get_u64(case, "cancel_twice").is_some() {
                let _ = client.post(format!("{base}/tasks/{task_id}/cancel")).json(&json!({"reason": "again"})).send().await;
            }
        }
    }
    // ---- wait for the terminal frame, then a settle period during which nothing may follow
    let deadline = Instant::now() + Duration::from_millis(get_u64(case, "timeout_ms").unwrap_or(15000));
    let mut ended = false;
    while !task_id.is_empty() && Instant::now() < deadline {
        let fr = frames_of(&data, &task_id);
        if fr.iter().any(|f| f["type"] == "tool_task_status" && matches!(f["status"].as_str(), Some("exited") | Some("cancelled") | Some("failed"))) {
            ended = true;
            break;
        }
        tokio::time::sleep(Duration::from_millis(15)).await;
    }
    let wall_ms = t0.elapsed().as_millis() as u64;
    tokio::time::sleep(Duration::from_millis(get_u64(case, "settle_ms").unwrap_or(150))).await;
    let frames = if task_id.is_empty() { Vec::new() } else { frames_of(&data, &task_id) };
    let status: Value = if task_id.is_empty() {
        Value::Null
    } else {
        match client.get(format!("{base}/tasks/{task_id}")).send().await {
            Ok(r) => r.json().await.unwrap_or(Value::Null),
            Err(_) => Value::Null,
        }
    };
    // ---- stored logs and paged reads
    let mut logs = serde_json::Map::new();
    let mut pages = serde_json::Map::new();
    for stream in ["stdout", "stderr"] {
        let id = status["artifacts"]["logs"][stream]["id"].as_str().unwrap_or("").to_string();
        if id.is_empty() {
            continue;
        }
        logs.insert(stream.to_string(), blob_hex(&ws, &id));
        let mut per_size = serde_json::Map::new();
        for size in case["page_sizes"].as_array().cloned().unwrap_or_default() {
            let size = size.as_u64().unwrap_or(64);
            let mut off = 0u64;
            let mut got = Vec::new();
            for _ in 0..2000 {
                let r = client
                    .get(format!("{base}/tasks/{task_id}/output?stream={stream}&offset_bytes={off}&max_bytes={size}"))
                    .send()
                    .await;
                let Ok(r) = r else { break };
                let st = r.status().as_u16();
                let v: Value = r.json().await.unwrap_or(Value::Null);
                let bytes = v["bytes"].as_u64().unwrap_or(0);
                got.push(json!({"http": st, "offset": off, "bytes": bytes, "content": v["content"], "total": v["total_bytes"], "truncated": v["truncated"]}));
                if st != 200 || bytes == 0 {
                    break;
                }
                off += bytes;
                if off >= v["total_bytes"].as_u64().unwrap_or(0) {
                    break;
                }
            }
            per_size.insert(size.to_string(), json!(got));
        }
        pages.insert(stream.to_string(), Value::Object(per_size));
    }
    let snapshot = std::fs::read_to_string(data.join("task_snapshots").join(format!("{task_id}.json")))
        .ok()
        .and_then(|s| serde_json::from_str::<Value>(&s).ok())
        .map(|v| v.as_array().map(|a| a.len()).unwrap_or(0));
    server.stop().await;
    let _ = blocker;
    let _ = std::fs::remove_dir_all(&root);
    json!({"id": case["id"], "http": http, "task_id": task_id, "ended": ended, "wall_ms": wall_ms, "cancel_http": cancel_http,
           "frames": frames, "status": status, "logs": logs, "pages": pages, "snapshot_frames": snapshot})
}

pub fn engine_tasklife(rt: &tokio::runtime::Runtime, cases: Vec<Value>, out: &mut NdjsonOut) {
    for case in cases {
        let r = rt.block_on(one_task(&case));
        out.write(&r);
    }
}

pub fn engine_shellcap(rt: &tokio::runtime::Runtime, cases: Vec<Value>, out: &mut NdjsonOut) {
    for case in cases {
        let root = util::scratch_root().join(format!("cap-{}", uuid::Uuid::new_v4().simple()));
        std::fs::create_dir_all(&root).unwrap();
        let registry = std::sync::Arc::new(ToolRegistry::default());
        let mut cfg = BuiltinToolConfig { workspace_root: root.clone(), ..BuiltinToolConfig::default() };
        if let Some(a) = get_u64(&case, "artifact_max_bytes") {
            cfg.artifact_max_bytes = a as usize;
        }
        register_builtin_tools(&registry, cfg);
        let runner = ToolRunner::new(registry, 2);
        let mut seq = 0u64;
        let events = rt.block_on(runner.run(
            "verif-session",
            &mut seq,
            ToolInvocation { name: get_str(&case, "tool").unwrap_or("bash").to_string(), args: case["args"].clone(), timeout_ms: None },
        ));
        let frames: Vec<Value> = events.iter().map(|e| serde_json::to_value(e).unwrap_or(Value::Null)).collect();
        let ended = frames.iter().find(|f| f["type"] == "tool_ended").cloned().unwrap_or(Value::Null);
        let mut arts = serde_json::Map::new();
        let mut pages = serde_json::Map::new();
        for stream in ["stdout", "stderr"] {
            let id = ended["artifacts"][stream]["artifact"]["id"].as_str().unwrap_or("").to_string();
            if id.is_empty() {
                continue;
            }
            arts.insert(stream.to_string(), blob_hex(&root, &id));
            let mut per_size = serde_json::Map::new();
            for size in case["page_sizes"].as_array().cloned().unwrap_or_default() {
                let size = size.as_u64().unwrap_or(64);
                let mut off = 0u64;
                let mut got = Vec::new();
                for _ in 0..2000 {
                    let ev = rt.block_on(runner.run(
                        "verif-session",
                        &mut seq,
                        ToolInvocation { name: "artifact_fetch".into(), args: json!({"id": id, "offset_bytes": off, "max_bytes": size}), timeout_ms: None },
                    ));
                    let fr: Vec<Value> = ev.iter().map(|e| serde_json::to_value(e).unwrap_or(Value::Null)).collect();
                    let end = fr.iter().find(|f| f["type"] == "tool_ended").cloned().unwrap_or(Value::Null);
                    let content: String = fr.iter().filter(|f| f["type"] == "tool_stdout").map(|f| f["chunk"].as_str().unwrap_or("").to_string()).collect::<Vec<_>>().join("");
                    let bytes = end["artifacts"]["bytes"].as_u64().unwrap_or(0);
                    got.push(json!({"exit": end["exit_code"], "offset": off, "bytes": bytes, "content": content, "total": end["artifacts"]["total_bytes"]}));
                    if bytes == 0 || end["exit_code"] != json!(0) {
                        break;
                    }
                    off += bytes;
                    if off >= end["artifacts"]["total_bytes"].as_u64().unwrap_or(0) {
                        break;
                    }
                }
                per_size.insert(size.to_string(), json!(got));
            }
            pages.insert(stream.to_string(), Value::Object(per_size));
        }
        let tmp_left = std::fs::read_dir(root.join(".rip/artifacts/tmp")).map(|rd| rd.count()).unwrap_or(0);
        out.write(&json!({"id": case["id"], "frames": frames, "artifacts": arts, "pages": pages, "tmp_left": tmp_left}));
        let _ = std::fs::remove_dir_all(&root);
    }
}
