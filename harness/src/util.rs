//! Small helpers shared by all engines: hashing, directory copies / listings, JSON lines I/O.
use std::collections::BTreeMap;
use std::fs;
use std::io::{BufRead, BufReader, Write};
use std::path::{Path, PathBuf};

use serde_json::Value;
use sha2::{Digest, Sha256};

pub fn sha256_hex(bytes: &[u8]) -> String {
    let mut h = Sha256::new();
    h.update(bytes);
    hex::encode(h.finalize())
}

pub fn copy_dir(src: &Path, dst: &Path) -> std::io::Result<()> {
    if !src.exists() {
        return Ok(());
    }
    fs::create_dir_all(dst)?;
    for entry in fs::read_dir(src)? {
        let entry = entry?;
        let ty = entry.file_type()?;
        let to = dst.join(entry.file_name());
        if ty.is_dir() {
            copy_dir(&entry.path(), &to)?;
        } else if ty.is_file() {
            fs::copy(entry.path(), &to)?;
        } else if ty.is_symlink() {
            if let Ok(target) = fs::read_link(entry.path()) {
                #[cfg(unix)]
                let _ = std::os::unix::fs::symlink(target, &to);
            }
        }
    }
    Ok(())
}

/// Recursive listing: relative path -> "dir" | "file:<sha256>:<len>" | "link:<target>".
pub fn tree(root: &Path) -> BTreeMap<String, String> {
    let mut out = BTreeMap::new();
    fn walk(root: &Path, dir: &Path, out: &mut BTreeMap<String, String>) {
        let Ok(rd) = fs::read_dir(dir) else { return };
        for entry in rd.flatten() {
            let path = entry.path();
            let rel = path.strip_prefix(root).unwrap().to_string_lossy().to_string();
            let Ok(ty) = entry.file_type() else { continue };
            if ty.is_symlink() {
                let target = fs::read_link(&path)
                    .map(|t| t.to_string_lossy().to_string())
                    .unwrap_or_default();
                out.insert(rel, format!("link:{target}"));
            } else if ty.is_dir() {
                out.insert(rel, "dir".to_string());
                walk(root, &path, out);
            } else {
                let bytes = fs::read(&path).unwrap_or_default();
                out.insert(rel, format!("file:{}:{}", sha256_hex(&bytes), bytes.len()));
            }
        }
    }
    walk(root, root, &mut out);
    out
}

/// Recursive listing with contents (lossy text) — small trees only.
pub fn tree_contents(root: &Path) -> BTreeMap<String, Value> {
    let mut out = BTreeMap::new();
    fn walk(root: &Path, dir: &Path, out: &mut BTreeMap<String, Value>) {
        let Ok(rd) = fs::read_dir(dir) else { return };
        for entry in rd.flatten() {
            let path = entry.path();
            let rel = path.strip_prefix(root).unwrap().to_string_lossy().to_string();
            let Ok(ty) = entry.file_type() else { continue };
            if ty.is_dir() {
                out.insert(rel, Value::String("<dir>".into()));
                walk(root, &path, out);
            } else if ty.is_file() {
                let bytes = fs::read(&path).unwrap_or_default();
                out.insert(rel, Value::String(hex::encode(bytes)));
            } else {
                out.insert(rel, Value::String("<other>".into()));
            }
        }
    }
    walk(root, root, &mut out);
    out
}

pub fn read_ndjson(path: &Path) -> Vec<Value> {
    let file = fs::File::open(path).unwrap_or_else(|e| panic!("open {}: {e}", path.display()));
    BufReader::new(file)
        .lines()
        .map_while(Result::ok)
        .filter(|l| !l.trim().is_empty())
        .map(|l| serde_json::from_str(&l).unwrap_or_else(|e| panic!("bad json line {l}: {e}")))
        .collect()
}

pub struct NdjsonOut {
    file: std::io::BufWriter<fs::File>,
}

impl NdjsonOut {
    pub fn create(path: &Path) -> Self {
        if let Some(p) = path.parent() {
            let _ = fs::create_dir_all(p);
        }
        Self {
            file: std::io::BufWriter::new(
                fs::File::create(path).unwrap_or_else(|e| panic!("create {}: {e}", path.display())),
            ),
        }
    }
    pub fn write(&mut self, v: &Value) {
        serde_json::to_writer(&mut self.file, v).expect("write json");
        self.file.write_all(b"\n").expect("nl");
    }
    pub fn flush(&mut self) {
        let _ = self.file.flush();
    }
}

pub fn scratch_root() -> PathBuf {
    let base = std::env::var("RIPVERIF_SCRATCH")
        .map(PathBuf::from)
        .unwrap_or_else(|_| PathBuf::from("/verif/work/scratch"));
    let _ = fs::create_dir_all(&base);
    base
}

pub fn get_u64(v: &Value, key: &str) -> Option<u64> {
    v.get(key).and_then(|x| x.as_u64())
}
pub fn get_str<'a>(v: &'a Value, key: &str) -> Option<&'a str> {
    v.get(key).and_then(|x| x.as_str())
}
pub fn get_bool(v: &Value, key: &str) -> Option<bool> {
    v.get(key).and_then(|x| x.as_bool())
}

/// the last `n` bytes of a file (None when the file is shorter or unreadable)
pub fn file_tail(path: &std::path::Path, n: u64) -> Option<Vec<u8>> {
    use std::io::{Read, Seek, SeekFrom};
    let mut f = std::fs::File::open(path).ok()?;
    let len = f.metadata().ok()?.len();
    if n == 0 || len < n {
        return None;
    }
    f.seek(SeekFrom::Start(len - n)).ok()?;
    let mut buf = vec![0u8; n as usize];
    f.read_exact(&mut buf).ok()?;
    Some(buf)
}
