//! C03 engines.
//!  fidelity : a scenario (scripted provider runs, tool / checkpoint commands, tasks, continuity
//!             operations) through the real router with a live SSE subscriber per stream from its
//!             first frame; afterwards the same streams are read from the log (the code's replay
//!             and the raw lines), the per-continuity sidecar, the snapshots and a late subscriber.
//!  roundtrip: frames (JSON) through rip_kernel::Event and through EventLog append / replay.
use std::collections::BTreeMap;
use std::path::Path;
use std::sync::{Arc, Mutex};
use std::time::Duration;

use futures_util::StreamExt;
use serde_json::{json, Value};

use crate::provider::{Provider, Resp};
use crate::runs::{config_from, frames_of};
use crate::util::{self, get_str, get_u64, NdjsonOut};

type Sink = Arc<Mutex<Vec<Value>>>;

fn subscribe(client: &reqwest::Client, url: String) -> (Sink, tokio::task::JoinHandle<()>) {
    let sink: Sink = Arc::new(Mutex::new(Vec::new()));
    let s2 = sink.clone();
    let client = client.clone();
    let h = tokio::spawn(async move {
        let Ok(resp) = client.get(url).send().await else { return };
        let mut stream = resp.bytes_stream();
        let mut buf: Vec<u8> = Vec::new();
        while let Some(Ok(chunk)) = stream.next().await {
            buf.extend_from_slice(&chunk);
            while let Some(pos) = buf.windows(2).position(|w| w == b"\n\n") {
                let block: Vec<u8> = buf.drain(..pos + 2).collect();
                let text = String::from_utf8_lossy(&block);
                let data: Vec<&str> = text.lines().filter_map(|l| l.strip_prefix("data:")).map(|l| l.strip_prefix(' ').unwrap_or(l)).collect();
                if data.is_empty() {
                    continue;
                }
                if let Ok(v) = serde_json::from_str::<Value>(&data.join("\n")) {
                    s2.lock().unwrap().push(v);
                }
            }
        }
    });
    (sink, h)
}

async fn post(client: &reqwest::Client, url: String, body: Value) -> (u16, Value) {
    match client.post(url).json(&body).send().await {
        Ok(r) => {
            let st = r.status().as_u16();
            (st, r.json::<Value>().await.unwrap_or(Value::Null))
        }
        Err(_) => (0, Value::Null),
    }
}

/// A stream that has been idle for a while: every frame its live subscriber holds must be in the log file by now
/// (polled for up to `patience_ms`, so a slow machine cannot fail it).  Returns (live frames, log frames) at the end of the wait.
async fn quiet_check(data: &Path, id: &str, sink: &Sink, patience_ms: u64) -> (Vec<Value>, Vec<Value>) {
    let deadline = std::time::Instant::now() + Duration::from_millis(patience_ms);
    loop {
        let live: Vec<Value> = sink.lock().unwrap().clone();
        let logf = frames_of(data, id);
        let all_in = live.iter().all(|f| logf.iter().any(|g| g["id"] == f["id"]));
        if (all_in && !live.is_empty()) || std::time::Instant::now() >= deadline {
            return (live, logf);
        }
        tokio::time::sleep(Duration::from_millis(20)).await;
    }
}

async fn wait_for<F: Fn() -> bool>(f: F, ms: u64) -> bool {
    let deadline = std::time::Instant::now() + Duration::from_millis(ms);
    while std::time::Instant::now() < deadline {
        if f() {
            return true;
        }
        tokio::time::sleep(Duration::from_millis(10)).await;
    }
    f()
}

fn read_jsonl(path: &Path) -> Vec<Value> {
    std::fs::read_to_string(path)
        .map(|s| s.lines().filter_map(|l| serde_json::from_str::<Value>(l).ok()).collect())
        .unwrap_or_default()
}

async fn scenario(case: &Value) -> Value {
    let root = util::scratch_root().join(format!("fid-{}", uuid::Uuid::new_v4().simple()));
    let data = root.join("data");
    let ws = root.join("ws");
    std::fs::create_dir_all(&data).unwrap();
    std::fs::create_dir_all(&ws).unwrap();
    let _ = std::fs::write(ws.join("seed.txt"), "seed ünï\n");
    let script: Vec<Resp> = case["script"].as_array().map(|a| a.iter().map(Resp::from_json).collect()).unwrap_or_default();
    let provider = Provider::start(script).await;
    let cfg = config_from(case, &provider.url);
    std::env::set_var("RIP_OPENRESPONSES_DUMP_REQUEST", "1");
    crate::hub::hub().set_ackdisk(Some(data.join("events.jsonl")));
    let server = crate::srv::Server::start(data.clone(), ws.clone(), Some(cfg), false).await;
    let base = server.base.clone();
    let client = reqwest::Client::new();
    let mut subs: BTreeMap<String, (Sink, tokio::task::JoinHandle<()>)> = BTreeMap::new();
    let mut kinds: BTreeMap<String, String> = BTreeMap::new(); // stream -> session|thread|task
    let (_, v) = post(&client, format!("{base}/threads/ensure"), json!({})).await;
    let mut thread = v["thread_id"].as_str().unwrap_or("").to_string();
    subs.insert(thread.clone(), subscribe(&client, format!("{base}/threads/{thread}/events")));
    kinds.insert(thread.clone(), "thread".into());
    let mut notes = Vec::new();
    let mut quiet: BTreeMap<String, (Vec<Value>, Vec<Value>)> = BTreeMap::new();
    let steps = case["steps"].as_array().cloned().unwrap_or_default();
    for st in steps {
        let op = get_str(&st, "do").unwrap_or("");
        match op {
            "message" | "command" => {
                // a prompt (provider run) or a tool / checkpoint command, linked to the thread
                let mut content = if op == "message" { get_str(&st, "content").unwrap_or("hello").to_string() } else { st["input"].to_string() };
                if content.contains("@ckpt") {
                    let all = crate::runs::all_frames(&data);
                    let cid = all.iter().rev().find(|f| f["type"] == "checkpoint_created").and_then(|f| f["checkpoint_id"].as_str().map(str::to_string)).unwrap_or_default();
                    content = content.replace("@ckpt", &cid);
                }
                let (code, v) = post(&client, format!("{base}/threads/{thread}/messages"), json!({"content": content})).await;
                let sid = v["session_id"].as_str().unwrap_or("").to_string();
                if !sid.is_empty() {
                    subs.insert(sid.clone(), subscribe(&client, format!("{base}/sessions/{sid}/events")));
                    kinds.insert(sid.clone(), "session".into());
                    let (d, t, s) = (data.clone(), thread.clone(), sid.clone());
                    wait_for(move || frames_of(&d, &t).iter().any(|f| f["type"] == "continuity_run_ended" && f["run_session_id"] == json!(s)), 30000).await;
                }
                notes.push(json!({"op": op, "http": code}));
            }
            "unlinked" => {
                let (_, v) = post(&client, format!("{base}/sessions"), json!({})).await;
                let sid = v["session_id"].as_str().unwrap_or("").to_string();
                subs.insert(sid.clone(), subscribe(&client, format!("{base}/sessions/{sid}/events")));
                kinds.insert(sid.clone(), "session".into());
                let (code, _) = post(&client, format!("{base}/sessions/{sid}/input"), json!({"input": st["input"].to_string()})).await;
                if let Some(ms) = get_u64(&st, "quiet_after_ms") {
                    tokio::time::sleep(Duration::from_millis(ms)).await;
                    let q = quiet_check(&data, &sid, &subs[&sid].0, get_u64(&st, "patience_ms").unwrap_or(2000)).await;
                    quiet.insert(sid.clone(), q);
                }
                let (d, s) = (data.clone(), sid.clone());
                wait_for(move || frames_of(&d, &s).iter().any(|f| f["type"] == "session_ended"), 30000).await;
                notes.push(json!({"op": op, "http": code}));
            }
            "task" => {
                let (code, v) = post(&client, format!("{base}/tasks"), st["payload"].clone()).await;
                let tid = v["task_id"].as_str().unwrap_or("").to_string();
                if !tid.is_empty() {
                    subs.insert(tid.clone(), subscribe(&client, format!("{base}/tasks/{tid}/events")));
                    kinds.insert(tid.clone(), "task".into());
                    if let Some(ms) = get_u64(&st, "cancel_after_ms") {
                        tokio::time::sleep(Duration::from_millis(ms)).await;
                        if let Some(p) = get_u64(&st, "patience_ms") {
                            let q = quiet_check(&data, &tid, &subs[&tid].0, p).await;
                            quiet.insert(tid.clone(), q);
                        }
                        let _ = post(&client, format!("{base}/tasks/{tid}/cancel"), json!({"reason": "vérif ✓"})).await;
                    }
                    let (d, t) = (data.clone(), tid.clone());
                    wait_for(move || frames_of(&d, &t).iter().any(|f| f["type"] == "tool_task_status" && matches!(f["status"].as_str(), Some("exited") | Some("cancelled") | Some("failed"))), 30000).await;
                }
                notes.push(json!({"op": op, "http": code}));
            }
            "drop_sidecar" => {
                // the per-thread sidecar is lost while the store keeps running (the next append re-creates the file)
                let p = data.join("continuity_streams").join(format!("{thread}.jsonl"));
                let ok = std::fs::remove_file(&p).is_ok();
                notes.push(json!({"op": op, "http": if ok { 200 } else { 404 }}));
            }
            "thread_op" => {
                let path = get_str(&st, "path").unwrap_or("");
                let mut body = st["body"].clone();
                if body.get("to_message_id") == Some(&json!("@last")) || body.get("from_message_id") == Some(&json!("@last")) {
                    let mid = frames_of(&data, &thread).iter().rev().find(|f| f["type"] == "continuity_message_appended").and_then(|f| f["id"].as_str().map(str::to_string)).unwrap_or_default();
                    for k in ["to_message_id", "from_message_id"] {
                        if body.get(k) == Some(&json!("@last")) {
                            body[k] = json!(mid);
                        }
                    }
                }
                let (code, v) = post(&client, format!("{base}/threads/{thread}/{path}"), body).await;
                if let Some(new) = v["thread_id"].as_str() {
                    if new != thread && (path == "branch" || path == "handoff") {
                        subs.insert(new.to_string(), subscribe(&client, format!("{base}/threads/{new}/events")));
                        kinds.insert(new.to_string(), "thread".into());
                        if st["switch"] == json!(true) {
                            thread = new.to_string();
                        }
                    }
                }
                tokio::time::sleep(Duration::from_millis(get_u64(&st, "settle_ms").unwrap_or(40))).await;
                notes.push(json!({"op": path, "http": code}));
            }
            _ => {}
        }
    }
    tokio::time::sleep(Duration::from_millis(250)).await;
    // ---- a late subscriber per stream (replays from disk / memory)
    let mut late: BTreeMap<String, (Sink, tokio::task::JoinHandle<()>)> = BTreeMap::new();
    for (id, k) in &kinds {
        let url = match k.as_str() {
            "thread" => format!("{base}/threads/{id}/events"),
            "task" => format!("{base}/tasks/{id}/events"),
            _ => format!("{base}/sessions/{id}/events"),
        };
        late.insert(id.clone(), subscribe(&client, url));
    }
    // a late subscriber gets the past frames at once; on a busy machine "at once" is given up to 20 s
    let deadline = std::time::Instant::now() + Duration::from_secs(20);
    loop {
        let done = kinds.keys().all(|id| {
            let want = frames_of(&data, id).len();
            let have = late.get(id).map(|(s, _)| s.lock().unwrap().len()).unwrap_or(0);
            let live_have = subs.get(id).map(|(s, _)| s.lock().unwrap().len()).unwrap_or(0);
            have >= want && live_have >= want
        });
        if done || std::time::Instant::now() >= deadline {
            break;
        }
        tokio::time::sleep(Duration::from_millis(25)).await;
    }
    tokio::time::sleep(Duration::from_millis(150)).await;
    server.stop().await;
    let _ = provider.stop();
    // ---- collect the replicas
    let log_raw = read_jsonl(&crate::store::log_path(&data));
    let log_replayed: Vec<Value> = rip_log::EventLog::new(crate::store::log_path(&data))
        .and_then(|l| l.replay())
        .map(|evs| evs.iter().map(|e| serde_json::to_value(e).unwrap_or(Value::Null)).collect())
        .unwrap_or_default();
    let mut streams = serde_json::Map::new();
    for (id, k) in &kinds {
        let live: Vec<Value> = subs.get(id).map(|(s, _)| s.lock().unwrap().clone()).unwrap_or_default();
        let late_v: Vec<Value> = late.get(id).map(|(s, _)| s.lock().unwrap().clone()).unwrap_or_default();
        let of = |all: &Vec<Value>| -> Vec<Value> { all.iter().filter(|f| f["stream_id"] == json!(id) || (f.get("stream_id").is_none() && f["session_id"] == json!(id))).cloned().collect() };
        let sidecar = if k == "thread" { Some(read_jsonl(&data.join("continuity_streams").join(format!("{id}.jsonl")))) } else { None };
        let snap_path = match k.as_str() {
            "session" => Some(data.join("snapshots").join(format!("{id}.json"))),
            "task" => Some(data.join("task_snapshots").join(format!("{id}.json"))),
            _ => None,
        };
        let snapshot = snap_path.and_then(|p| std::fs::read_to_string(p).ok()).and_then(|s| serde_json::from_str::<Value>(&s).ok()).and_then(|v| v.as_array().cloned());
        streams.insert(id.clone(), json!({"kind": k, "live": live, "late": late_v, "log_raw": of(&log_raw), "log_replayed": of(&log_replayed), "sidecar": sidecar, "snapshot": snapshot,
                                        "quiet_live": quiet.get(id).map(|q| q.0.clone()), "quiet_log": quiet.get(id).map(|q| q.1.clone())}));
    }
    // ---- fault: the last sidecar line of every thread is cut short (a crash after the log flush), then a new
    //      authority is started on the same store and a subscriber reads each thread again
    let mut after_fault = serde_json::Map::new();
    let fault_kind = get_str(case, "sidecar_fault").map(str::to_string).or_else(|| if case["torn_sidecar"] == json!(true) { Some("tear_tail".to_string()) } else { None });
    if let Some(fk) = fault_kind {
        for (id, k) in &kinds {
            if k == "thread" {
                let p = data.join("continuity_streams").join(format!("{id}.jsonl"));
                let Ok(bytes) = std::fs::read(&p) else { continue };
                if bytes.len() <= 40 {
                    continue;
                }
                let lines: Vec<&[u8]> = bytes.split_inclusive(|b| *b == b'\n').collect();
                let new: Vec<u8> = match fk.as_str() {
                    // a crash after the log flush: the last line is cut short
                    "tear_tail" => bytes[..bytes.len() - 25].to_vec(),
                    // the file lost its first line / a middle line (a damaged or half-rebuilt file)
                    "drop_head" => lines.iter().skip(1).flat_map(|l| l.to_vec()).collect(),
                    "drop_middle" if lines.len() >= 3 => lines.iter().enumerate().filter(|(i, _)| *i != lines.len() / 2).flat_map(|(_, l)| l.to_vec()).collect(),
                    // the last line was written twice (an append retried after a lost acknowledgement)
                    "dup_tail" => { let mut v = bytes.clone(); v.extend_from_slice(lines[lines.len() - 1]); v }
                    // only the newest lines are left
                    "keep_tail" if lines.len() >= 2 => lines[lines.len() - 2..].iter().flat_map(|l| l.to_vec()).collect(),
                    _ => bytes.clone(),
                };
                let _ = std::fs::write(&p, new);
            }
        }
        let server2 = crate::srv::Server::start(data.clone(), ws.clone(), None, false).await;
        let base2 = server2.base.clone();
        let mut subs2: BTreeMap<String, (Sink, tokio::task::JoinHandle<()>)> = BTreeMap::new();
        for (id, k) in &kinds {
            if k == "thread" {
                subs2.insert(id.clone(), subscribe(&client, format!("{base2}/threads/{id}/events")));
            }
        }
        let deadline2 = std::time::Instant::now() + Duration::from_secs(20);
        loop {
            let done = subs2.iter().all(|(id, (s, _))| s.lock().unwrap().len() >= frames_of(&data, id).len());
            if done || std::time::Instant::now() >= deadline2 {
                break;
            }
            tokio::time::sleep(Duration::from_millis(25)).await;
        }
        tokio::time::sleep(Duration::from_millis(150)).await;
        server2.stop().await;
        for (id, (sink, h)) in subs2 {
            after_fault.insert(id, json!(sink.lock().unwrap().clone()));
            h.abort();
        }
        for (id, v) in &after_fault {
            if let Some(st) = streams.get_mut(id) {
                st["late_after_fault"] = v.clone();
            }
        }
    }
    for (_, (_, h)) in subs {
        h.abort();
    }
    for (_, (_, h)) in late {
        h.abort();
    }
    // the whole log in file order, reduced to what the life-cycle state machines need (C07 on arbitrary histories)
    let order: Vec<Value> = log_raw
        .iter()
        .map(|f| {
            let sid = f.get("stream_id").and_then(|x| x.as_str()).or_else(|| f["session_id"].as_str()).unwrap_or("");
            json!({"sid": sid, "kind": f.get("stream_kind").cloned().unwrap_or(Value::Null), "type": f["type"], "seq": f["seq"],
                   "r": f.get("run_session_id").cloned().unwrap_or(Value::Null),
                   "m": if f["type"] == "continuity_message_appended" { f["id"].clone() } else { f.get("message_id").cloned().unwrap_or(Value::Null) },
                   "j": f.get("job_id").cloned().unwrap_or(Value::Null),
                   "st": if f["type"] == "tool_task_status" { f.get("status").cloned().unwrap_or(Value::Null) } else { Value::Null },
                   "to_seq": f.get("to_seq").cloned().unwrap_or(Value::Null), "to_message_id": f.get("to_message_id").cloned().unwrap_or(Value::Null),
                   "parent_thread_id": f.get("parent_thread_id").or_else(|| f.get("from_thread_id")).cloned().unwrap_or(Value::Null),
                   "parent_seq": f.get("parent_seq").or_else(|| if f["type"] == "continuity_handoff_created" { f.get("from_seq") } else { None }).cloned().unwrap_or(Value::Null),
                   "parent_message_id": f.get("parent_message_id").or_else(|| if f["type"] == "continuity_handoff_created" { f.get("from_message_id") } else { None }).cloned().unwrap_or(Value::Null),
                   "tool_id": if f["type"] == "continuity_tool_side_effects" { f.get("tool_id").cloned().unwrap_or(Value::Null) } else { Value::Null }})
        })
        .collect();
    let (ack_checked, ack_missing) = crate::hub::hub().take_ackdisk();
    let foreign = log_raw.iter().filter(|f| !kinds.contains_key(f["stream_id"].as_str().unwrap_or(""))).count();
    let _ = std::fs::remove_dir_all(&root);
    json!({"id": case["id"], "streams": streams, "notes": notes, "log_frames": log_raw.len(), "frames_of_other_streams": foreign, "order": order,
           "ack_checked": ack_checked, "ack_not_on_disk": ack_missing})
}

pub fn engine_fidelity(rt: &tokio::runtime::Runtime, cases: Vec<Value>, out: &mut NdjsonOut) {
    for case in cases {
        let r = rt.block_on(scenario(&case));
        out.write(&r);
    }
}

/// frames (JSON) -> parse as Event -> serialize; and -> EventLog append -> replay -> serialize
pub fn engine_roundtrip(cases: Vec<Value>, out: &mut NdjsonOut) {
    let root = util::scratch_root().join(format!("rt-{}", uuid::Uuid::new_v4().simple()));
    std::fs::create_dir_all(&root).unwrap();
    for case in cases {
        let frames = case["frames"].as_array().cloned().unwrap_or_default();
        let path = root.join(format!("{}.jsonl", uuid::Uuid::new_v4().simple()));
        let log = rip_log::EventLog::new(&path).expect("log");
        let mut res = Vec::new();
        let mut appended = Vec::new();
        for (i, f) in frames.iter().enumerate() {
            match serde_json::from_value::<rip_kernel::Event>(f.clone()) {
                Ok(ev) => {
                    let again = serde_json::to_value(&ev).unwrap_or(Value::Null);
                    let line = serde_json::to_string(&ev).unwrap_or_default();
                    let ok = log.append(&ev).is_ok();
                    appended.push(i);
                    res.push(json!({"i": i, "parsed": true, "again": again, "stream_kind": serde_json::to_value(ev.stream_kind()).unwrap_or(Value::Null),
                                    "stream_id": ev.stream_id(), "appended": ok, "line_has_newline": line.contains('\n')}));
                }
                Err(err) => res.push(json!({"i": i, "parsed": false, "error": err.to_string()})),
            }
        }
        let (replayed, replay_error): (Vec<Value>, Value) = match log.replay() {
            Ok(evs) => (evs.iter().map(|e| serde_json::to_value(e).unwrap_or(Value::Null)).collect(), Value::Null),
            Err(err) => (Vec::new(), json!(err.to_string())),
        };
        let raw_lines = std::fs::read_to_string(&path).map(|s| s.lines().count()).unwrap_or(0);
        out.write(&json!({"id": case["id"], "results": res, "appended": appended, "replayed": replayed, "replay_error": replay_error, "raw_lines": raw_lines}));
        let _ = std::fs::remove_file(&path);
    }
    let _ = std::fs::remove_dir_all(&root);
}


// join_hold: the producer of one frame of a thread / task stream is parked at a hook point inside its append (the
// frame is numbered, and - depending on the point - on disk, but the append has not finished); a subscriber joins
// the stream meanwhile (subscribe + history); the producer goes on.  The subscriber must receive every frame of the
// stream exactly once, in order (Subscribe.tla: Join at any moment of Record / Publish).
pub fn engine_join_hold(rt: &tokio::runtime::Runtime, cases: Vec<Value>, out: &mut NdjsonOut) {
    let hub = crate::hub::hub();
    for case in cases {
        hub.reset();
        let r = rt.block_on(async {
            let root = util::scratch_root().join(format!("jh-{}", uuid::Uuid::new_v4().simple()));
            let data = root.join("data");
            let ws = root.join("ws");
            std::fs::create_dir_all(&data).unwrap();
            std::fs::create_dir_all(&ws).unwrap();
            let server = crate::srv::Server::start(data.clone(), ws.clone(), None, false).await;
            let base = server.base.clone();
            let client = reqwest::Client::new();
            let kind = get_str(&case, "kind").unwrap_or("thread").to_string();
            let point = get_str(&case, "point").unwrap_or("cache.enter").to_string();
            let k = case["seq"].as_u64().unwrap_or(1);
            let (stream, url);
            if kind == "thread" {
                let (_, v) = post(&client, format!("{base}/threads/ensure"), json!({})).await;
                let tid = v["thread_id"].as_str().unwrap_or("").to_string();
                hub.arm_hold(&point, json!({"stream": tid, "seq": k}), 1);
                let c2 = client.clone();
                let u = format!("{base}/threads/{tid}/messages");
                let content = get_str(&case, "content").map(str::to_string).unwrap_or_else(|| json!({"tool": "write", "args": {"path": "j.txt", "content": "x"}}).to_string());
                tokio::spawn(async move {
                    let _ = post(&c2, u, json!({"content": content})).await;
                });
                url = format!("{base}/threads/{tid}/events");
                stream = tid;
            } else {
                hub.arm_hold(&point, json!({"sk": "task", "seq": k}), 1);
                let cmd = get_str(&case, "command").unwrap_or("true").to_string();
                let (_, v) = post(&client, format!("{base}/tasks"), json!({"tool": "bash", "args": {"command": cmd}})).await;
                let id = v["task_id"].as_str().unwrap_or("").to_string();
                url = format!("{base}/tasks/{id}/events");
                stream = id;
            }
            let hub2 = hub.clone();
            let held = tokio::task::spawn_blocking(move || hub2.wait_held(Duration::from_secs(3)).is_some()).await.unwrap_or(false);
            let (sink, h) = subscribe(&client, url);
            tokio::time::sleep(Duration::from_millis(get_u64(&case, "join_ms").unwrap_or(250))).await;
            hub.release_hold();
            // the stream's life goes on to its end
            let done_kind = if kind == "thread" { "continuity_run_ended" } else { "tool_task_status" };
            let mut log_seqs: Vec<u64> = Vec::new();
            for _ in 0..300 {
                let all = crate::runs::all_frames(&data);
                let mine: Vec<&Value> = all.iter().filter(|f| f["stream_id"].as_str() == Some(stream.as_str())).collect();
                log_seqs = mine.iter().filter_map(|f| f["seq"].as_u64()).collect();
                let n_done = mine.iter().filter(|f| f["type"] == done_kind && (kind == "thread" || f["status"] != "running" && f["status"] != "queued")).count();
                if n_done >= 1 {
                    break;
                }
                tokio::time::sleep(Duration::from_millis(20)).await;
            }
            tokio::time::sleep(Duration::from_millis(150)).await;
            let all = crate::runs::all_frames(&data);
            log_seqs = all.iter().filter(|f| f["stream_id"].as_str() == Some(stream.as_str())).filter_map(|f| f["seq"].as_u64()).collect();
            let want_last = log_seqs.last().copied();
            // patience, not a deadline that a busy machine could miss: the verdict only needs the subscriber to have caught up
            for _ in 0..500 {
                let got_last = sink.lock().unwrap().iter().filter_map(|f| f["seq"].as_u64()).max();
                if got_last == want_last {
                    break;
                }
                tokio::time::sleep(Duration::from_millis(20)).await;
            }
            let delivered: Vec<u64> = sink.lock().unwrap().iter().filter_map(|f| f["seq"].as_u64()).collect();
            let closed = h.is_finished();
            h.abort();
            server.stop().await;
            let _ = std::fs::remove_dir_all(&root);
            json!({"id": case["id"], "held": held, "log_seqs": log_seqs, "delivered": delivered, "stream_closed_by_server": closed})
        });
        out.write(&r);
    }
}
