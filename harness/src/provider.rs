//! Scripted provider: a raw TCP HTTP/1.1 server that plays one scripted response per request
//! (status, headers, exact chunking of the body, abrupt close) and records every request.
use std::sync::{Arc, Mutex};
use std::time::Duration;

use serde_json::{json, Value};
use tokio::io::{AsyncReadExt, AsyncWriteExt};
use tokio::net::TcpListener;

#[derive(Clone, Debug)]
pub struct Resp {
    pub status: u16,
    pub content_type: String,
    pub chunks: Vec<Vec<u8>>,
    pub delay_ms: u64,
    pub drop_after: Option<usize>, // close the socket after this many chunks (no clean end)
    pub echo_request: bool,        // body = the request body (providers echo requests in errors)
    pub extra_headers: Vec<(String, String)>,
}

impl Resp {
    pub fn from_json(v: &Value) -> Self {
        let chunks = v
            .get("chunks")
            .and_then(|c| c.as_array())
            .map(|a| {
                a.iter()
                    .map(|c| match c {
                        Value::String(s) => s.as_bytes().to_vec(),
                        Value::Object(o) => o
                            .get("hex")
                            .and_then(|h| h.as_str())
                            .and_then(|h| hex::decode(h).ok())
                            .unwrap_or_default(),
                        _ => Vec::new(),
                    })
                    .collect()
            })
            .unwrap_or_default();
        Resp {
            status: v.get("status").and_then(|s| s.as_u64()).unwrap_or(200) as u16,
            content_type: v
                .get("content_type")
                .and_then(|s| s.as_str())
                .unwrap_or("text/event-stream")
                .to_string(),
            chunks,
            delay_ms: v.get("delay_ms").and_then(|s| s.as_u64()).unwrap_or(0),
            drop_after: v.get("drop_after").and_then(|s| s.as_u64()).map(|x| x as usize),
            echo_request: v.get("echo_request").and_then(|s| s.as_bool()).unwrap_or(false),
            extra_headers: Vec::new(),
        }
    }
}

fn sse_line(v: Value) -> String {
    format!("data: {}\n\n", v)
}

fn dynamic_resp(idx: usize, body: &[u8]) -> Resp {
    let raw = String::from_utf8_lossy(body).to_string();
    let followup = raw.contains("function_call_output");
    let mut out = sse_line(json!({"type": "response.created", "response": {"id": format!("resp_{idx}")}}));
    out.push_str(&sse_line(json!({"type": "response.output_text.delta", "delta": format!("t{idx}")})));
    if !followup {
        if let Some(start) = raw.rfind("@@CALLS ") {
            let rest = &raw[start + 8..];
            if let Some(end) = rest.find("@@END") {
                for (k, spec) in rest[..end].split(',').enumerate() {
                    let (tool, arg) = spec.trim().split_once(':').unwrap_or((spec.trim(), ""));
                    let args = match tool {
                        "write" => json!({"path": arg, "content": format!("w{idx}.{k};"), "append": true}),
                        "bash" => json!({"command": format!("echo b{idx}.{k} >> {arg}")}),
                        "ls" | "read" => json!({"path": arg}),
                        "grep" => json!({"pattern": arg, "path": "."}),
                        _ => json!({}),
                    };
                    let item = json!({"type": "function_call", "id": format!("item_{idx}_{k}"), "call_id": format!("call_{idx}_{k}"),
                                      "name": tool, "arguments": args.to_string(), "status": "completed"});
                    out.push_str(&sse_line(json!({"type": "response.output_item.done", "output_index": k, "item": item})));
                }
            }
        }
    }
    out.push_str("data: [DONE]\n\n");
    Resp {
        status: 200,
        content_type: "text/event-stream".into(),
        chunks: vec![out.into_bytes()],
        delay_ms: 0,
        drop_after: None,
        echo_request: false,
        extra_headers: Vec::new(),
    }
}

pub struct Provider {
    pub url: String,
    pub requests: Arc<Mutex<Vec<Value>>>,
    handle: tokio::task::JoinHandle<()>,
}

/// when set, a scripted provider whose script is used up goes on answering with its last entry (a provider that never stops)
pub static REPEAT_LAST: std::sync::atomic::AtomicBool = std::sync::atomic::AtomicBool::new(false);
pub static ABORTED: std::sync::atomic::AtomicU64 = std::sync::atomic::AtomicU64::new(0);

impl Provider {
    pub async fn start(script: Vec<Resp>) -> Self {
        Self::start_mode(script, false).await
    }

    /// Dynamic mode: the response is computed from the request. A request that carries
    /// function_call_output items gets a final text; otherwise the last `@@CALLS a:b,c:d@@END`
    /// directive in the request body names the function calls to return (tool:argument).
    pub async fn start_dynamic() -> Self {
        Self::start_mode(Vec::new(), true).await
    }

    async fn start_mode(script: Vec<Resp>, dynamic: bool) -> Self {
        let listener = TcpListener::bind("127.0.0.1:0").await.expect("bind provider");
        let addr = listener.local_addr().expect("addr");
        let requests: Arc<Mutex<Vec<Value>>> = Arc::new(Mutex::new(Vec::new()));
        let reqs = requests.clone();
        let script = Arc::new(script);
        let handle = tokio::spawn(async move {
            loop {
                let Ok((mut sock, _)) = listener.accept().await else { break };
                let _ = sock.set_nodelay(true);
                let reqs = reqs.clone();
                let script = script.clone();
                tokio::spawn(async move {
                    // ---- read one request
                    let mut buf = Vec::new();
                    let mut tmp = [0u8; 8192];
                    let mut head_end = None;
                    while head_end.is_none() {
                        let Ok(n) = sock.read(&mut tmp).await else { return };
                        if n == 0 {
                            return;
                        }
                        buf.extend_from_slice(&tmp[..n]);
                        head_end = buf.windows(4).position(|w| w == b"\r\n\r\n");
                    }
                    let he = head_end.unwrap() + 4;
                    let head = String::from_utf8_lossy(&buf[..he]).to_string();
                    let mut content_length = 0usize;
                    let mut headers = serde_json::Map::new();
                    for line in head.lines().skip(1) {
                        if let Some((k, v)) = line.split_once(':') {
                            let k = k.trim().to_ascii_lowercase();
                            let v = v.trim().to_string();
                            if k == "content-length" {
                                content_length = v.parse().unwrap_or(0);
                            }
                            headers.insert(k, Value::String(v));
                        }
                    }
                    while buf.len() < he + content_length {
                        let Ok(n) = sock.read(&mut tmp).await else { return };
                        if n == 0 {
                            break;
                        }
                        buf.extend_from_slice(&tmp[..n]);
                    }
                    let body = buf[he..].to_vec();
                    if body.len() < content_length {
                        // the client went away before it had sent the body it announced: not a request that was sent.
                        // Counted, never answered, and it does not consume an entry of the script.
                        crate::provider::ABORTED.fetch_add(1, std::sync::atomic::Ordering::SeqCst);
                        eprintln!("[provider] connection closed after {} of {} body bytes; ignored", body.len(), content_length);
                        return;
                    }
                    let body_json: Value = serde_json::from_slice(&body).unwrap_or(Value::Null);
                    let first = head.lines().next().unwrap_or("").to_string();
                    let idx = {
                        let mut r = reqs.lock().unwrap();
                        r.push(json!({"line": first, "headers": headers, "body": body_json,
                                      "body_raw": String::from_utf8_lossy(&body)}));
                        r.len() - 1
                    };
                    // ---- scripted response
                    let resp = if dynamic {
                        Some(dynamic_resp(idx, &body))
                    } else if REPEAT_LAST.load(std::sync::atomic::Ordering::SeqCst) && idx >= script.len() {
                        script.last().cloned()
                    } else {
                        script.get(idx).cloned()
                    };
                    let resp = resp.unwrap_or_else(|| Resp {
                        status: 200,
                        content_type: "text/event-stream".into(),
                        chunks: vec![b"data: [DONE]\n\n".to_vec()],
                        delay_ms: 0,
                        drop_after: None,
                        echo_request: false,
                        extra_headers: Vec::new(),
                    });
                    let reason = match resp.status {
                        200 => "OK",
                        400 => "Bad Request",
                        401 => "Unauthorized",
                        429 => "Too Many Requests",
                        500 => "Internal Server Error",
                        _ => "Status",
                    };
                    let mut headtxt = format!(
                        "HTTP/1.1 {} {}\r\ncontent-type: {}\r\nconnection: close\r\nx-request-id: req_{}\r\n",
                        resp.status, reason, resp.content_type, idx
                    );
                    for (k, v) in &resp.extra_headers {
                        headtxt.push_str(&format!("{k}: {v}\r\n"));
                    }
                    headtxt.push_str("\r\n");
                    if sock.write_all(headtxt.as_bytes()).await.is_err() {
                        return;
                    }
                    let _ = sock.flush().await;
                    let mut chunks = resp.chunks.clone();
                    if resp.echo_request {
                        chunks = vec![body.clone()];
                    }
                    for (i, c) in chunks.iter().enumerate() {
                        if let Some(d) = resp.drop_after {
                            if i >= d {
                                // abrupt close: RST instead of FIN
                                let _ = sock.set_linger(Some(Duration::from_secs(0)));
                                drop(sock);
                                return;
                            }
                        }
                        if i > 0 && resp.delay_ms > 0 {
                            tokio::time::sleep(Duration::from_millis(resp.delay_ms)).await;
                        }
                        if !c.is_empty() {
                            if sock.write_all(c).await.is_err() {
                                return;
                            }
                            let _ = sock.flush().await;
                        }
                    }
                    if let Some(d) = resp.drop_after {
                        if d >= chunks.len() {
                            let _ = sock.set_linger(Some(Duration::from_secs(0)));
                            drop(sock);
                            return;
                        }
                    }
                    let _ = sock.shutdown().await;
                });
            }
        });
        Provider {
            url: format!("http://{addr}/v1/responses"),
            requests,
            handle,
        }
    }

    pub fn stop(self) -> Vec<Value> {
        self.handle.abort();
        let r = self.requests.lock().unwrap().clone();
        r
    }
}
