//! History executor over the real `SessionEngine` / `ContinuityStore` / `EventLog`.
//!
//! An abstract operation (JSON) is executed against the real store; abstract ids (thread index,
//! message ordinal, session index) are mapped to the UUIDs the code generated.  After every
//! operation the truth log is observed (byte prefix, whole-line, per-stream seq lists).
use std::collections::HashMap;
use std::fs;
use std::path::{Path, PathBuf};
use std::sync::{Arc, Mutex};

use rip_kernel::{Event, StreamKind};
use rip_log::EventLog;
use ripd::{
    CompactionAutoScheduleV1Request, CompactionAutoV1Request,
    CompactionCheckpointCumulativeV1Request, CompactionCutPointsV1Request,
    CompactionStatusV1Request, ContextSelectionStatusV1Request, ContinuityRunLink,
    ContinuityStore, ProviderCursorRotateV1Request, ProviderCursorStatusV1Request, SessionEngine,
    ToolSideEffects,
};
use serde_json::{json, Map, Value};

use crate::util::{self, get_bool, get_str, get_u64};

pub const CACHE_FILES: &[(&str, &str)] = &[
    ("full", ".jsonl"),
    ("seek", ".seek.v1.jsonl"),
    ("msgidx", ".messages.v1.bin"),
    ("mr", ".mr.v1.jsonl"),
    ("mrseek", ".mr.seek.v1.jsonl"),
    ("mrmsg", ".mr.messages.v1.bin"),
    ("mrord", ".mr.msgord.v1.bin"),
    ("comp", ".comp.v1.jsonl"),
    ("compidx", ".comp.idx.v1.jsonl"),
];

#[derive(Default, Clone)]
pub struct Ids {
    pub threads: Vec<String>,
    pub msgs: HashMap<usize, Vec<String>>,
    pub sessions: Vec<String>,
    pub saved: HashMap<String, PathBuf>,
}

pub struct StoreEnv {
    pub root: PathBuf,
    pub data: PathBuf,
    pub ws: PathBuf,
    pub engine: Option<Arc<SessionEngine>>,
    pub store: Option<Arc<ContinuityStore>>,
    pub reader: Option<Arc<EventLog>>,
    pub ids: Arc<Mutex<Ids>>,
}

pub fn log_path(data: &Path) -> PathBuf {
    data.join("events.jsonl")
}

impl StoreEnv {
    pub fn fresh(name: &str) -> Self {
        let root = util::scratch_root().join(format!("{}-{}", name, uuid::Uuid::new_v4().simple()));
        let _ = fs::remove_dir_all(&root);
        let data = root.join("data");
        let ws = root.join("ws");
        fs::create_dir_all(&data).unwrap();
        fs::create_dir_all(&ws).unwrap();
        let mut env = Self {
            root,
            data,
            ws,
            engine: None,
            store: None,
            reader: None,
            ids: Arc::new(Mutex::new(Ids::default())),
        };
        env.open();
        env
    }

    /// Open an existing directory pair (a crash snapshot) with fresh in-memory state.
    pub fn reopen_at(root: PathBuf, ids: Ids) -> Self {
        let data = root.join("data");
        let ws = root.join("ws");
        fs::create_dir_all(&data).unwrap();
        fs::create_dir_all(&ws).unwrap();
        let mut env = Self {
            root,
            data,
            ws,
            engine: None,
            store: None,
            reader: None,
            ids: Arc::new(Mutex::new(ids)),
        };
        env.open();
        env
    }

    pub fn open(&mut self) {
        let engine = Arc::new(
            SessionEngine::new(self.data.clone(), self.ws.clone(), None).expect("engine"),
        );
        self.store = Some(engine.continuities());
        self.engine = Some(engine);
        self.reader = Some(Arc::new(EventLog::new(log_path(&self.data)).expect("reader log")));
    }

    /// "Authority restart": drop every in-memory structure, reopen from disk.
    pub fn restart(&mut self) {
        self.engine = None;
        self.store = None;
        self.reader = None;
        self.open();
    }

    pub fn store(&self) -> Arc<ContinuityStore> {
        self.store.clone().expect("store open")
    }

    pub fn cleanup(self) {
        let root = self.root.clone();
        drop(self);
        let _ = fs::remove_dir_all(root);
    }

    pub fn streams_dir(&self) -> PathBuf {
        self.data.join("continuity_streams")
    }

    pub fn cache_path(&self, thread: &str, file: &str) -> Option<PathBuf> {
        // the thread index (rebuildable) and the truth log itself (only as the leftover of a crash / an earlier failed append)
        if file == "index" {
            return Some(self.data.join("continuities").join("index.json"));
        }
        if file == "log" {
            return Some(log_path(&self.data));
        }
        CACHE_FILES
            .iter()
            .find(|(n, _)| *n == file)
            .map(|(_, suffix)| self.streams_dir().join(format!("{thread}{suffix}")))
    }

    pub fn thread_id(&self, t: usize) -> String {
        // unusual / unknown thread ids (no such thread exists)
        match t {
            98 => return "../events".to_string(),
            97 => return String::new(),
            96 => return "a/b".to_string(),
            95 => return "..".to_string(),
            _ => {}
        }
        let ids = self.ids.lock().unwrap();
        ids.threads
            .get(t)
            .cloned()
            .unwrap_or_else(|| format!("00000000-0000-4000-8000-{:012}", t))
    }

    pub fn msg_id(&self, t: usize, m: usize) -> String {
        let ids = self.ids.lock().unwrap();
        ids.msgs
            .get(&t)
            .and_then(|v| v.get(m))
            .cloned()
            .unwrap_or_else(|| format!("ffffffff-0000-4000-8000-{:012}", m))
    }

    /// message id named by an op: `m` = ordinal among the messages this executor appended, or
    /// `m_seq` = seq of the message frame in the thread (looked up in the truth log)
    pub fn msg_ref(&self, t: usize, op: &Value) -> String {
        if let Some(q) = get_u64(op, "m_seq") {
            return self
                .truth_frames(t)
                .iter()
                .find(|e| e.seq == q)
                .map(|e| e.id.clone())
                .unwrap_or_else(|| format!("ffffffff-0000-4000-8000-{:012}", q));
        }
        self.msg_id(t, get_u64(op, "m").unwrap_or(0) as usize)
    }

    pub fn session_id(&self, s: usize) -> String {
        let mut ids = self.ids.lock().unwrap();
        while ids.sessions.len() <= s {
            // deterministic: two stores built from the same history name their sessions alike
            let n = ids.sessions.len();
            ids.sessions.push(format!("5e550000-0000-4000-8000-{:012}", n));
        }
        ids.sessions[s].clone()
    }
}

// ---------------------------------------------------------------------------------------------
// Log observation (C02 projection)

#[derive(Clone, Debug)]
pub struct LogObs {
    pub len: u64,
    pub sha: String,
    pub bytes: Vec<u8>,
}

pub fn observe_log(data: &Path) -> LogObs {
    let bytes = fs::read(log_path(data)).unwrap_or_default();
    LogObs {
        len: bytes.len() as u64,
        sha: util::sha256_hex(&bytes),
        bytes,
    }
}

/// Compare two successive observations of the truth log.
pub fn log_delta(before: &LogObs, after: &LogObs) -> Value {
    let prefix_ok = after.bytes.len() >= before.bytes.len()
        && after.bytes[..before.bytes.len()] == before.bytes[..];
    let added: &[u8] = if prefix_ok {
        &after.bytes[before.bytes.len()..]
    } else {
        &[]
    };
    let nl = after.bytes.is_empty() || after.bytes.last() == Some(&b'\n');
    let mut new_frames = Vec::new();
    let mut lines_ok = true;
    if prefix_ok && !added.is_empty() {
        let text = String::from_utf8_lossy(added);
        let body = text.strip_suffix('\n').unwrap_or(&text);
        for line in body.split('\n') {
            match serde_json::from_str::<Value>(line) {
                Ok(v) if serde_json::from_value::<Event>(v.clone()).is_ok() => {
                    let mut f = v.clone();
                    if let Some(o) = f.as_object_mut() {
                        o.insert("stream".into(), v.get("stream_id").cloned().unwrap_or(Value::Null));
                        o.insert("sk".into(), v.get("stream_kind").cloned().unwrap_or(Value::Null));
                        o.insert("kind".into(), v.get("type").cloned().unwrap_or(Value::Null));
                        for k in ["content", "details", "result", "limits"] {
                            o.remove(k);
                        }
                    }
                    new_frames.push(f);
                }
                _ => lines_ok = false,
            }
        }
    }
    json!({
        "len_before": before.len,
        "len_after": after.len,
        "prefix_ok": prefix_ok,
        "nl": nl,
        "lines_ok": lines_ok,
        "added": new_frames.len(),
        "new_frames": new_frames,
    })
}

/// Per-stream seq lists in file order, tolerant of unparsable lines (reported separately).
pub fn stream_seqs(data: &Path) -> (Vec<(String, String, u64, String)>, usize) {
    let bytes = fs::read(log_path(data)).unwrap_or_default();
    let text = String::from_utf8_lossy(&bytes);
    let mut out = Vec::new();
    let mut bad = 0usize;
    for line in text.split('\n') {
        if line.is_empty() {
            continue;
        }
        match serde_json::from_str::<Value>(line) {
            Ok(v) => {
                let sk = v
                    .get("stream_kind")
                    .and_then(|x| x.as_str())
                    .unwrap_or("")
                    .to_string();
                let sid = v
                    .get("stream_id")
                    .and_then(|x| x.as_str())
                    .unwrap_or("")
                    .to_string();
                let seq = v.get("seq").and_then(|x| x.as_u64()).unwrap_or(u64::MAX);
                let kind = v.get("type").and_then(|x| x.as_str()).unwrap_or("").to_string();
                out.push((sk, sid, seq, kind));
            }
            Err(_) => bad += 1,
        }
    }
    (out, bad)
}

/// Summary used by C01/C05 oracles: the whole log as a list of (abstract stream, seq, kind) with
/// streams numbered by first appearance, whether `replay_validated` succeeds, unparsable lines.
pub fn log_summary(data: &Path) -> Value {
    let (frames, bad) = stream_seqs(data);
    let mut names: HashMap<(String, String), usize> = HashMap::new();
    let mut list = Vec::new();
    for (sk, sid, seq, kind) in &frames {
        let n = names.len();
        let idx = *names.entry((sk.clone(), sid.clone())).or_insert(n);
        list.push(json!([idx, seq, kind, sk]));
    }
    let replay_ok = EventLog::new(log_path(data))
        .and_then(|l| l.replay_validated())
        .map(|_| true)
        .unwrap_or(false);
    let bytes = fs::read(log_path(data)).unwrap_or_default();
    json!({
        "frames": list,
        "bad_lines": bad,
        "replay_validated": replay_ok,
        "nl": bytes.is_empty() || bytes.last() == Some(&b'\n'),
    })
}

// ---------------------------------------------------------------------------------------------
// Normalisation of answers into the abstract vocabulary

pub struct Normalizer {
    map: HashMap<String, String>,
    art_n: usize,
}

impl Normalizer {
    /// Build the id map from the truth log: stream ids, frame ids, checkpoint / job / decision
    /// ids and artifact ids are named after the position of the frame that introduced them.
    pub fn from_log(data: &Path, ids: &Ids) -> Self {
        let mut me = Self {
            map: HashMap::new(),
            art_n: 0,
        };
        for (i, t) in ids.threads.iter().enumerate() {
            me.map.insert(t.clone(), format!("T{i}"));
        }
        for (i, s) in ids.sessions.iter().enumerate() {
            me.map.insert(s.clone(), format!("S{i}"));
        }
        let bytes = fs::read(log_path(data)).unwrap_or_default();
        let text = String::from_utf8_lossy(&bytes);
        let mut other_streams = 0usize;
        for line in text.split('\n') {
            let Ok(v) = serde_json::from_str::<Value>(line) else {
                continue;
            };
            let sid = v.get("stream_id").and_then(|x| x.as_str()).unwrap_or("");
            if !me.map.contains_key(sid) && !sid.is_empty() {
                me.map.insert(sid.to_string(), format!("X{other_streams}"));
                other_streams += 1;
            }
            let sname = me.map.get(sid).cloned().unwrap_or_default();
            let seq = v.get("seq").and_then(|x| x.as_u64()).unwrap_or(0);
            if let Some(id) = v.get("id").and_then(|x| x.as_str()) {
                me.map
                    .entry(id.to_string())
                    .or_insert_with(|| format!("f:{sname}@{seq}"));
            }
            for (key, prefix) in [
                ("checkpoint_id", "ck"),
                ("decision_id", "dec"),
            ] {
                if let Some(id) = v.get(key).and_then(|x| x.as_str()) {
                    me.map
                        .entry(id.to_string())
                        .or_insert_with(|| format!("{prefix}:{sname}@{seq}"));
                }
            }
            if v.get("type").and_then(|x| x.as_str()) == Some("continuity_job_spawned") {
                if let Some(id) = v.get("job_id").and_then(|x| x.as_str()) {
                    me.map
                        .entry(id.to_string())
                        .or_insert_with(|| format!("job:{sname}@{seq}"));
                }
            }
            for key in ["summary_artifact_id", "bundle_artifact_id", "body_artifact_id"] {
                if let Some(id) = v.get(key).and_then(|x| x.as_str()) {
                    if !me.map.contains_key(id) {
                        let n = me.art_n;
                        me.art_n += 1;
                        me.map.insert(id.to_string(), format!("art:{n}"));
                    }
                }
            }
        }
        me
    }

    pub fn norm(&self, v: &Value) -> Value {
        match v {
            Value::String(s) => match self.map.get(s) {
                Some(n) => Value::String(n.clone()),
                None => Value::String(self.norm_str(s)),
            },
            Value::Array(a) => Value::Array(a.iter().map(|x| self.norm(x)).collect()),
            Value::Object(o) => {
                let mut out = Map::new();
                for (k, val) in o {
                    if k.ends_with("_ms") || k == "timestamp_ms" {
                        continue;
                    }
                    out.insert(k.clone(), self.norm(val));
                }
                Value::Object(out)
            }
            other => other.clone(),
        }
    }

    /// Replace every known id and every uuid / 64-hex token in free text.
    pub fn scrub_ids(&self, s: &str) -> String {
        let mut out = s.to_string();
        for (k, v) in &self.map {
            if k.len() >= 32 && out.contains(k.as_str()) {
                out = out.replace(k.as_str(), v);
            }
        }
        // remaining hex-ish tokens of length >= 32
        let mut res = String::new();
        let mut tok = String::new();
        for ch in out.chars().chain(std::iter::once(' ')) {
            if ch.is_ascii_hexdigit() || ch == '-' {
                tok.push(ch);
            } else {
                if tok.len() >= 32 {
                    res.push_str("<id>");
                } else {
                    res.push_str(&tok);
                }
                tok.clear();
                res.push(ch);
            }
        }
        res.pop();
        res
    }

    /// Replace any embedded known id inside a longer string (error messages).
    fn norm_str(&self, s: &str) -> String {
        if s.len() < 32 {
            return s.to_string();
        }
        let mut out = s.to_string();
        for (k, v) in &self.map {
            if k.len() >= 32 && out.contains(k.as_str()) {
                out = out.replace(k.as_str(), v);
            }
        }
        out
    }
}

// ---------------------------------------------------------------------------------------------
// Operation executor

fn to_json<T: serde::Serialize>(r: Result<T, String>) -> (bool, Value) {
    match r {
        Ok(v) => (true, serde_json::to_value(v).unwrap_or(Value::Null)),
        Err(e) => (false, Value::String(e)),
    }
}

fn opt_u32(op: &Value, key: &str) -> Option<u32> {
    get_u64(op, key).map(|v| v as u32)
}

/// Content for message `n`: deterministic, distinguishable, optionally padded to `pad` bytes.
pub fn content_for(tag: &str, pad: usize) -> String {
    let mut s = format!("msg {tag}");
    if pad > s.len() {
        let fill = "lorem ipsum dolor sit amet ";
        while s.len() < pad {
            s.push_str(fill);
        }
        s.truncate(pad);
    }
    s
}

impl StoreEnv {
    /// Execute one abstract operation.  Returns `{ok, ret}` (un-normalised).
    pub fn exec(&self, op: &Value) -> Value {
        let name = get_str(op, "op").unwrap_or("");
        if name == "adopt_listed" {
            // a client looks at the thread list and learns about threads no call has returned to it (left-overs of failed calls)
            let mut ids = self.ids.lock().unwrap();
            let mut listed: Vec<String> = self.store().list().into_iter().map(|m| m.continuity_id).collect();
            listed.sort();
            let mut n = 0;
            for id in listed {
                if !ids.threads.contains(&id) {
                    ids.threads.push(id);
                    n += 1;
                }
            }
            return json!({"ok": true, "ret": {"adopted": n}});
        }
        let t = if get_str(op, "t") == Some("last") {
            self.ids.lock().unwrap().threads.len().saturating_sub(1)
        } else {
            get_u64(op, "t").unwrap_or(0) as usize
        };
        let tid = self.thread_id(t);
        let actor = get_str(op, "actor").unwrap_or("verif-actor").to_string();
        let origin = "verif".to_string();
        let (ok, ret): (bool, Value) = match name {
            "ensure_default" => {
                let r = self.store().ensure_default();
                if let Ok(id) = &r {
                    let mut ids = self.ids.lock().unwrap();
                    if !ids.threads.contains(id) {
                        ids.threads.push(id.clone());
                    }
                }
                to_json(r)
            }
            "message" => {
                let pad = get_u64(op, "pad").unwrap_or(0) as usize;
                let tag = get_str(op, "tag").map(str::to_string).unwrap_or_else(|| {
                    let ids = self.ids.lock().unwrap();
                    format!("{}:{}", t, ids.msgs.get(&t).map(|v| v.len()).unwrap_or(0))
                });
                // distinct actors with equal message counts (summary text must not depend on map order)
                let actor = if op.get("actor").is_some() {
                    actor
                } else {
                    let n = self.ids.lock().unwrap().msgs.get(&t).map(|v| v.len()).unwrap_or(0);
                    ["alice", "bob", "carol", "dave"][n % 4].to_string()
                };
                // `words`: that many distinct words, each once (every keyword count ties with every other)
                let mut content = content_for(&tag, pad);
                if let Some(n) = get_u64(op, "words") {
                    const VOCAB: [&str; 26] = ["alpha", "bravo", "charlie", "delta", "echo", "foxtrot", "golf", "hotel", "india", "juliet", "kilo", "lima", "mike",
                                               "november", "oscar", "papa", "quebec", "romeo", "sierra", "tango", "uniform", "victor", "whiskey", "xray", "yankee", "zulu"];
                    for w in VOCAB.iter().cycle().skip(pad % 26).take(n as usize) {
                        content.push(' ');
                        content.push_str(w);
                    }
                }
                let r = self.store().append_message(&tid, actor, origin, content);
                if let Ok(id) = &r {
                    self.ids
                        .lock()
                        .unwrap()
                        .msgs
                        .entry(t)
                        .or_default()
                        .push(id.clone());
                }
                to_json(r)
            }
            "filler" => {
                // n messages of `pad` bytes each (scaled concretisation of one abstract block)
                let n = get_u64(op, "n").unwrap_or(1);
                let pad = get_u64(op, "pad").unwrap_or(0) as usize;
                let store = self.store();
                let mut okc = 0u64;
                if get_str(op, "kind") == Some("cursor") {
                    // n non-message frames (provider cursor updates)
                    for i in 0..n {
                        let r = ripd::verif_api::append_provider_cursor_updated(
                            &store,
                            &tid,
                            "openresponses".to_string(),
                            None,
                            None,
                            Some(json!({"previous_response_id": format!("resp_f{i}")})),
                            "set".to_string(),
                            None,
                        );
                        if r.is_ok() {
                            okc += 1;
                        }
                    }
                    return json!({"ok": okc == n, "ret": {"appended": okc}});
                }
                for i in 0..n {
                    let r = store.append_message(
                        &tid,
                        actor.clone(),
                        origin.clone(),
                        content_for(&format!("{t}:f{i}"), pad),
                    );
                    if let Ok(id) = r {
                        okc += 1;
                        self.ids.lock().unwrap().msgs.entry(t).or_default().push(id);
                    }
                }
                (okc == n, json!({"appended": okc}))
            }
            "run_spawned" => {
                let s = get_u64(op, "s").unwrap_or(0) as usize;
                let r = self.store().append_run_spawned(
                    &tid,
                    &self.msg_ref(t, op),
                    &self.session_id(s),
                    actor,
                    origin,
                );
                to_json(r)
            }
            "run_ended" => {
                let s = get_u64(op, "s").unwrap_or(0) as usize;
                if get_bool(op, "with_text").unwrap_or(false) {
                    // the run's session stream (once per session): start, one text delta, end
                    let sid = self.session_id(s);
                    let have = crate::runs::frames_of(&self.data, &sid).len();
                    if have == 0 {
                        let log = self.reader.as_ref().unwrap();
                        let mk = |seq: u64, kind: rip_kernel::EventKind| Event {
                            id: uuid::Uuid::new_v4().to_string(),
                            session_id: sid.clone(),
                            timestamp_ms: 1,
                            seq,
                            kind,
                        };
                        let _ = log.append(&mk(0, rip_kernel::EventKind::SessionStarted { input: "q".into() }));
                        let _ = log.append(&mk(1, rip_kernel::EventKind::OutputTextDelta { delta: format!("reply-{s}") }));
                        let _ = log.append(&mk(2, rip_kernel::EventKind::SessionEnded { reason: "completed".into() }));
                    }
                }
                let r = self.store().append_run_ended(
                    &tid,
                    &self.msg_ref(t, op),
                    &self.session_id(s),
                    get_str(op, "reason").unwrap_or("completed").to_string(),
                    actor,
                    origin,
                );
                to_json(r)
            }
            "side_effects" => {
                let s = get_u64(op, "s").unwrap_or(0) as usize;
                let link = ContinuityRunLink {
                    continuity_id: tid.clone(),
                    message_id: self.msg_ref(t, op),
                    actor_id: actor,
                    origin,
                };
                let r = self.store().append_tool_side_effects(
                    &link,
                    &self.session_id(s),
                    ToolSideEffects {
                        tool_id: format!("tool-{s}"),
                        tool_name: "write".to_string(),
                        affected_paths: Some(vec!["a.txt".to_string()]),
                        checkpoint_id: None,
                    },
                );
                to_json(r)
            }
            "cursor_update" => {
                let r = ripd::verif_api::append_provider_cursor_updated(
                    &self.store(),
                    &tid,
                    get_str(op, "provider").unwrap_or("openresponses").to_string(),
                    get_str(op, "endpoint").map(str::to_string),
                    get_str(op, "model").map(str::to_string),
                    Some(json!({"previous_response_id": get_str(op, "cursor").unwrap_or("resp_1")})),
                    get_str(op, "action").unwrap_or("set").to_string(),
                    op.get("s")
                        .and_then(|x| x.as_u64())
                        .map(|s| self.session_id(s as usize)),
                );
                to_json(r)
            }
            "checkpoint" => {
                let req = CompactionCheckpointCumulativeV1Request {
                    summary_markdown: if get_bool(op, "no_summary").unwrap_or(false) {
                        None
                    } else {
                        Some(
                            get_str(op, "summary")
                                .unwrap_or("summary text")
                                .to_string(),
                        )
                    },
                    summary_artifact_id: get_str(op, "artifact").map(str::to_string),
                    to_message_id: op
                        .get("to_msg")
                        .and_then(|x| x.as_u64())
                        .map(|m| self.msg_id(t, m as usize))
                        .or_else(|| {
                            get_u64(op, "to_msg_seq")
                                .map(|q| self.msg_ref(t, &json!({"m_seq": q})))
                        }),
                    to_seq: get_u64(op, "to_seq"),
                    stride_messages: get_u64(op, "stride"),
                    actor_id: actor,
                    origin,
                };
                let r = self
                    .store()
                    .compaction_checkpoint_cumulative_v1(&tid, req)
                    .map(|(a, b, c, d, e)| json!({"checkpoint_id": a, "summary_artifact_id": b, "to_seq": c, "to_message_id": d, "cut_rule_id": e}));
                to_json(r)
            }
            "cut_points" => to_json(self.store().compaction_cut_points_v1(
                &tid,
                CompactionCutPointsV1Request {
                    stride_messages: get_u64(op, "stride"),
                    limit: opt_u32(op, "limit"),
                },
            )),
            "status" => to_json(self.store().compaction_status_v1(
                &tid,
                CompactionStatusV1Request {
                    stride_messages: get_u64(op, "stride"),
                },
            )),
            "auto" => to_json(self.store().compaction_auto_v1(
                &tid,
                CompactionAutoV1Request {
                    stride_messages: get_u64(op, "stride"),
                    max_new_checkpoints: opt_u32(op, "max_new"),
                    dry_run: get_bool(op, "dry_run"),
                    actor_id: actor,
                    origin,
                },
            )),
            "schedule" => to_json(self.store().compaction_auto_schedule_v1(
                &tid,
                CompactionAutoScheduleV1Request {
                    stride_messages: get_u64(op, "stride"),
                    max_new_checkpoints: opt_u32(op, "max_new"),
                    block_on_inflight: get_bool(op, "block_on_inflight"),
                    execute: get_bool(op, "execute"),
                    dry_run: get_bool(op, "dry_run"),
                    actor_id: actor,
                    origin,
                },
            )),
            "cursor_status" => to_json(
                self.store()
                    .provider_cursor_status_v1(&tid, ProviderCursorStatusV1Request {}),
            ),
            "cursor_rotate" => to_json(self.store().provider_cursor_rotate_v1(
                &tid,
                ProviderCursorRotateV1Request {
                    provider: get_str(op, "provider").map(str::to_string),
                    endpoint: get_str(op, "endpoint").map(str::to_string),
                    model: get_str(op, "model").map(str::to_string),
                    reason: Some("verif".to_string()),
                    actor_id: actor,
                    origin,
                },
            )),
            "selection_status" => to_json(self.store().context_selection_status_v1(
                &tid,
                ContextSelectionStatusV1Request {
                    limit: opt_u32(op, "limit"),
                },
            )),
            "replay" => {
                let r = self
                    .store()
                    .replay_events(&tid)
                    .map_err(|e| e.to_string())
                    .map(|events| {
                        events
                            .iter()
                            .map(|e| serde_json::to_value(e).unwrap_or(Value::Null))
                            .collect::<Vec<_>>()
                    });
                to_json(r)
            }
            "replay_all" => {
                let r = self
                    .reader
                    .as_ref()
                    .unwrap()
                    .replay_validated()
                    .map_err(|e| e.to_string())
                    .map(|events| json!({"frames": events.len()}));
                to_json(r)
            }
            "list" => {
                let mut l: Vec<String> = self
                    .store()
                    .list()
                    .into_iter()
                    .map(|m| m.continuity_id)
                    .collect();
                l.sort();
                (true, json!(l))
            }
            "branch" | "handoff" => {
                let from_message_id = op
                    .get("from_msg")
                    .and_then(|x| x.as_u64())
                    .map(|m| self.msg_id(t, m as usize))
                    .or_else(|| {
                        get_u64(op, "from_msg_seq").map(|q| self.msg_ref(t, &json!({"m_seq": q})))
                    })
                    .or_else(|| get_str(op, "from_raw_id").map(str::to_string))
                    .or_else(|| {
                        // id of a non-message frame, by seq
                        op.get("from_frame_seq").and_then(|x| x.as_u64()).and_then(|q| {
                            self.store().replay_events(&tid).ok().and_then(|ev| {
                                ev.iter().find(|e| e.seq == q).map(|e| e.id.clone())
                            })
                        })
                    });
                let from_seq = get_u64(op, "from_seq");
                let r = if name == "branch" {
                    self.store().branch(
                        &tid,
                        get_str(op, "title").map(str::to_string),
                        from_message_id,
                        from_seq,
                        actor,
                        origin,
                    )
                } else {
                    let existing = if get_bool(op, "artifact_of_latest_checkpoint").unwrap_or(false) {
                        self.truth_frames(t).iter().rev().find_map(|e| match &e.kind {
                            rip_kernel::EventKind::ContinuityCompactionCheckpointCreated {
                                summary_artifact_id,
                                ..
                            } => Some(summary_artifact_id.clone()),
                            _ => None,
                        })
                    } else {
                        None
                    };
                    let summary = (
                        get_str(op, "summary").map(str::to_string),
                        get_str(op, "artifact").map(str::to_string).or(existing),
                    );
                    self.store().handoff(
                        &tid,
                        get_str(op, "title").map(str::to_string),
                        summary,
                        from_message_id,
                        from_seq,
                        (actor, origin),
                    )
                };
                if let Ok((id, _, _)) = &r {
                    self.ids.lock().unwrap().threads.push(id.clone());
                }
                to_json(r.map(|(id, seq, mid)| json!({"thread_id": id, "seq": seq, "message_id": mid})))
            }
            "compile" => {
                let s = get_u64(op, "s").unwrap_or(0) as usize;
                let link = ContinuityRunLink {
                    continuity_id: tid.clone(),
                    message_id: self.msg_ref(t, op),
                    actor_id: actor,
                    origin,
                };
                let r = ripd::verif_api::compile_context_for_run(
                    &self.store(),
                    self.reader.as_ref().unwrap(),
                    &self.data.join("snapshots"),
                    &link,
                    &self.session_id(s),
                    get_bool(op, "record").unwrap_or(false),
                );
                let r = r.map(|mut v| {
                    // attach the bundle artifact itself (the observation C08 names)
                    if let Some(id) = v.get("bundle_artifact_id").and_then(|x| x.as_str()) {
                        let p = self.ws.join(".rip/artifacts/blobs").join(id);
                        if let Ok(bytes) = fs::read(&p) {
                            if let Ok(b) = serde_json::from_slice::<Value>(&bytes) {
                                v.as_object_mut().unwrap().insert("bundle".into(), b);
                            }
                        }
                    }
                    v
                });
                to_json(r)
            }
            "save_cache" => {
                // remember the present version of a cache file (for a later rollback fault)
                let file = get_str(op, "file").unwrap_or("full");
                if let Some(p) = self.cache_path(&tid, file) {
                    let dst = self.root.join(format!("saved-{t}-{file}"));
                    if p.exists() {
                        let _ = fs::copy(&p, &dst);
                        self.ids
                            .lock()
                            .unwrap()
                            .saved
                            .insert(format!("{t}-{file}"), dst);
                    }
                }
                (true, Value::Null)
            }
            "fault" => {
                let file = get_str(op, "file").unwrap_or("full");
                let kind = get_str(op, "kind").unwrap_or("delete");
                let done = self.fault(t, &tid, file, kind, op);
                (true, json!({"applied": done}))
            }
            "summaries" => {
                // every checkpoint frame of the thread with its summary artifact read back
                let norm = self.normalizer();
                let mut out = Vec::new();
                for e in self.truth_frames(t) {
                    if let rip_kernel::EventKind::ContinuityCompactionCheckpointCreated {
                        summary_artifact_id,
                        to_seq,
                        to_message_id,
                        ..
                    } = &e.kind
                    {
                        let p = self.ws.join(".rip/artifacts/blobs").join(summary_artifact_id);
                        let art = fs::read(&p)
                            .ok()
                            .and_then(|b| serde_json::from_slice::<Value>(&b).ok());
                        let md = art
                            .as_ref()
                            .and_then(|a| a.get("summary_markdown"))
                            .and_then(|m| m.as_str())
                            .unwrap_or("")
                            .to_string();
                        let md_norm = norm.scrub_ids(&md);
                        out.push(json!({
                            "frame_seq": e.seq,
                            "to_seq": to_seq,
                            "to_message_ok": to_message_id.as_deref().map(|m| norm.norm(&json!(m)) == json!(format!("f:T{t}@{to_seq}"))),
                            "art_ok": art.is_some(),
                            "art_schema": art.as_ref().and_then(|a| a.get("schema")).cloned(),
                            "art_to_seq": art.as_ref().and_then(|a| a.pointer("/coverage/to_seq")).cloned(),
                            "art_thread_ok": art.as_ref().and_then(|a| a.pointer("/coverage/thread_id")).and_then(|x| x.as_str()) == Some(tid.as_str()),
                            "md_len": md.len(),
                            "md_sha": util::sha256_hex(md_norm.as_bytes()),
                        }));
                    }
                }
                (true, json!(out))
            }
            "lineage_check" => {
                // child thread t: first two frames, handoff summary resolvable
                let frames = self.truth_frames(t);
                let kinds: Vec<String> = frames
                    .iter()
                    .take(3)
                    .map(|e| serde_json::to_value(&e.kind).ok().and_then(|v| v.get("type").and_then(|x| x.as_str()).map(str::to_string)).unwrap_or_default())
                    .collect();
                let mut summary_ok = Value::Null;
                if let Some(e) = frames.get(1) {
                    if let rip_kernel::EventKind::ContinuityHandoffCreated {
                        summary_artifact_id,
                        summary_markdown,
                        ..
                    } = &e.kind
                    {
                        let art_ok = summary_artifact_id
                            .as_ref()
                            .map(|id| self.ws.join(".rip/artifacts/blobs").join(id).is_file());
                        summary_ok = json!({"artifact_named": summary_artifact_id.is_some(), "artifact_readable": art_ok,
                                            "markdown_inline": summary_markdown.is_some()});
                    }
                }
                (true, json!({"kinds": kinds, "seqs": frames.iter().take(3).map(|e| e.seq).collect::<Vec<_>>(), "summary": summary_ok}))
            }
            "drop_caches" => {
                let _ = fs::remove_dir_all(self.streams_dir());
                (true, Value::Null)
            }
            "break_artifacts" => {
                // the artifact store cannot be written: its blobs directory is a plain file
                let dir = self.ws.join(".rip/artifacts/blobs");
                let _ = fs::remove_dir_all(&dir);
                let _ = fs::create_dir_all(self.ws.join(".rip/artifacts"));
                (fs::write(&dir, b"not a directory").is_ok(), Value::Null)
            }
            "mend_artifacts" => {
                let dir = self.ws.join(".rip/artifacts/blobs");
                let _ = fs::remove_file(&dir);
                (fs::create_dir_all(&dir).is_ok(), Value::Null)
            }
            "handoff_frames" => {
                // every handoff lineage frame in the whole log, with whether its summary can be resolved
                let bytes = fs::read(log_path(&self.data)).unwrap_or_default();
                let text = String::from_utf8_lossy(&bytes).to_string();
                let mut out = Vec::new();
                for l in text.split('\n') {
                    if let Ok(v) = serde_json::from_str::<Value>(l) {
                        if v["type"] == "continuity_handoff_created" {
                            let id = v["summary_artifact_id"].as_str().map(str::to_string);
                            let readable = id.as_ref().map(|i| self.ws.join(".rip/artifacts/blobs").join(i).is_file()).unwrap_or(false);
                            out.push(json!({"artifact_named": id.is_some(), "artifact_readable": readable, "markdown_inline": !v["summary_markdown"].is_null()}));
                        }
                    }
                }
                (true, json!(out))
            }
            other => (false, Value::String(format!("unknown op {other}"))),
        };
        json!({"ok": ok, "ret": ret})
    }

    fn fault(&self, t: usize, tid: &str, file: &str, kind: &str, op: &Value) -> bool {
        let Some(p) = self.cache_path(tid, file) else {
            return false;
        };
        match kind {
            "delete" => fs::remove_file(&p).is_ok(),
            "truncate" => {
                let Ok(bytes) = fs::read(&p) else { return false };
                // cut at a fraction (per-mille) of the file, default: middle of the last record
                let pm = get_u64(op, "at_pm").unwrap_or(900) as usize;
                let cut = bytes.len() * pm / 1000;
                fs::write(&p, &bytes[..cut.min(bytes.len())]).is_ok()
            }
            "chop_newline" => {
                // the last line is complete but its newline never reached the disk
                let Ok(bytes) = fs::read(&p) else { return false };
                if bytes.last() != Some(&b'\n') {
                    return false;
                }
                fs::write(&p, &bytes[..bytes.len() - 1]).is_ok()
            }
            "tear_last_line" => {
                // the last line is cut in the middle (its body only partly written)
                let Ok(bytes) = fs::read(&p) else { return false };
                let body = &bytes[..bytes.len().saturating_sub(1)];
                let start = body.iter().rposition(|b| *b == b'\n').map(|i| i + 1).unwrap_or(0);
                let cut = start + (bytes.len() - start) / 2;
                fs::write(&p, &bytes[..cut]).is_ok()
            }
            "chop_last_line" => {
                let Ok(bytes) = fs::read(&p) else { return false };
                let body = &bytes[..bytes.len().saturating_sub(1)];
                let cut = body.iter().rposition(|b| *b == b'\n').map(|i| i + 1).unwrap_or(0);
                fs::write(&p, &bytes[..cut]).is_ok()
            }
            "garbage" => {
                if !p.exists() {
                    return false;
                }
                fs::write(&p, b"\x00\xffnot json at all{{{\n\x01\x02garbage\n").is_ok()
            }
            "empty" => p.exists() && fs::write(&p, b"").is_ok(),
            "unline" => {
                // a line whose newline never reached the disk and onto which the next append was glued: the newline nearest
                // to the given per-mille of the file (not the last one) is removed
                let Ok(bytes) = fs::read(&p) else { return false };
                let pm = get_u64(op, "at_pm").unwrap_or(900) as usize;
                let target = bytes.len() * pm / 1000;
                let body_end = bytes.len().saturating_sub(1);
                let before = bytes[..target.min(body_end)].iter().rposition(|b| *b == b'\n');
                let after = bytes[target.min(body_end)..body_end].iter().position(|b| *b == b'\n').map(|i| i + target.min(body_end));
                let Some(at) = before.or(after) else { return false };
                let mut out = bytes[..at].to_vec();
                out.extend_from_slice(&bytes[at + 1..]);
                fs::write(&p, out).is_ok()
            }
            "append_gap" => {
                // a whole, well-formed frame of another stream whose seq leaves a gap (what an earlier failed session
                // append leaves behind): validated replay of the store fails from here on
                use std::io::Write;
                let line = "{\"id\":\"gap-e9\",\"reason\":\"completed\",\"seq\":3,\"session_id\":\"gap-session\",\"stream_id\":\"gap-session\",\"stream_kind\":\"session\",\"timestamp_ms\":2,\"type\":\"session_ended\"}\n";
                fs::OpenOptions::new().append(true).open(&p).and_then(|mut f| f.write_all(line.as_bytes())).is_ok()
            }
            "rollback" => {
                let key = format!("{t}-{file}");
                let saved = self.ids.lock().unwrap().saved.get(&key).cloned();
                match saved {
                    Some(src) => fs::copy(src, &p).is_ok(),
                    None => false,
                }
            }
            _ => false,
        }
    }

    pub fn normalizer(&self) -> Normalizer {
        Normalizer::from_log(&self.data, &self.ids.lock().unwrap())
    }

    /// Continuity frames of thread `t` straight from the truth log (not through any cache).
    pub fn truth_frames(&self, t: usize) -> Vec<Event> {
        let tid = self.thread_id(t);
        let bytes = fs::read(log_path(&self.data)).unwrap_or_default();
        let text = String::from_utf8_lossy(&bytes);
        text.split('\n')
            .filter_map(|l| serde_json::from_str::<Event>(l).ok())
            .filter(|e| e.stream_kind() == StreamKind::Continuity && e.stream_id() == tid)
            .collect()
    }
}
